#!/bin/bash
# tools/verify_seed.sh <PID> <N>  — independently confirm a seeded change in a scratch worktree:
#   suite passes with the patch; demo fails with it and passes without it. Stores it under /verif/seeded/<PID>-<N>/.
set -u
PID=$1; N=$2
SRC=${SEED_SRC:-/tmp/seed-out}/$PID
WT=/tmp/vs-$PID-$N
OUT=/verif/seeded/$PID-${SEED_OUTN:-$N}
LOG=${SEED_SRC:-/tmp/seed-out}/verify-$PID-$N.log
exec >"$LOG" 2>&1
git -C /repo worktree add -q --detach "$WT" HEAD || exit 2
cd "$WT"
res() { echo "RESULT $PID-$N: $*"; }
if ! git apply --check "$SRC/patch$N.diff"; then res "patch does not apply"; git -C /repo worktree remove --force "$WT"; exit 1; fi
git apply "$SRC/patch$N.diff"
cargo nextest run --workspace --no-fail-fast --offline 2>&1 | tail -5 > suite.txt
SUITE=$(grep -E "tests run:" suite.txt | tail -1)
cp "$SRC/demo$N.rs" tests/seed_demo.rs
grep -q 'name = "seed_demo"' Cargo.toml || printf '\n[[test]]\nname = "seed_demo"\npath = "tests/seed_demo.rs"\nrequired-features = ["tests-cfg"]\n' >> Cargo.toml
FEATS="${SEED_FEATS:-tests-cfg}"
grep -q "with-json\|serde_json" tests/seed_demo.rs && FEATS="$FEATS,with-json"
cargo test --offline --features "$FEATS" --test seed_demo 2>&1 | tail -15 > demo_with.txt
WITH=$(grep -E "^test result" demo_with.txt | tail -1)
git apply -R "$SRC/patch$N.diff"
cargo test --offline --features "$FEATS" --test seed_demo 2>&1 | tail -15 > demo_without.txt
WITHOUT=$(grep -E "^test result" demo_without.txt | tail -1)
mkdir -p "$OUT"
cp "$SRC/patch$N.diff" "$OUT/patch.diff"; cp "$SRC/demo$N.rs" "$OUT/demo.rs"; cp "$SRC/note$N.md" "$OUT/note.md" 2>/dev/null
python3 - "$PID" "$N" "$SUITE" "$WITH" "$WITHOUT" "$OUT" <<'PY'
import json,sys
pid,n,suite,w,wo,out=sys.argv[1:]
import os
n=os.environ.get("SEED_OUTN",n)
json.dump({"property":pid,"seed":int(n),"needs":"see note.md","verified":{"suite_with_patch":suite.strip(),"demo_with_patch":w.strip(),"demo_without_patch":wo.strip(),
 "commands":["git apply patch.diff","cargo nextest run --workspace --no-fail-fast --offline","cargo test --offline --features tests-cfg --test seed_demo","git apply -R patch.diff","cargo test --offline --features tests-cfg --test seed_demo"]},
 "caught_by":[]},open(out+"/meta.json","w"),indent=1)
PY
res "suite=[$SUITE] with=[$WITH] without=[$WITHOUT]"
cd /; git -C /repo worktree remove --force "$WT"
