#!/bin/bash
# tools/seed_matrix.sh [seed-name...] — run EVERY quick check (primary build configuration only) against every
# seeded change and record which checks report a violation: /verif/seeded/matrix.tsv (seed <TAB> caught-by list).
# /repo is patched and reverted per seed; evidence files are preserved. The harness is built once per seed and the
# checks then run side by side (MATRIX_JOBS at a time).
set -u
cd /verif
SEEDS=("$@"); [ ${#SEEDS[@]} -gt 0 ] || SEEDS=($(ls seeded | grep -E '^C[0-9]+-[0-9]+$'))
CHECKS=$(jq -r '.checks[].property_id' MANIFEST.json)
OUT=/verif/seeded/matrix.tsv; touch $OUT
SAVE=/verif/.work/evidence.keep
RES=/verif/.work/matrix-res
for S in "${SEEDS[@]}"; do
  P=/verif/seeded/$S/patch.diff
  [ -z "$(git -C /repo status --porcelain)" ] || { echo "/repo not clean"; exit 2; }
  git -C /repo apply "$P" 2>/dev/null || { echo -e "$S\tPATCH-DOES-NOT-APPLY" >> $OUT; continue; }
  rm -rf $SAVE; mkdir -p /verif/.work; cp -r /verif/evidence $SAVE
  rm -rf $RES; mkdir -p $RES
  if VERIF_CONFIG=full ./check build >/dev/null 2>$RES/build.err; then
    echo $CHECKS | tr ' ' '\n' | xargs -P ${MATRIX_JOBS:-5} -I{} sh -c 'C={}; if [ $C = C19 ]; then OUTP=$(VERIF_CONFIG=full timeout 900 ./check $C quick 2>&1); else OUTP=$(timeout 900 target/bin/vmc-full $C --tier quick 2>&1); fi; rc=$?; if [ $rc -eq 1 ] && echo "$OUTP" | grep -q "^VIOLATION property=$C"; then echo "$C" > '$RES'/$C; elif [ $rc -ne 0 ]; then echo "$C(rc=$rc)" > '$RES'/$C; fi'
    CAUGHT=$(cat $RES/C* 2>/dev/null | sort | tr '\n' ' ')
  else
    CAUGHT="BUILD-FAILS"
  fi
  git -C /repo checkout -- .
  rm -rf /verif/evidence; mv $SAVE /verif/evidence
  grep -v "^$S	" $OUT > $OUT.tmp; mv $OUT.tmp $OUT
  CAUGHT=$(echo $CAUGHT)
  echo -e "$S\t$CAUGHT" >> $OUT
  echo "$S: $CAUGHT"
done
sort -o $OUT $OUT
# leave a binary built from the clean tree behind
VERIF_CONFIG=full ./check build >/dev/null 2>&1
