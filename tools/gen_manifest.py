#!/usr/bin/env python3
"""Generates /verif/MANIFEST.json from the table below (single source of truth for the interface)."""
import json, sys

TECH = "bounded-exhaustive explicit-state exploration of the real code (own explorer / enumerators), "

CHECKS = {
 "C08": dict(
   text="Every state of the SELECT / INSERT / UPDATE / DELETE builder-call state machines (QModel: BFS to depth 4 quick / 5 thorough) and every member of enumerated families of dialect-specific constructs is rendered by the real MySQL and PostgreSQL backends in both modes (to_string, build). The text must be accepted by that dialect's reference clause parser (written from the manuals' statement synopses over the reference lexer and expression parser: each clause at most once, in the grammar's position, constructs of the other dialect rejected) and its normalised clause structure (select list, FROM, joins and ON, WHERE, GROUP BY, HAVING, WINDOW, set operations, ORDER BY with NULLS form, LIMIT / OFFSET, locking, CTEs, upsert, RETURNING, UPDATE tables / SET / FROM) must equal that of an independently written explicit reference rendering of the reference state in the dialect's own forms. Families: MySQL index hints (all sequences of <= 2 / 3 hints over kind x scope, with and without following clauses), DISTINCT ON, TABLESAMPLE, named WINDOW with all 32 subsets of surrounding clauses, locking (4 strengths x OF tables x wait policy), CTEs (count x column list x materialisation x SEARCH / CYCLE), 17 PostgreSQL operators and 9 functions, enum casts in 3 positions, join forms (no ON, alias, subquery, lateral), ORDER BY forms (direction / FIELD x NULLS x SELECT / window / UPDATE / DELETE, 1-2 keys). The 89 API-variant equivalences of C07 are run for MySQL and PostgreSQL here, and the 112 expression methods of C07 (with the PgExpr extension methods and ANY / SOME / ALL instead of the SQLite ones) are parsed and compared with their explicit reference expressions.",
   note="Trusted: the reference clause grammars (no MySQL / PostgreSQL engine offline), the explicit reference renderer, and the normal form (parentheses, AND / OR associativity, TRUE conjuncts, IFNULL = COALESCE, MySQL `x IS NULL dir, x dir` = NULLS FIRST / LAST, MySQL UPDATE .. JOIN .. ON = comma form with WHERE). Requests a dialect cannot express (FULL OUTER JOIN on MySQL; CROSS JOIN .. ON, UPDATE / DELETE .. ORDER BY / LIMIT and REPLACE on PostgreSQL; PostgreSQL-only lock strengths, operators and functions on MySQL) are out of domain and counted. Set operations are compared as a flat list (precedence is C09's subject).",
   technique=TECH+"BFS over builder-call histories plus exhaustive enumeration of dialect-construct families, oracle = reference clause parser per dialect and structural comparison with an explicit reference rendering",
   ref="3.8"),
 "C13": dict(
   text="Two SQLite databases are driven in lock-step: one executes sea-query's rendering, the other an independently written explicit reference rendering of the same declaration; after every statement the engines' own catalogues (pragma table_xinfo / index_list / index_xinfo / foreign_key_list, sqlite_master, declared types reduced to affinity by SQLite's documented rule, which is itself checked against typeof() probes on every run) and the outcomes of behavioural probes (default row, violating / duplicate inserts) must be identical, and each abstract type must carry its intended affinity. Spaces: (1) single-column tables: 37 ColumnType/parameter combinations x every permutation of every subset of size <= 3 (quick) / 4 (thorough, 4 representative types) of 12 column specifications; (2) 756 multi-column tables: table-level primary key (single / composite), unique index (with direction), foreign key with all 36 action pairs, check, IF NOT EXISTS; (3) every sequence of 3 (quick) / 4 (thorough) follow-up statements over a 19-statement menu (ADD / RENAME / DROP COLUMN, RENAME TABLE, CREATE [UNIQUE] INDEX [IF NOT EXISTS] [partial: one predicate, two predicates, any-group + predicate; the stored predicate is read back from sqlite_master and compared as an expression tree] [direction], DROP INDEX [IF EXISTS], DROP TABLE [IF EXISTS]) - a state machine whose state is the real catalogue. Run in the default and the option-sqlite-exact-column-type build.",
   note="Trusted: the explicit reference DDL renderer and the table of intended affinities (integer types -> INTEGER; float/double/decimal/money -> REAL; char/string/text/date-time/json/uuid/enum -> TEXT; binary/blob -> BLOB; boolean -> NUMERIC or INTEGER). Declarations whose REFERENCE the engine rejects (contradictory specifications, AUTOINCREMENT on a non-INTEGER key) are out of domain and counted.",
   technique=TECH+"exhaustive enumeration of declarations and of statement sequences, oracle = differential catalogue comparison on two real SQLite engines",
   ref="3.13"),
 "C14": dict(
   text="Every enumerated schema declaration is rendered by the real MySQL and PostgreSQL backends and parsed by that dialect's reference DDL parser (written from the manuals' statement synopses on top of the reference lexer and expression parser); the parse must succeed and return exactly the declared elements, in order, with a type name the dialect defines and lengths / precision / unsigned-ness / array dimensions preserved. Spaces, x {MySQL, PostgreSQL}: (1) 51 ColumnType/parameter combinations x every permutation of every subset of size <= 3 (quick) / 4 (thorough) of 11 column specifications, through CREATE TABLE and through ALTER TABLE ADD COLUMN; (2) 3847 tables: all subsets of {TEMPORARY, IF NOT EXISTS, table primary key (unnamed / named composite), unique, plain and FULLTEXT inline index, foreign key (9 action pairs, named and unnamed), table check, table comment} plus all subsets of ENGINE / COLLATE / CHARACTER SET; (3) ALTER TABLE option sequences up to length 2 (quick) / 3 (thorough) over ADD COLUMN [IF NOT EXISTS], RENAME / DROP COLUMN, ADD (named / unnamed) / DROP FOREIGN KEY and MODIFY COLUMN with and without a type and every permutation of <= 2 specifications; (4) CREATE INDEX (all 128 flag subsets, partial, schema-qualified, full-text), DROP INDEX, CREATE FOREIGN KEY with all 36 action pairs and unnamed, DROP FOREIGN KEY, RENAME / DROP (all flag subsets) / TRUNCATE TABLE, and PostgreSQL CREATE / DROP / ALTER TYPE and CREATE / DROP EXTENSION with all flag subsets; (5) every ColumnDef type method (45: char .. ltree, *_len forms, enumeration, array, custom, a type set twice) and the key / foreign-key convenience spellings against `new_with_type` / the canonical spelling, on all three backends.",
   note="Trusted: the reference DDL grammar (no MySQL / PostgreSQL engine is available offline) and the per-dialect table of accepted type names. Combinations the backend documents as unsupported (PostgreSQL auto_increment on non-integer types, MySQL interval / array / network types, PostgreSQL year, MySQL-only table options on PostgreSQL, contradictory specifications) are out of domain and counted.",
   technique=TECH+"exhaustive enumeration of schema declarations and ALTER option sequences, oracle = reference DDL parser per dialect compared with the declaration",
   ref="3.14"),
 "C15": dict(
   text="(a) BFS over builder-call histories of the real SelectStatement (QModel menu + named WINDOW, window-name items, TABLESAMPLE, index hints, DISTINCT ON, empty condition groups; every field of the struct is reachable) to depth 3 (quick) / 4 (thorough); in EVERY reached state: take() (result == and Debug-equal to the statement before, identical rendering on 3 backends, builder left == SelectStatement::new()), clone independence under every enabled op, and clear_selects / from_clear / reset_limit / reset_offset / clear_order_by each compared with the statement rebuilt from scratch from the history without that clause's calls. (b) clear_order_by on UPDATE / DELETE / WindowStatement over all subsets of their builder calls. (c) take() and Clone of TableCreate / Alter / Drop / Rename / Truncate, IndexCreate, ForeignKeyCreate, TableForeignKey, TableIndex, ColumnDef, WindowStatement (and Clone of InsertStatement) over ALL subsets of 1..14 builder calls each.",
   note="Trusted: `rebuilt from scratch` uses the same real builder calls (differential: state reached from the initial state vs state reached from elsewhere). Argument values are fixed per op; NaN values are not used.",
   technique=TECH+"BFS over builder-call histories with probes in every state; all subsets of builder calls for the other types; oracle = equality with the pre-image / rebuilt state",
   ref="3.15"),
 "C16": dict(
   text="Every string over a 19-symbol token-relevant alphabet up to length 5 (quick) / 7 (thorough), and every Unicode scalar in four contexts, is run through the real Tokenizer; termination (watchdog), non-empty tokens, losslessness, quoted-span integrity (reference scanner written from the property's words) and unquote are checked on each. Exhaustive within that bound; nothing sampled.",
   note="Trusted: the 40-line reference scanner for quoted spans; strings longer than the bound or using symbols outside the alphabet classes are not covered.",
   technique=TECH+"trie of all strings over an alphabet up to a length bound, oracle = reference span scanner",
   ref="3.16"),
 "C17": dict(
   text="Every string over a 22-symbol escape-relevant alphabet (incl. NUL) up to length 4 (quick) / 6 (thorough), plus every Unicode scalar in four contexts, x 3 backends: unescape(escape(s)) == s on the real EscapeBuilder impls. Exhaustive within the bound.",
   note="Trusted: nothing beyond string equality. Longer strings are not covered.",
   technique=TECH+"trie of all strings over an alphabet up to a length bound, oracle = identity",
   ref="3.17"),

 "C01": dict(
   text="Explicit-state BFS over builder-call histories of the real SELECT (61-op menu incl. custom templates with reordered / quoted marks, window frames, LIMIT/OFFSET, subqueries in FROM / IN / EXISTS / scalar position, set operations, CTE, VALUES lists, empty-IN rewrite, lock clauses) to depth 4 (quick) / 5 (thorough) and of INSERT / UPDATE / DELETE (upsert variants, UPDATE..FROM, RETURNING expressions, ORDER BY / LIMIT) to depth 4 / 5, every state built on MySQL, Postgres and SQLite. Oracle (never through the inline path): the dialect's reference lexer locates the placeholders outside quoted text - their count must equal the returned values, `?` on MySQL/SQLite, `$1..$n` ascending each once on Postgres - and the returned values must be exactly the tagged values the reference state holds for the clauses that dialect renders, in the order the dialect's grammar reads those clauses (MySQL UPDATE..JOIN..ON before SET, MySQL NULLS emulation writing the expression twice, RETURNING dropped on MySQL, ...). Two further families: (a) value pass-through - every Value variant of the C02 pool (all features; about 140 values) in 8 statement positions x 3 backends: build must hand back exactly the values given (same variant and payload, reading order); (b) templates with escaped marks - every sequence of up to 5 items over {?, ??, word} with exactly enough and with one surplus value on the ?-backends: values in order, one mark per value plus one per escape.",
   note="Trusted: the reference lexers and the per-dialect clause reading order in qmodel.rs / dml.rs (SelSpec::tags, DSpec::tags). Nested statements come from a representative pool of 4.",
   technique=TECH+"BFS over builder-call histories with state deduplication, oracle = reference lexer + tagged reference state",
   ref="3.1"),
 "C02": dict(
   text="Every state of the SELECT (depth 3 / 4) and INSERT / UPDATE / DELETE (depth 4 / 5) state machines x 3 backends, plus a sweep of 140 values covering every Value variant (all features; NULL of every variant) through 8 statement positions: (a) replacing the placeholders of build(B), located by the reference lexer, by B.value_to_string(value_i) gives exactly to_string(B); (b) build / build_any / build_collect / build_collect_into / to_string agree, rendering twice agrees, Debug of the statement is unchanged by rendering; (c) on a real SQLite engine the inline and the bound form return the same rows / have the same effects (values bound as the in-repo rusqlite binder binds them; also value/2 for numeric values); (d) every inlined literal is decoded independently (reference lexer + the value type's own parser) and must give back the bound value; the two token streams must agree everywhere else.",
   note="Trusted: reference lexers; f32 values take part in the engine comparison only where widening to f64 is exact; date / decimal / uuid / json values take part in (a), (b), (d) only. Two genuine defects repaired by fix: commits.",
   technique=TECH+"BFS over builder-call histories + exhaustive value-variant sweep, oracle = reference lexer, independent literal decoding and differential execution on a real SQLite engine",
   ref="3.2"),
 "C03": dict(
   text="Every string over a 22-symbol escape-relevant alphabet up to length 4 (quick) / 5 (thorough), every Unicode scalar as char, all byte strings up to length 2 (+ every byte in a frame) x {MySQL, Postgres, SQLite} x 40 inlining positions (query values, constants, ORDER BY FIELD, LIKE pattern / ESCAPE char, IN lists, INSERT/UPDATE values, DEFAULT, JSON, array elements, MySQL COMMENT and ENUM labels, PG CREATE/ALTER TYPE labels). Oracle: differential against a benign marker under the dialect's reference lexer (same token skeleton, one literal token in the slot, decoded content == value); on SQLite the real engine decodes the literal as well (SELECT / DEFAULT read back).",
   note="Trusted: MySQL and PostgreSQL lexical rules transcribed from the manuals (no engine offline; default sql_mode, standard_conforming_strings=on); the SQLite lexer is validated against the engine on every run. Three genuine defects were repaired by fix: commits (see known_findings.json).",
   technique=TECH+"trie of all strings over an alphabet up to a length bound x positions, oracle = reference lexers + real SQLite engine",
   ref="3.3"),
 "C04": dict(
   text="All non-empty strings over a 15-symbol identifier-relevant alphabet (both quote characters, backslash, space, dot, semicolon, brackets, $, ?, non-ASCII) up to length 3 (quick) / 4 (thorough) x 86 identifier positions of query and schema statements x 3 backends. Oracle: differential against a benign marker name under the dialect's reference lexer (same token skeleton; every token that carried the marker is one quoted-identifier token decoding to the name). On SQLite the engine confirms by reading the name back (column_name, sqlite_master, pragma_table_xinfo).",
   note="Trusted: MySQL / PostgreSQL identifier quoting rules from the manuals; SQLite validated against the engine. Names ending in [] are excluded for the enum cast (documented array-cast spelling). One genuine defect class repaired by a fix: commit.",
   technique=TECH+"trie of all strings over an alphabet up to a length bound x positions, oracle = reference lexers + real SQLite engine",
   ref="3.4"),
 "C05": dict(
   text="All expression trees with <= 2 (quick) / 3 (thorough) operator nodes over the FULL operator alphabet of each dialect (19 common operators incl. LIKE, all PgBinOper / SqliteBinOper, custom operators, NOT, IS [NOT] NULL, [NOT] IN, [NOT] BETWEEN, LIKE..ESCAPE, CAST, enum cast), deeper trees (<= 3 / 4 nodes) over one representative per precedence class, and every leaf kind (value, function, tuple, subquery, CASE, keyword) in every operand slot; built through the public ExprTrait API, rendered on 3 backends, in the default and the option-more-parentheses build. Oracle: a reference Pratt parser with the dialect's documented precedence/associativity table must read the rendering back as exactly the built tree; on SQLite the real engine additionally evaluates the rendering against a fully parenthesised rendering of the built tree over a value table (this also conformance-checks the parser model).",
   note="Trusted: MySQL / PostgreSQL precedence tables transcribed from the manuals; operand slots where manual and real grammar are known to disagree (MySQL: bare arithmetic right operand of LIKE, boolean BETWEEN bounds) are excluded and counted as excluded_undecidable. Two genuine defects repaired by fix: commits.",
   technique=TECH+"all expression trees up to a node bound, oracle = reference precedence parser + real SQLite engine",
   ref="3.5"),
 "C06": dict(
   text="(i) Every condition tree (Cond::any/all, negate flags, empty groups, add_option(None)) with depth <= 3, width <= 3 and <= 7 (quick) / 8 (thorough) nodes in SELECT WHERE, and the complete depth<=2/width<=2 set in HAVING, JOIN ON, UPDATE WHERE, DELETE WHERE, CASE WHEN, ON CONFLICT target/action WHERE and partial-index WHERE; (ii) every sequence of up to 3 condition-adding calls (and_where, and_where_option(None|Some), cond_where(tree) over a 47-entry menu; 106 k sequences) on the real ConditionHolder. Oracle: a three-valued evaluator of the supplied trees under all 81 TRUE/FALSE/NULL assignments of four atoms; the rendered predicate is parsed by the dialect's reference parser and evaluated by the same evaluator (3 dialects), and SQLite statements are executed by the real engine over a table holding every assignment (SELECT / UPDATE / DELETE row sets must be exactly the TRUE assignments). No supplied condition => no predicate keyword.",
   note="Trusted: the 30-line three-valued evaluator; atoms are `col = 1` over columns holding 1/0/NULL. FALSE vs NULL is separated because the tree space is closed under negated wrappers.",
   technique=TECH+"all condition trees up to a size bound and all call sequences up to depth 3, oracle = three-valued truth tables on a real SQLite engine",
   ref="3.6"),
 "C07": dict(
   text="Explicit-state BFS over builder-call histories of the real SelectStatement (57-op menu: columns, 12 expression kinds incl. CASE / functions / custom templates / scalar subqueries, window functions with frames, DISTINCT, FROM table / alias / subquery / VALUES, every join type, and_where / cond_where / IN-subquery / EXISTS, GROUP BY, HAVING, UNION / INTERSECT / EXCEPT, ORDER BY with NULLS and FIELD, LIMIT / OFFSET, CTE) to depth 4 (quick) / 5 (thorough), and of INSERT (VALUES / SELECT / DEFAULT VALUES / REPLACE / 11 ON CONFLICT variants / RETURNING), UPDATE (SET, FROM, WHERE, ORDER BY, LIMIT, RETURNING) and DELETE to depth 4 / 5. In every state whose independently written, fully explicit reference rendering the real SQLite engine accepts, to_string and build+bind are executed on the engine inside a rolled-back transaction and must give the reference's result rows (ordered when ORDER BY is present), RETURNING rows, changes() and table contents. In addition every public convenience method of the four statement builders, OnConflict and ReturningClause (89 variants: left_join .. full_outer_join, join_as, join_subquery, columns, exprs, expr_window*, from_as / from_subquery / from_values / from_function, group_by_columns, and_where_option, conditions, apply_if, the order_by_* family on SELECT / UPDATE / DELETE, lock_shared / lock_exclusive, unions, values_panic / values_from_panic, returning_col / returning_all, update_column(s), value(s) ...) is applied on top of every base statement (all sequences of <= 2 canonical calls) and must render exactly like its canonical spelling (text and bound values, both modes), which reduces its meaning to the canonical method's, decided by the state machine. The dialect-construct families of C08 (named WINDOW with all 32 subsets of surrounding clauses, ORDER BY forms x NULLS x FIELD on SELECT / window / UPDATE / DELETE, join forms, CTE options incl. [NOT] MATERIALIZED, enum casts, and index hints / DISTINCT ON / TABLESAMPLE / locking, which SQLite must drop) are executed on the engine as well: about 600 statements, each against the explicit SQLite reference text of the same declaration. Finally every public expression method (112 entries: the inherent methods of Expr and the ExprTrait methods on SimpleExpr side by side - eq .. lte, arithmetic, shifts, bit operators, between / not_between, like / not_like / escape, is / is_not, is_in / is_not_in / in_tuples / in_subquery, exists, not / and / or - the Func constructors, CASE, tuples, custom templates, and the SqliteExpr extension methods) is built once, rendered in `SELECT <expr> FROM t1` and evaluated by the engine row by row against an explicit reference expression of what the method is documented to mean.",
   note="Trusted: the explicit reference renderer (qmodel.rs / dml.rs), written from SQLite's syntax diagrams; states whose REFERENCE the engine rejects are out of domain (counted by reason; every op class must occur in executed states or the run is a machinery failure). Nested statements come from a representative pool of 4. Two genuine defects repaired by fix: commits.",
   technique=TECH+"BFS over builder-call histories with state deduplication, oracle = differential execution on a real SQLite engine against a reference rendering",
   ref="3.7"),
 "C09": dict(
   text="Explicit-state BFS over builder-call histories restricted to the portable feature subset (SELECT depth 4 / 5: columns, expressions, functions incl. IFNULL/COALESCE, GREATEST/LEAST, CHAR_LENGTH, CASE, custom templates, window functions, DISTINCT, FROM table/alias/subquery/VALUES, joins, WHERE groups, IN-subquery / EXISTS / scalar subquery, GROUP BY, HAVING, UNION/INTERSECT/EXCEPT chains, ORDER BY with NULLS FIRST/LAST and FIELD order, LIMIT/OFFSET, CTE; INSERT VALUES/SELECT, UPDATE SET/WHERE, DELETE WHERE depth 4 / 5). In every state the MySQL and Postgres renderings (inline and bound) are transliterated token by token through the reference lexers into SQLite spelling - identifier quotes, placeholder style, literal syntax, VALUES ROW, set-operation parentheses (regrouped by the SQL-standard INTERSECT precedence that MySQL 8 and PostgreSQL implement) and the documented function-name substitutions, nothing else - and all three are executed on identical SQLite databases; result rows (ordered under ORDER BY) and final table contents must be pairwise identical. In addition every expression tree with up to 2 (quick) / 3 (thorough) operator nodes over the 16 operators that mean the same on the three engines (+ - * %, shifts, bit operators, comparisons, AND / OR) plus NOT and IS [NOT] NULL is rendered for each backend, each text is read by its own dialect's reference grammar, printed fully parenthesised and evaluated by the engine over a value table: the three readings must evaluate alike.",
   note="Trusted: the transliterator (token-level, 150 lines) and the reference lexers; semantics of the MySQL / Postgres text are those of SQLite after transliteration (LIKE case rules, type affinity); states whose explicit reference rendering SQLite rejects, and MySQL's NULLS emulation inside compound selects (not executable on SQLite), are out of domain and counted. One genuine defect is a known finding (INTERSECT precedence, 2 keys).",
   technique=TECH+"BFS over builder-call histories, oracle = pairwise differential execution of the three transliterated renderings on a real SQLite engine",
   ref="3.9"),
 "C10": dict(
   text="Explicit-state BFS over ALL histories of a 27-operation INSERT alphabet (columns / values / values_panic / values_from_panic / select_from / or_default_values*, column counts 0..3, row lengths 0..4) up to depth 6 (quick) / 8 (thorough) on the real InsertStatement, in lock-step with a plain-list reference model. Per step: Result / panic vs the contract, error counts, statement unchanged after a rejection. Per state: rendering on 3 backends x {to_string, build} parsed back by an independent parser and compared with the model (rectangularity, call order, default-values form).",
   note="Trusted: the reference model of the documented contract (lists), the reference lexer and the 150-line INSERT parser. One genuine defect is a known finding (columns() after a source was accepted).",
   technique=TECH+"BFS over builder-call histories with state deduplication, oracle = reference model + parse-back",
   ref="3.10"),
 "C11": dict(
   text="Every template over the 10-symbol alphabet {a 1 2 ? $ space ' \" \\ é} up to length 6 (quick) / 7 (thorough) x value lists of length 0..3 x 3 backends through the real Expr::cust_with_values: to_string, build (SQL text and returned values) and inject_parameters(build) are compared with an independent reference expander written from the property's words (quote-aware scan, doubled mark = literal, ? positional, $n numbered). Out-of-domain templates (missing value, $1a) must only terminate.",
   note="Trusted: the 100-line reference expander. inject_parameters over whole statements (values with trailing backslashes etc.) is covered by C02's statement space, not here.",
   technique=TECH+"trie of all templates over an alphabet up to a length bound x value-list lengths, oracle = reference expander",
   ref="3.11"),
 "C12": dict(
   text="Exhaustive enumeration of value domains through the real From/ValueType/Nullable/tuple impls: complete bool, i8, u8, i16, u16, char; all 2^32 bit patterns of f32/i32/u32 (thorough; <=3-bit grid in quick); bit-pattern grids for 64-bit types; all strings/byte strings over a 6-symbol alphabet up to length 4; boundary grids for chrono/time/uuid/decimal/json/ip/mac/vector/array types; every (source variant, target type) pair incl. Option<T>; all 3^n tuples for arity 1..12. Run in the `plain` and the `full` (hashable-value) build. Oracle: identity (bit identity for floats), NULL-of-own-variant, Err on mismatch. Arrays: every ordered pair of distinct element types (9 types) x lengths 0, 1, 2 must be rejected as Vec<T> and as Option<Vec<T>>.",
   note="Trusted: the independent variant<->type table in the harness. 64-bit and feature-type domains are grids, not complete.",
   technique=TECH+"complete / grid enumeration of value domains, oracle = identity",
   ref="3.12"),
 "C18": dict(
   text="All ordered pairs (48 k) and all ordered triples (10.5 M) of a 219-value pool covering every Value variant (NULLs, +-0, infinities, NaNs with different payloads, subnormals, JSON with permuted keys, nested arrays, vectors with NaN/-0), every payload built twice independently; plus 13 M pairs of value tuples. Oracle: reflexive, symmetric, transitive, never equal across variants, equal payload => equal, equal => equal hash (fixed SipHash), HashSet round trip and class count.",
   note="Trusted: std's DefaultHasher as the fixed hasher. The pool is finite; payloads outside it are not covered.",
   technique=TECH+"all pairs and triples of a finite value pool, oracle = equivalence + hash-coherence laws",
   ref="3.18"),
 "C19": dict(
   text="A crate is generated that applies the real proc macros of /repo to an exhaustively enumerated family of definitions, compiled against /repo's working tree and run: #[derive(Iden)] and #[derive(IdenStatic)] enums and unit structs for every valid type name built from <= 2 (quick) / 3 (thorough) segments of {Ab, ABC, A, a1, 9, _, b} plus spellings around the special `Table` variant, every such name as a variant; single-variant enums (so the per-type fast-path predicate is decided by one name) for every rename string over an 11-symbol alphabet (both quote characters, backtick, bracket, space, dash, non-ASCII) up to length 2 / 3 in both attribute forms; container renames (Table) and unit-struct renames; method attributes; flattened named / unnamed / two-level variants; #[enum_def] with every prefix / suffix / table_name combination. Every value reports Iden::to_string, Iden::prepare under 4 quote pairs and IdenStatic::as_str. Oracle: independently written snake_case (heck's documented word-boundary rules), attribute overrides, and general identifier quoting (the generated fast path must equal it). Renames containing braces are compiled in a separate crate so a compile failure is attributable.",
   note="Trusted: the reference snake_case (40 lines) and the enumeration of definition shapes. The exploration is of the space of programs (type definitions); each is run once. One genuine defect repaired by a fix: commit.",
   technique=TECH+"exhaustive enumeration of type definitions compiled with the real proc macros, oracle = reference naming + quoting rules",
   ref="3.19"),
}

NOT_YET = {
}

NOT_APPLICABLE = {
 "C20": "type-level fact (Send + Sync of public types) decided statically by rustc's auto-trait solver; there is no execution, schedule or state space to enumerate, and a compile-time assertion would be a different technique (DESIGN 3.20)",
}

def main():
    all_ids = ["C%02d" % i for i in range(1, 21)]
    checks = []
    for pid in all_ids:
        if pid not in CHECKS: continue
        c = CHECKS[pid]
        checks.append({
            "property_id": pid,
            "quick_cmd": f"./check {pid} quick",
            "thorough_cmd": f"./check {pid} thorough",
            "evidence_file": f"/verif/evidence/{pid}.json",
            "replay_cmd_template": f"./check {pid} --replay {{path}}",
            "engine": "vmc",
            "level_claimed": {"category": "model_checking", "text": c["text"], "design_ref": "DESIGN.md §" + c["ref"]},
            "level_note": c["note"],
            "technique": c["technique"],
        })
    na = []
    for pid in all_ids:
        if pid in CHECKS: continue
        if pid in NOT_APPLICABLE:
            na.append({"property_id": pid, "reason": NOT_APPLICABLE[pid]})
        else:
            na.append({"property_id": pid, "reason": NOT_YET.get(pid, "check not built yet in this tree (planned in DESIGN.md; not claimed until its oracle is complete and sound)")})
    m = {
        "version": 1,
        "setup_cmd": "./check setup",
        "hooks": {
            "guard": "seaql_sea_query_verif",
            "enable": "no hooks are needed: every observation point is public API; checks build /repo's working tree as a path dependency of /verif/mc (cargo build --release --offline)",
            "baseline_off_cmd": "cd /repo && cargo nextest run --workspace --no-fail-fast --tool-config-file pb:/w/lib/nextest.toml --profile pb --test-threads 8 --offline",
            "source_commits": [],
            "add_only": True,
        },
        "engines": [
            {"name": "vmc", "path": "/verif/mc", "serves_properties": [c["property_id"] for c in checks],
             "kind_free_text": "Rust harness crate: explicit-state BFS explorer over real builder objects + bounded-exhaustive input enumerators; oracles = reference models, reference lexers/parsers, and a real SQLite engine (system libsqlite3 via FFI)"},
        ],
        "checks": checks,
        "notes": "All checks decide by exhaustive enumeration within the bounds stated in their evidence files; see DESIGN.md. known_findings.json lists genuine defects that are recorded rather than repaired.",
        "not_applicable": na,
    }
    json.dump(m, open("/verif/MANIFEST.json", "w"), indent=1)
    print("wrote MANIFEST.json with", len(checks), "checks;", len(na), "not claimed")

main()
