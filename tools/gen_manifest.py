#!/usr/bin/env python3
"""Generates /verif/MANIFEST.json from the table below (single source of truth for the interface)."""
import json, sys

TECH = "bounded-exhaustive explicit-state exploration of the real code (own explorer / enumerators), "

CHECKS = {
 "C16": dict(
   text="Every string over a 19-symbol token-relevant alphabet up to length 5 (quick) / 7 (thorough), and every Unicode scalar in four contexts, is run through the real Tokenizer; termination (watchdog), non-empty tokens, losslessness, quoted-span integrity (reference scanner written from the property's words) and unquote are checked on each. Exhaustive within that bound; nothing sampled.",
   note="Trusted: the 40-line reference scanner for quoted spans; strings longer than the bound or using symbols outside the alphabet classes are not covered.",
   technique=TECH+"trie of all strings over an alphabet up to a length bound, oracle = reference span scanner",
   ref="3.16"),
 "C17": dict(
   text="Every string over a 22-symbol escape-relevant alphabet (incl. NUL) up to length 4 (quick) / 6 (thorough), plus every Unicode scalar in four contexts, x 3 backends: unescape(escape(s)) == s on the real EscapeBuilder impls. Exhaustive within the bound.",
   note="Trusted: nothing beyond string equality. Longer strings are not covered.",
   technique=TECH+"trie of all strings over an alphabet up to a length bound, oracle = identity",
   ref="3.17"),
}

NOT_YET = {
}

NOT_APPLICABLE = {
 "C20": "type-level fact (Send + Sync of public types) decided statically by rustc's auto-trait solver; there is no execution, schedule or state space to enumerate, and a compile-time assertion would be a different technique (DESIGN 3.20)",
}

def main():
    all_ids = ["C%02d" % i for i in range(1, 21)]
    checks = []
    for pid in all_ids:
        if pid not in CHECKS: continue
        c = CHECKS[pid]
        checks.append({
            "property_id": pid,
            "quick_cmd": f"./check {pid} quick",
            "thorough_cmd": f"./check {pid} thorough",
            "evidence_file": f"/verif/evidence/{pid}.json",
            "replay_cmd_template": f"./check {pid} --replay {{path}}",
            "engine": "vmc",
            "level_claimed": {"category": "model_checking", "text": c["text"], "design_ref": "DESIGN.md §" + c["ref"]},
            "level_note": c["note"],
            "technique": c["technique"],
        })
    na = []
    for pid in all_ids:
        if pid in CHECKS: continue
        if pid in NOT_APPLICABLE:
            na.append({"property_id": pid, "reason": NOT_APPLICABLE[pid]})
        else:
            na.append({"property_id": pid, "reason": NOT_YET.get(pid, "check not built yet in this tree (planned in DESIGN.md; not claimed until its oracle is complete and sound)")})
    m = {
        "version": 1,
        "setup_cmd": "./check setup",
        "hooks": {
            "guard": "seaql_sea_query_verif",
            "enable": "no hooks are needed: every observation point is public API; checks build /repo's working tree as a path dependency of /verif/mc (cargo build --release --offline)",
            "baseline_off_cmd": "cd /repo && cargo nextest run --workspace --no-fail-fast --tool-config-file pb:/w/lib/nextest.toml --profile pb --test-threads 8 --offline",
            "source_commits": [],
            "add_only": True,
        },
        "engines": [
            {"name": "vmc", "path": "/verif/mc", "serves_properties": [c["property_id"] for c in checks],
             "kind_free_text": "Rust harness crate: explicit-state BFS explorer over real builder objects + bounded-exhaustive input enumerators; oracles = reference models, reference lexers/parsers, and a real SQLite engine (system libsqlite3 via FFI)"},
        ],
        "checks": checks,
        "notes": "All checks decide by exhaustive enumeration within the bounds stated in their evidence files; see DESIGN.md. known_findings.json lists genuine defects that are recorded rather than repaired.",
        "not_applicable": na,
    }
    json.dump(m, open("/verif/MANIFEST.json", "w"), indent=1)
    print("wrote MANIFEST.json with", len(checks), "checks;", len(na), "not claimed")

main()
