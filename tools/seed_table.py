#!/usr/bin/env python3
"""tools/seed_table.py — fill seeded/*/meta.json caught_by from seeded/matrix.tsv and rewrite the table in DESIGN.md §7.4"""
import json, os, re
V = '/verif'
rows = {}
for line in open(f'{V}/seeded/matrix.tsv'):
    line = line.rstrip('\n')
    if not line: continue
    k, _, v = line.partition('\t')
    rows[k] = v.split() if v else []
table = ['| seeded change | property | what it breaks (from its note) | reported by (quick tier) |', '|---|---|---|---|']
for name in sorted(os.listdir(f'{V}/seeded')):
    d = f'{V}/seeded/{name}'
    if not os.path.isdir(d): continue
    meta = json.load(open(f'{d}/meta.json'))
    caught = rows.get(name, [])
    meta['caught_by'] = caught
    meta['caught_by_source'] = 'tools/seed_matrix.sh: every quick check (primary build configuration) run against /repo with this patch applied'
    json.dump(meta, open(f'{d}/meta.json', 'w'), indent=1); open(f'{d}/meta.json', 'a').write('\n')
    title = open(f'{d}/note.md').readline().strip().lstrip('# ').strip()
    m = re.match(r'^C\d\d\b[^—:]*?(?:—|:| - )\s*(.*)$', title)
    if m: title = m.group(1)
    title = re.sub(r'^change \d+:\s*', '', title).replace('|', '\\|')
    own = name.split('-')[0]
    mark = ', '.join(f'**{c}**' if c == own else c for c in caught) or 'none'
    table.append(f'| `{name}` | {own} | {title} | {mark} |')
s = open(f'{V}/DESIGN.md').read()
start = s.index('<!-- SEED_TABLE_START -->') if '<!-- SEED_TABLE_START -->' in s else None
block = '<!-- SEED_TABLE_START -->\n' + '\n'.join(table) + '\n<!-- SEED_TABLE_END -->'
if start is None:
    s = s.replace('SEED_TABLE_PLACEHOLDER', block)
else:
    end = s.index('<!-- SEED_TABLE_END -->') + len('<!-- SEED_TABLE_END -->')
    s = s[:start] + block + s[end:]
open(f'{V}/DESIGN.md', 'w').write(s)
print(len(table) - 2, 'seeds;', sum(1 for k, v in rows.items() if k.split('-')[0] in v), 'caught by own check')
