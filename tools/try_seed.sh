#!/bin/bash
# tools/try_seed.sh <seed-dir-name> <Cnn> [<Cnn>...]  — apply /verif/seeded/<name>/patch.diff to /repo,
# run the given checks (quick), always revert. Prints one line per check: CAUGHT / MISSED.
set -u
NAME=$1; shift
P=/verif/seeded/$NAME/patch.diff
[ -f "$P" ] || P=$NAME
cd /repo || exit 2
[ -z "$(git status --porcelain)" ] || { echo "/repo not clean"; exit 2; }
git apply "$P" || exit 2
# evidence files must describe runs on the unchanged tree: keep them out of harm's way
rm -rf /tmp/evidence.keep; cp -r /verif/evidence /tmp/evidence.keep
trap 'git -C /repo checkout -- . ; rm -rf /verif/evidence; mv /tmp/evidence.keep /verif/evidence; (cd /verif && VERIF_CONFIG=full ./check build >/dev/null 2>&1)' EXIT  # the last line rebuilds the binary from the clean tree
for C in "$@"; do
  OUT=$(cd /verif && ./check $C ${TIER:-quick} 2>&1); rc=$?
  if [ $rc -eq 1 ] && echo "$OUT" | grep -q "^VIOLATION property=$C"; then
    echo "CAUGHT  $NAME by $C: $(echo "$OUT" | grep -m1 -A1 '^--- ' | tr '\n' ' ' | cut -c1-300)"
  elif [ $rc -eq 0 ]; then
    echo "MISSED  $NAME by $C"
  else
    echo "ERROR   $NAME by $C rc=$rc: $(echo "$OUT" | tail -3)"
  fi
done
