//! Small shared helpers: parallel exhaustive drivers, fingerprints, panic capture, watchdog.

use std::panic::{catch_unwind, AssertUnwindSafe};
use std::sync::atomic::{AtomicBool, AtomicU64, AtomicUsize, Ordering};
use std::sync::{Arc, Mutex};
use std::time::{Duration, Instant};

pub fn n_workers() -> usize {
    std::env::var("VERIF_WORKERS")
        .ok()
        .and_then(|s| s.parse().ok())
        .unwrap_or_else(|| std::thread::available_parallelism().map(|n| n.get()).unwrap_or(8))
        .max(1)
}

pub fn seed() -> i64 {
    std::env::var("VERIF_SEED").ok().and_then(|s| s.parse().ok()).unwrap_or(0)
}

/// Run `f` with panics caught; the panic message is returned as Err.
pub fn catch<R>(f: impl FnOnce() -> R) -> Result<R, String> {
    match catch_unwind(AssertUnwindSafe(f)) {
        Ok(r) => Ok(r),
        Err(e) => {
            let msg = if let Some(s) = e.downcast_ref::<&str>() {
                s.to_string()
            } else if let Some(s) = e.downcast_ref::<String>() {
                s.clone()
            } else {
                "<non-string panic>".to_string()
            };
            Err(msg)
        }
    }
}

/// Silence the default panic hook (panics of the code under test are observations).
pub fn quiet_panics() {
    std::panic::set_hook(Box::new(|_| {}));
}

/// 128-bit FNV-1a style fingerprint (two independent 64-bit lanes).
#[derive(Clone, Copy)]
pub struct Fp(pub u64, pub u64);
impl Fp {
    pub fn new() -> Self {
        Fp(0xcbf29ce484222325, 0x84222325cbf29ce4)
    }
    #[inline]
    pub fn bytes(&mut self, b: &[u8]) {
        for &x in b {
            self.0 = (self.0 ^ x as u64).wrapping_mul(0x100000001b3);
            self.1 = (self.1 ^ x as u64).wrapping_mul(0x9E3779B97F4A7C15).rotate_left(23);
        }
        self.0 = (self.0 ^ 0xff).wrapping_mul(0x100000001b3);
        self.1 = (self.1 ^ 0xfe).wrapping_mul(0x9E3779B97F4A7C15).rotate_left(23);
    }
    pub fn str(&mut self, s: &str) {
        self.bytes(s.as_bytes())
    }
    pub fn get(&self) -> u128 {
        ((self.0 as u128) << 64) | self.1 as u128
    }
}
pub fn fp_str(s: &str) -> u128 {
    let mut f = Fp::new();
    f.str(s);
    f.get()
}
pub fn hex64(s: &str) -> String {
    format!("{:016x}", fp_str(s) as u64)
}

/// Watchdog + progress holder shared by the workers of one exhaustive sweep.
pub struct Progress {
    pub current: Vec<Mutex<(String, Instant)>>,
    pub done: AtomicBool,
}
impl Progress {
    pub fn new(n: usize) -> Arc<Self> {
        Arc::new(Progress {
            current: (0..n).map(|_| Mutex::new((String::new(), Instant::now()))).collect(),
            done: AtomicBool::new(false),
        })
    }
}

/// Exhaustive parallel sweep over the index range `0..total`; `work(worker, idx)` is called for
/// every index exactly once. Indices are handed out in chunks, in ascending order.
pub fn par_range<F>(total: u64, chunk: u64, work: F)
where
    F: Fn(usize, u64) + Sync,
{
    let next = AtomicU64::new(0);
    let n = n_workers();
    std::thread::scope(|s| {
        for w in 0..n {
            let next = &next;
            let work = &work;
            s.spawn(move || loop {
                let start = next.fetch_add(chunk, Ordering::Relaxed);
                if start >= total {
                    break;
                }
                let end = (start + chunk).min(total);
                for i in start..end {
                    work(w, i);
                }
            });
        }
    });
}

/// Exhaustive parallel sweep over a slice of work items.
pub fn par_items<T: Sync, F>(items: &[T], work: F)
where
    F: Fn(usize, &T) + Sync,
{
    let next = AtomicUsize::new(0);
    let n = n_workers().min(items.len().max(1));
    std::thread::scope(|s| {
        for w in 0..n {
            let next = &next;
            let work = &work;
            s.spawn(move || loop {
                let i = next.fetch_add(1, Ordering::Relaxed);
                if i >= items.len() {
                    break;
                }
                work(w, &items[i]);
            });
        }
    });
}

/// Run `f` under a watchdog: if it does not return within `limit`, report a hang (the thread is leaked).
pub fn with_timeout<R: Send + 'static>(limit: Duration, f: impl FnOnce() -> R + Send + 'static) -> Option<R> {
    let (tx, rx) = std::sync::mpsc::channel();
    std::thread::spawn(move || {
        let r = f();
        let _ = tx.send(r);
    });
    rx.recv_timeout(limit).ok()
}

pub struct Counter(pub AtomicU64);
impl Counter {
    pub const fn new() -> Self {
        Counter(AtomicU64::new(0))
    }
    #[inline]
    pub fn inc(&self) {
        self.0.fetch_add(1, Ordering::Relaxed);
    }
    #[inline]
    pub fn add(&self, n: u64) {
        self.0.fetch_add(n, Ordering::Relaxed);
    }
    pub fn get(&self) -> u64 {
        self.0.load(Ordering::Relaxed)
    }
}

/// Printable form of arbitrary text for messages / keys (escapes control and non-ASCII).
pub fn show(s: &str) -> String {
    let mut o = String::new();
    for c in s.chars() {
        if c == '\\' {
            o.push_str("\\\\");
        } else if (' '..='~').contains(&c) {
            o.push(c);
        } else {
            o.push_str(&format!("\\u{{{:x}}}", c as u32));
        }
    }
    o
}
