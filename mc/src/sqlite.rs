//! Minimal FFI to the system libsqlite3 (3.40.1): the real engine used as oracle.

use std::ffi::{c_char, c_int, c_void, CStr};

#[repr(C)]
pub struct Sqlite3 {
    _p: [u8; 0],
}
#[repr(C)]
pub struct Stmt {
    _p: [u8; 0],
}

#[link(name = "sqlite3")]
extern "C" {
    fn sqlite3_open(filename: *const c_char, db: *mut *mut Sqlite3) -> c_int;
    fn sqlite3_close(db: *mut Sqlite3) -> c_int;
    fn sqlite3_exec(db: *mut Sqlite3, sql: *const c_char, cb: *const c_void, arg: *mut c_void, err: *mut *mut c_char) -> c_int;
    fn sqlite3_free(p: *mut c_void);
    fn sqlite3_prepare_v2(db: *mut Sqlite3, sql: *const c_char, n: c_int, stmt: *mut *mut Stmt, tail: *mut *const c_char) -> c_int;
    fn sqlite3_step(stmt: *mut Stmt) -> c_int;
    fn sqlite3_finalize(stmt: *mut Stmt) -> c_int;
    fn sqlite3_errmsg(db: *mut Sqlite3) -> *const c_char;
    fn sqlite3_column_count(stmt: *mut Stmt) -> c_int;
    fn sqlite3_column_type(stmt: *mut Stmt, i: c_int) -> c_int;
    fn sqlite3_column_int64(stmt: *mut Stmt, i: c_int) -> i64;
    fn sqlite3_column_double(stmt: *mut Stmt, i: c_int) -> f64;
    fn sqlite3_column_blob(stmt: *mut Stmt, i: c_int) -> *const c_void;
    fn sqlite3_column_bytes(stmt: *mut Stmt, i: c_int) -> c_int;
    fn sqlite3_column_name(stmt: *mut Stmt, i: c_int) -> *const c_char;
    fn sqlite3_bind_int64(stmt: *mut Stmt, i: c_int, v: i64) -> c_int;
    fn sqlite3_bind_double(stmt: *mut Stmt, i: c_int, v: f64) -> c_int;
    fn sqlite3_bind_text(stmt: *mut Stmt, i: c_int, p: *const c_char, n: c_int, d: isize) -> c_int;
    fn sqlite3_bind_blob(stmt: *mut Stmt, i: c_int, p: *const c_void, n: c_int, d: isize) -> c_int;
    fn sqlite3_bind_null(stmt: *mut Stmt, i: c_int) -> c_int;
    fn sqlite3_bind_parameter_count(stmt: *mut Stmt) -> c_int;
    fn sqlite3_changes(db: *mut Sqlite3) -> c_int;
    fn sqlite3_libversion() -> *const c_char;
    fn sqlite3_config(op: c_int, ...) -> c_int;
    fn sqlite3_db_config(db: *mut Sqlite3, op: c_int, ...) -> c_int;
}

const SQLITE_ROW: c_int = 100;
const SQLITE_DONE: c_int = 101;
const SQLITE_TRANSIENT: isize = -1;

#[derive(Clone, Debug, PartialEq)]
pub enum SqlVal {
    Null,
    Int(i64),
    Real(f64),
    Text(Vec<u8>),
    Blob(Vec<u8>),
}
impl SqlVal {
    pub fn text(s: &str) -> SqlVal {
        SqlVal::Text(s.as_bytes().to_vec())
    }
    /// canonical printable form; numeric values that are equal print equal (1 == 1.0)
    pub fn canon(&self) -> String {
        match self {
            SqlVal::Null => "NULL".into(),
            SqlVal::Int(i) => format!("n:{}", *i as f64),
            SqlVal::Real(r) => format!("n:{}", r),
            SqlVal::Text(t) => format!("t:{}", String::from_utf8_lossy(t)),
            SqlVal::Blob(b) => format!("b:{:02x?}", b),
        }
    }
    pub fn strict(&self) -> String {
        match self {
            SqlVal::Null => "NULL".into(),
            SqlVal::Int(i) => format!("i:{}", i),
            SqlVal::Real(r) => format!("r:{:?}", r),
            SqlVal::Text(t) => format!("t:{}", String::from_utf8_lossy(t)),
            SqlVal::Blob(b) => format!("b:{:02x?}", b),
        }
    }
}

#[derive(Clone, Debug, PartialEq, Default)]
pub struct Rows {
    pub names: Vec<String>,
    pub rows: Vec<Vec<SqlVal>>,
}

pub struct Db {
    p: *mut Sqlite3,
}
unsafe impl Send for Db {}

/// Must run before the first connection: per-connection use only (no shared-connection mutexes)
/// and no global allocator statistics (their mutex serialises all 16 workers).
pub fn init() {
    unsafe {
        sqlite3_config(2 /* SQLITE_CONFIG_MULTITHREAD */);
        sqlite3_config(9 /* SQLITE_CONFIG_MEMSTATUS */, 0 as c_int);
    }
}

pub fn version() -> String {
    unsafe { CStr::from_ptr(sqlite3_libversion()).to_string_lossy().into_owned() }
}

impl Db {
    pub fn open_memory() -> Db {
        let mut p: *mut Sqlite3 = std::ptr::null_mut();
        let rc = unsafe { sqlite3_open(b":memory:\0".as_ptr() as *const c_char, &mut p) };
        assert_eq!(rc, 0, "sqlite3_open failed");
        // no double-quoted string literals: an unresolved "name" must be an error, not the text 'name'
        unsafe {
            sqlite3_db_config(p, 1013 /* SQLITE_DBCONFIG_DQS_DML */, 0 as c_int, std::ptr::null_mut::<c_int>());
            sqlite3_db_config(p, 1014 /* SQLITE_DBCONFIG_DQS_DDL */, 0 as c_int, std::ptr::null_mut::<c_int>());
        }
        Db { p }
    }
    fn errmsg(&self) -> String {
        unsafe { CStr::from_ptr(sqlite3_errmsg(self.p)).to_string_lossy().into_owned() }
    }
    /// run a script of zero or more statements, discarding rows
    pub fn exec(&self, sql: &str) -> Result<(), String> {
        if sql.contains('\0') {
            return Err("NUL byte in SQL text".into());
        }
        let c = std::ffi::CString::new(sql).unwrap();
        let mut err: *mut c_char = std::ptr::null_mut();
        let rc = unsafe { sqlite3_exec(self.p, c.as_ptr(), std::ptr::null(), std::ptr::null_mut(), &mut err) };
        if rc != 0 {
            let msg = if err.is_null() { self.errmsg() } else { unsafe { CStr::from_ptr(err).to_string_lossy().into_owned() } };
            if !err.is_null() {
                unsafe { sqlite3_free(err as *mut c_void) };
            }
            return Err(msg);
        }
        Ok(())
    }
    /// prepare exactly one statement (trailing text other than whitespace / `;` is an error), bind, step to completion
    pub fn query(&self, sql: &str, binds: &[SqlVal]) -> Result<Rows, String> {
        if sql.contains('\0') {
            return Err("NUL byte in SQL text".into());
        }
        let c = std::ffi::CString::new(sql).unwrap();
        let mut stmt: *mut Stmt = std::ptr::null_mut();
        let mut tail: *const c_char = std::ptr::null();
        let rc = unsafe { sqlite3_prepare_v2(self.p, c.as_ptr(), -1, &mut stmt, &mut tail) };
        if rc != 0 {
            return Err(format!("prepare: {}", self.errmsg()));
        }
        if stmt.is_null() {
            return Err("prepare: empty statement".into());
        }
        let rest = unsafe { CStr::from_ptr(tail).to_string_lossy().into_owned() };
        if !rest.trim_matches(|c: char| c.is_whitespace() || c == ';').is_empty() {
            unsafe { sqlite3_finalize(stmt) };
            return Err(format!("prepare: trailing text after the first statement: {:?}", rest));
        }
        let want = unsafe { sqlite3_bind_parameter_count(stmt) } as usize;
        if want != binds.len() {
            unsafe { sqlite3_finalize(stmt) };
            return Err(format!("bind: statement has {} parameters, {} values supplied", want, binds.len()));
        }
        for (i, b) in binds.iter().enumerate() {
            let k = (i + 1) as c_int;
            let rc = unsafe {
                match b {
                    SqlVal::Null => sqlite3_bind_null(stmt, k),
                    SqlVal::Int(v) => sqlite3_bind_int64(stmt, k, *v),
                    SqlVal::Real(v) => sqlite3_bind_double(stmt, k, *v),
                    SqlVal::Text(t) => sqlite3_bind_text(stmt, k, t.as_ptr() as *const c_char, t.len() as c_int, SQLITE_TRANSIENT),
                    SqlVal::Blob(t) => {
                        if t.is_empty() {
                            // a NULL pointer would bind NULL; bind a zero-length blob instead
                            sqlite3_bind_blob(stmt, k, b"\0".as_ptr() as *const c_void, 0, SQLITE_TRANSIENT)
                        } else {
                            sqlite3_bind_blob(stmt, k, t.as_ptr() as *const c_void, t.len() as c_int, SQLITE_TRANSIENT)
                        }
                    }
                }
            };
            if rc != 0 {
                let m = self.errmsg();
                unsafe { sqlite3_finalize(stmt) };
                return Err(format!("bind: {m}"));
            }
        }
        let ncol = unsafe { sqlite3_column_count(stmt) };
        let mut out = Rows::default();
        for i in 0..ncol {
            let n = unsafe { sqlite3_column_name(stmt, i) };
            out.names.push(if n.is_null() { String::new() } else { unsafe { CStr::from_ptr(n).to_string_lossy().into_owned() } });
        }
        loop {
            let rc = unsafe { sqlite3_step(stmt) };
            if rc == SQLITE_DONE {
                break;
            }
            if rc != SQLITE_ROW {
                let m = self.errmsg();
                unsafe { sqlite3_finalize(stmt) };
                return Err(format!("step: {m}"));
            }
            let mut row = Vec::with_capacity(ncol as usize);
            for i in 0..ncol {
                let t = unsafe { sqlite3_column_type(stmt, i) };
                row.push(match t {
                    1 => SqlVal::Int(unsafe { sqlite3_column_int64(stmt, i) }),
                    2 => SqlVal::Real(unsafe { sqlite3_column_double(stmt, i) }),
                    3 | 4 => {
                        let p = unsafe { sqlite3_column_blob(stmt, i) } as *const u8;
                        let n = unsafe { sqlite3_column_bytes(stmt, i) } as usize;
                        let v = if p.is_null() || n == 0 { vec![] } else { unsafe { std::slice::from_raw_parts(p, n).to_vec() } };
                        if t == 3 {
                            SqlVal::Text(v)
                        } else {
                            SqlVal::Blob(v)
                        }
                    }
                    _ => SqlVal::Null,
                });
            }
            out.rows.push(row);
            if out.rows.len() > 100_000 {
                unsafe { sqlite3_finalize(stmt) };
                return Err("step: more than 100000 rows (runaway query)".into());
            }
        }
        unsafe { sqlite3_finalize(stmt) };
        Ok(out)
    }
    pub fn changes(&self) -> i64 {
        unsafe { sqlite3_changes(self.p) as i64 }
    }
}

impl Drop for Db {
    fn drop(&mut self) {
        unsafe { sqlite3_close(self.p) };
    }
}
