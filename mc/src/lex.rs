//! Reference lexers for MySQL (default sql_mode), PostgreSQL (standard_conforming_strings = on) and
//! SQLite, transcribed from the engines' manuals (DESIGN Appendix B). Independent of sea-query's
//! own Tokenizer. The SQLite instantiation is conformance-checked against the real engine (C03/C04).

#[derive(Clone, Copy, Debug, PartialEq, Eq, Hash, PartialOrd, Ord)]
pub enum Dialect {
    Mysql,
    Postgres,
    Sqlite,
}
pub const DIALECTS: [Dialect; 3] = [Dialect::Mysql, Dialect::Postgres, Dialect::Sqlite];
impl Dialect {
    pub fn name(self) -> &'static str {
        match self {
            Dialect::Mysql => "mysql",
            Dialect::Postgres => "postgres",
            Dialect::Sqlite => "sqlite",
        }
    }
    pub fn from_name(s: &str) -> Dialect {
        match s {
            "mysql" => Dialect::Mysql,
            "postgres" => Dialect::Postgres,
            _ => Dialect::Sqlite,
        }
    }
    pub fn ident_quote(self) -> char {
        if self == Dialect::Mysql {
            '`'
        } else {
            '"'
        }
    }
}

#[derive(Clone, Debug, PartialEq)]
pub enum Tok {
    /// quoted identifier, decoded
    Ident(String),
    /// bare word (keyword or unquoted identifier), as written
    Word(String),
    /// string literal, decoded to bytes-as-text
    Str(String),
    /// binary literal x'..'
    Blob(Vec<u8>),
    /// numeric literal, as written
    Num(String),
    /// `?` (None) / `?NNN` / `$n` (Some(n))
    Param(Option<u32>),
    /// operator or punctuation
    Punct(String),
}

#[derive(Clone, Debug, PartialEq)]
pub struct LexTok {
    pub tok: Tok,
    pub start: usize,
    pub end: usize,
}

#[derive(Clone, Debug, PartialEq)]
pub struct LexError {
    pub at: usize,
    pub msg: String,
}

fn err<T>(at: usize, msg: impl Into<String>) -> Result<T, LexError> {
    Err(LexError { at, msg: msg.into() })
}

fn is_word_start(c: char) -> bool {
    c.is_ascii_alphabetic() || c == '_' || (!c.is_ascii() && c.is_alphabetic())
}
fn is_word_char(c: char) -> bool {
    c.is_ascii_alphanumeric() || c == '_' || c == '$' || (!c.is_ascii() && c.is_alphanumeric())
}

pub fn lex(d: Dialect, sql: &str) -> Result<Vec<LexTok>, LexError> {
    let b: Vec<(usize, char)> = sql.char_indices().collect();
    let n = b.len();
    let off = |i: usize| if i < n { b[i].0 } else { sql.len() };
    let mut out = Vec::new();
    let mut i = 0;
    while i < n {
        let c = b[i].1;
        let start = off(i);
        if c == ' ' || c == '\t' || c == '\n' || c == '\r' || c == '\u{c}' {
            i += 1;
            continue;
        }
        // comments are never expected in generated text
        if c == '-' && i + 1 < n && b[i + 1].1 == '-' {
            // MySQL needs whitespace/control after `--`; PG and SQLite do not
            let third = if i + 2 < n { Some(b[i + 2].1) } else { None };
            let is_comment = match d {
                Dialect::Mysql => third.map_or(true, |t| t.is_whitespace() || t.is_control()),
                _ => true,
            };
            if is_comment {
                return err(start, "comment start `--` outside quotes");
            }
        }
        if c == '/' && i + 1 < n && b[i + 1].1 == '*' {
            return err(start, "comment start `/*` outside quotes");
        }
        if c == '#' && d == Dialect::Mysql {
            return err(start, "comment start `#` outside quotes");
        }
        // string literals
        let string_quote = match d {
            Dialect::Mysql => c == '\'' || c == '"',
            _ => c == '\'',
        };
        if string_quote {
            let (s, j) = lex_string(d, &b, i, c, false)?;
            out.push(LexTok { tok: Tok::Str(s), start, end: off(j) });
            i = j;
            continue;
        }
        // E'..' (PG), x'..' (MySQL, SQLite; PG has X'..' bit strings in hex which we treat as blob too)
        if (c == 'E' || c == 'e') && d == Dialect::Postgres && i + 1 < n && b[i + 1].1 == '\'' {
            let (s, j) = lex_string(d, &b, i + 1, '\'', true)?;
            out.push(LexTok { tok: Tok::Str(s), start, end: off(j) });
            i = j;
            continue;
        }
        if (c == 'x' || c == 'X') && i + 1 < n && b[i + 1].1 == '\'' {
            let mut j = i + 2;
            let mut hex = String::new();
            loop {
                if j >= n {
                    return err(start, "unterminated blob literal");
                }
                let h = b[j].1;
                if h == '\'' {
                    j += 1;
                    break;
                }
                if !h.is_ascii_hexdigit() {
                    return err(off(j), "non-hex digit in blob literal");
                }
                hex.push(h);
                j += 1;
            }
            if hex.len() % 2 != 0 {
                return err(start, "odd number of hex digits in blob literal");
            }
            let bytes = (0..hex.len() / 2).map(|k| u8::from_str_radix(&hex[2 * k..2 * k + 2], 16).unwrap()).collect();
            out.push(LexTok { tok: Tok::Blob(bytes), start, end: off(j) });
            i = j;
            continue;
        }
        // quoted identifiers
        let ident_close = match (d, c) {
            (Dialect::Mysql, '`') => Some('`'),
            (Dialect::Postgres, '"') => Some('"'),
            (Dialect::Sqlite, '"') => Some('"'),
            (Dialect::Sqlite, '`') => Some('`'),
            (Dialect::Sqlite, '[') => Some(']'),
            _ => None,
        };
        if let Some(close) = ident_close {
            let mut j = i + 1;
            let mut s = String::new();
            loop {
                if j >= n {
                    return err(start, "unterminated quoted identifier");
                }
                let h = b[j].1;
                if h == close {
                    if close != ']' && j + 1 < n && b[j + 1].1 == close {
                        s.push(close);
                        j += 2;
                        continue;
                    }
                    j += 1;
                    break;
                }
                s.push(h);
                j += 1;
            }
            if s.is_empty() && d == Dialect::Postgres {
                return err(start, "zero-length delimited identifier");
            }
            if s.contains('\0') {
                return err(start, "NUL in identifier");
            }
            out.push(LexTok { tok: Tok::Ident(s), start, end: off(j) });
            i = j;
            continue;
        }
        // parameters
        if c == '?' && d != Dialect::Postgres {
            let mut j = i + 1;
            let mut num = String::new();
            if d == Dialect::Sqlite {
                while j < n && b[j].1.is_ascii_digit() {
                    num.push(b[j].1);
                    j += 1;
                }
            }
            let p = if num.is_empty() { None } else { Some(num.parse().unwrap_or(0)) };
            out.push(LexTok { tok: Tok::Param(p), start, end: off(j) });
            i = j;
            continue;
        }
        if c == '$' && d == Dialect::Postgres {
            let mut j = i + 1;
            let mut num = String::new();
            while j < n && b[j].1.is_ascii_digit() {
                num.push(b[j].1);
                j += 1;
            }
            if num.is_empty() {
                return err(start, "`$` not followed by digits (dollar quoting / stray dollar)");
            }
            if j < n && is_word_char(b[j].1) {
                return err(start, "trailing junk after parameter");
            }
            let Ok(v) = num.parse::<u32>() else { return err(start, "parameter number out of range") };
            out.push(LexTok { tok: Tok::Param(Some(v)), start, end: off(j) });
            i = j;
            continue;
        }
        // numbers
        if c.is_ascii_digit() || (c == '.' && i + 1 < n && b[i + 1].1.is_ascii_digit()) {
            let mut j = i;
            while j < n && b[j].1.is_ascii_digit() {
                j += 1;
            }
            if j < n && b[j].1 == '.' {
                j += 1;
                while j < n && b[j].1.is_ascii_digit() {
                    j += 1;
                }
            }
            if j < n && (b[j].1 == 'e' || b[j].1 == 'E') {
                let mut k = j + 1;
                if k < n && (b[k].1 == '+' || b[k].1 == '-') {
                    k += 1;
                }
                if k < n && b[k].1.is_ascii_digit() {
                    while k < n && b[k].1.is_ascii_digit() {
                        k += 1;
                    }
                    j = k;
                }
            }
            if j < n && is_word_char(b[j].1) {
                if d == Dialect::Mysql {
                    // digit run + letters lexes as an identifier in MySQL
                    let mut k = j;
                    while k < n && is_word_char(b[k].1) {
                        k += 1;
                    }
                    out.push(LexTok { tok: Tok::Word(sql[start..off(k)].to_string()), start, end: off(k) });
                    i = k;
                    continue;
                }
                return err(start, "trailing junk after numeric literal");
            }
            out.push(LexTok { tok: Tok::Num(sql[start..off(j)].to_string()), start, end: off(j) });
            i = j;
            continue;
        }
        // words
        if is_word_start(c) {
            let mut j = i;
            while j < n && is_word_char(b[j].1) {
                j += 1;
            }
            out.push(LexTok { tok: Tok::Word(sql[start..off(j)].to_string()), start, end: off(j) });
            i = j;
            continue;
        }
        // operators / punctuation
        if matches!(c, '(' | ')' | ',' | ';' | '.' | '[' | ']' | '{' | '}') {
            out.push(LexTok { tok: Tok::Punct(c.to_string()), start, end: off(i + 1) });
            i += 1;
            continue;
        }
        if c == ':' {
            if i + 1 < n && (b[i + 1].1 == ':' || b[i + 1].1 == '=') {
                out.push(LexTok { tok: Tok::Punct(format!(":{}", b[i + 1].1)), start, end: off(i + 2) });
                i += 2;
            } else {
                out.push(LexTok { tok: Tok::Punct(":".into()), start, end: off(i + 1) });
                i += 1;
            }
            continue;
        }
        if d == Dialect::Postgres {
            const OPCH: &str = "+-*/<>=~!@#%^&|`?";
            if OPCH.contains(c) {
                let mut j = i;
                while j < n && OPCH.contains(b[j].1) {
                    // `--` and `/*` start comments and end the operator
                    if j + 1 < n && ((b[j].1 == '-' && b[j + 1].1 == '-') || (b[j].1 == '/' && b[j + 1].1 == '*')) {
                        break;
                    }
                    j += 1;
                }
                // a multi-char operator cannot end in + or - unless it contains one of ~!@#%^&|`?
                let has_special = |k: usize| (i..k).any(|t| "~!@#%^&|`?".contains(b[t].1));
                while j - i > 1 && (b[j - 1].1 == '+' || b[j - 1].1 == '-') && !has_special(j) {
                    j -= 1;
                }
                out.push(LexTok { tok: Tok::Punct(sql[start..off(j)].to_string()), start, end: off(j) });
                i = j;
                continue;
            }
        } else {
            let three = if i + 2 < n { format!("{}{}{}", c, b[i + 1].1, b[i + 2].1) } else { String::new() };
            let two = if i + 1 < n { format!("{}{}", c, b[i + 1].1) } else { String::new() };
            let ops3: &[&str] = if d == Dialect::Mysql { &["<=>", "->>"] } else { &["->>"] };
            let ops2: &[&str] = if d == Dialect::Mysql {
                &["<>", "!=", "<=", ">=", "<<", ">>", "||", "&&", "->", ":="]
            } else {
                &["<>", "!=", "<=", ">=", "<<", ">>", "||", "->", "=="]
            };
            if ops3.contains(&three.as_str()) {
                out.push(LexTok { tok: Tok::Punct(three), start, end: off(i + 3) });
                i += 3;
                continue;
            }
            if ops2.contains(&two.as_str()) {
                out.push(LexTok { tok: Tok::Punct(two), start, end: off(i + 2) });
                i += 2;
                continue;
            }
            if "+-*/<>=~!@%^&|".contains(c) {
                out.push(LexTok { tok: Tok::Punct(c.to_string()), start, end: off(i + 1) });
                i += 1;
                continue;
            }
        }
        return err(start, format!("unexpected character {:?}", c));
    }
    Ok(out)
}

/// lex one string literal starting at the opening quote at index `i`; returns decoded text and the
/// index after the closing quote.
fn lex_string(d: Dialect, b: &[(usize, char)], i: usize, q: char, pg_escape: bool) -> Result<(String, usize), LexError> {
    let n = b.len();
    let start = b[i].0;
    let mut j = i + 1;
    let mut bytes: Vec<u8> = Vec::new();
    let push = |bytes: &mut Vec<u8>, c: char| {
        let mut buf = [0u8; 4];
        bytes.extend_from_slice(c.encode_utf8(&mut buf).as_bytes());
    };
    let backslash = d == Dialect::Mysql || pg_escape;
    loop {
        if j >= n {
            return err(start, "unterminated string literal");
        }
        let c = b[j].1;
        if c == q {
            if j + 1 < n && b[j + 1].1 == q {
                push(&mut bytes, q);
                j += 2;
                continue;
            }
            j += 1;
            break;
        }
        if c == '\\' && backslash {
            if j + 1 >= n {
                return err(start, "unterminated string literal (trailing backslash)");
            }
            let e = b[j + 1].1;
            j += 2;
            if d == Dialect::Mysql {
                match e {
                    '0' => bytes.push(0),
                    '\'' | '"' | '\\' => push(&mut bytes, e),
                    'b' => bytes.push(8),
                    'n' => bytes.push(b'\n'),
                    'r' => bytes.push(b'\r'),
                    't' => bytes.push(b'\t'),
                    'Z' => bytes.push(0x1a),
                    '%' | '_' => {
                        bytes.push(b'\\');
                        push(&mut bytes, e)
                    }
                    other => push(&mut bytes, other),
                }
            } else {
                match e {
                    'b' => bytes.push(8),
                    'f' => bytes.push(12),
                    'n' => bytes.push(b'\n'),
                    'r' => bytes.push(b'\r'),
                    't' => bytes.push(b'\t'),
                    '0'..='7' => {
                        let mut v = e.to_digit(8).unwrap();
                        let mut k = 0;
                        while k < 2 && j < n && ('0'..='7').contains(&b[j].1) {
                            v = v * 8 + b[j].1.to_digit(8).unwrap();
                            j += 1;
                            k += 1;
                        }
                        bytes.push((v & 0xff) as u8);
                    }
                    'x' => {
                        let mut v = 0u32;
                        let mut k = 0;
                        while k < 2 && j < n && b[j].1.is_ascii_hexdigit() {
                            v = v * 16 + b[j].1.to_digit(16).unwrap();
                            j += 1;
                            k += 1;
                        }
                        if k == 0 {
                            bytes.push(b'x');
                        } else {
                            bytes.push(v as u8);
                        }
                    }
                    'u' | 'U' => {
                        let want = if e == 'u' { 4 } else { 8 };
                        let mut v = 0u32;
                        for _ in 0..want {
                            if j < n && b[j].1.is_ascii_hexdigit() {
                                v = v * 16 + b[j].1.to_digit(16).unwrap();
                                j += 1;
                            } else {
                                return err(start, "invalid Unicode escape");
                            }
                        }
                        match char::from_u32(v) {
                            Some(ch) if v != 0 => push(&mut bytes, ch),
                            _ => return err(start, "invalid Unicode escape value"),
                        }
                    }
                    other => push(&mut bytes, other),
                }
            }
            continue;
        }
        push(&mut bytes, c);
        j += 1;
    }
    if d == Dialect::Postgres && bytes.contains(&0) {
        return err(start, "NUL byte in PostgreSQL string literal");
    }
    match String::from_utf8(bytes) {
        Ok(s) => Ok((s, j)),
        Err(_) => err(start, "string literal is not valid UTF-8 after decoding"),
    }
}

/// Token "skeleton": the token kinds with literal payloads blanked, used for differential checks.
pub fn skeleton(toks: &[LexTok]) -> Vec<String> {
    toks.iter()
        .map(|t| match &t.tok {
            Tok::Ident(_) => "I".to_string(),
            Tok::Word(w) => format!("W:{}", w.to_ascii_uppercase()),
            Tok::Str(_) => "S".to_string(),
            Tok::Blob(_) => "B".to_string(),
            Tok::Num(_) => "N".to_string(),
            Tok::Param(_) => "P".to_string(),
            Tok::Punct(p) => format!("O:{p}"),
        })
        .collect()
}

/// PostgreSQL bytea hex input: `\x` followed by hex digit pairs.
pub fn pg_bytea_hex(s: &str) -> Option<Vec<u8>> {
    let h = s.strip_prefix("\\x")?;
    if h.len() % 2 != 0 || !h.chars().all(|c| c.is_ascii_hexdigit()) {
        return None;
    }
    Some((0..h.len() / 2).map(|k| u8::from_str_radix(&h[2 * k..2 * k + 2], 16).unwrap()).collect())
}
