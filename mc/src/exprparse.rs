//! Reference expression parser (Pratt) with one precedence / associativity table per dialect,
//! transcribed from the engines' documentation (DESIGN Appendix A). Independent of sea-query.
//!
//! It parses the token stream of `lex.rs` into a `PExpr` tree. Parentheses only group. The SQLite
//! table is conformance-checked against the real engine by C05 (the engine evaluates the rendering
//! and a fully parenthesised rendering of the parsed tree).

use crate::lex::{Dialect, LexTok, Tok};

#[derive(Clone, Debug, PartialEq)]
pub enum PExpr {
    /// quoted identifier chain a.b.c ; `*` is a part "*"
    Col(Vec<String>),
    Num(String),
    Str(String),
    Blob(Vec<u8>),
    Param(Option<u32>),
    /// NULL TRUE FALSE CURRENT_DATE ... and bare words
    Kw(String),
    Func(String, Vec<(bool, PExpr)>),
    Cast(Box<PExpr>, String),
    Un(String, Box<PExpr>),
    Bin(String, Box<PExpr>, Box<PExpr>),
    Between(bool, Box<PExpr>, Box<PExpr>, Box<PExpr>),
    /// operator text (LIKE, NOT LIKE, ILIKE, NOT ILIKE, GLOB ...), x, pattern, escape
    Like(String, Box<PExpr>, Box<PExpr>, Option<Box<PExpr>>),
    In(bool, Box<PExpr>, Vec<PExpr>),
    InSub(bool, Box<PExpr>, String),
    /// IS / IS NOT with NULL TRUE FALSE or (SQLite) any expression
    Is(bool, Box<PExpr>, Box<PExpr>),
    Tuple(Vec<PExpr>),
    /// (SELECT ...) with optional EXISTS / ANY / SOME / ALL prefix; the text is the normalised token list
    Sub(Option<String>, String),
    Case(Vec<(PExpr, PExpr)>, Option<Box<PExpr>>),
    Array(Vec<PExpr>),
    /// ( expr ): kept by the parser so that grammar restrictions can see it; removed by `strip()`
    Paren(Box<PExpr>),
}

#[derive(Clone, Copy, PartialEq, Debug)]
enum Assoc {
    Left,
    Non,
}

/// binding level of a binary operator token (higher = tighter)
fn bin_level(d: Dialect, op: &str) -> Option<(u8, Assoc)> {
    use Assoc::*;
    let u = op.to_ascii_uppercase();
    let u = u.as_str();
    Some(match d {
        Dialect::Mysql => match u {
            "^" => (90, Left),
            "*" | "/" | "DIV" | "%" | "MOD" => (80, Left),
            "-" | "+" => (70, Left),
            "<<" | ">>" => (60, Left),
            "&" => (50, Left),
            "|" => (45, Left),
            "=" | "<=>" | ">=" | ">" | "<=" | "<" | "<>" | "!=" | "REGEXP" | "RLIKE" | "SOUNDS" | "->" | "->>" => (40, Left),
            "AND" | "&&" => (20, Left),
            "XOR" => (15, Left),
            "OR" | "||" => (10, Left),
            _ => return None,
        },
        Dialect::Postgres => match u {
            "^" => (90, Left),
            "*" | "/" | "%" => (80, Left),
            "+" | "-" => (70, Left),
            "<" | ">" | "=" | "<=" | ">=" | "<>" | "!=" => (40, Non),
            "AND" => (20, Left),
            "OR" => (10, Left),
            _ => {
                // any other operator (built of operator characters)
                if !op.is_empty() && op.chars().all(|c| "+-*/<>=~!@#%^&|`?".contains(c)) {
                    (60, Left)
                } else {
                    return None;
                }
            }
        },
        Dialect::Sqlite => match u {
            "||" | "->" | "->>" => (95, Left),
            "*" | "/" | "%" => (80, Left),
            "+" | "-" => (70, Left),
            "&" | "|" | "<<" | ">>" => (60, Left),
            "<" | ">" | "<=" | ">=" => (45, Left),
            "=" | "==" | "<>" | "!=" | "GLOB" | "MATCH" | "REGEXP" => (40, Left),
            "AND" => (20, Left),
            "OR" => (10, Left),
            _ => return None,
        },
    })
}

// levels of the keyword-operator families
const L_NOT: u8 = 30;
fn l_is(d: Dialect) -> u8 {
    match d {
        Dialect::Postgres => 35,
        _ => 40,
    }
}
fn l_like_in_between(d: Dialect) -> u8 {
    match d {
        Dialect::Postgres => 50,
        Dialect::Mysql => 40,
        Dialect::Sqlite => 40,
    }
}
/// MySQL: BETWEEN binds looser than comparison according to the manual's table
fn l_between(d: Dialect) -> u8 {
    match d {
        Dialect::Mysql => 38,
        _ => l_like_in_between(d),
    }
}

pub struct Parser<'a> {
    d: Dialect,
    t: &'a [LexTok],
    pub i: usize,
    src: &'a str,
}

pub type PResult<T> = Result<T, String>;

impl<'a> Parser<'a> {
    pub fn new(d: Dialect, t: &'a [LexTok], src: &'a str) -> Self {
        Parser { d, t, i: 0, src }
    }
    fn peek(&self) -> Option<&Tok> {
        self.t.get(self.i).map(|t| &t.tok)
    }
    fn peek_at(&self, k: usize) -> Option<&Tok> {
        self.t.get(self.i + k).map(|t| &t.tok)
    }
    pub fn at_end(&self) -> bool {
        self.i >= self.t.len()
    }
    pub fn is_word(&self, w: &str) -> bool {
        matches!(self.peek(), Some(Tok::Word(x)) if x.eq_ignore_ascii_case(w))
    }
    fn is_word_at(&self, k: usize, w: &str) -> bool {
        matches!(self.peek_at(k), Some(Tok::Word(x)) if x.eq_ignore_ascii_case(w))
    }
    pub fn is_punct(&self, p: &str) -> bool {
        matches!(self.peek(), Some(Tok::Punct(x)) if x == p)
    }
    pub fn eat_word(&mut self, w: &str) -> bool {
        if self.is_word(w) {
            self.i += 1;
            true
        } else {
            false
        }
    }
    pub fn eat_punct(&mut self, p: &str) -> bool {
        if self.is_punct(p) {
            self.i += 1;
            true
        } else {
            false
        }
    }
    pub fn expect_punct(&mut self, p: &str) -> PResult<()> {
        if self.eat_punct(p) {
            Ok(())
        } else {
            Err(format!("expected `{p}` at token {} ({:?})", self.i, self.peek()))
        }
    }
    pub fn expect_word(&mut self, w: &str) -> PResult<()> {
        if self.eat_word(w) {
            Ok(())
        } else {
            Err(format!("expected `{w}` at token {} ({:?})", self.i, self.peek()))
        }
    }

    /// tokens up to the parenthesis matching the one already consumed, as normalised text
    fn capture_parens(&mut self) -> PResult<String> {
        let mut depth = 1;
        let start = self.i;
        while let Some(t) = self.peek() {
            match t {
                Tok::Punct(p) if p == "(" => depth += 1,
                Tok::Punct(p) if p == ")" => {
                    depth -= 1;
                    if depth == 0 {
                        let txt = if start < self.i { self.src[self.t[start].start..self.t[self.i - 1].end].to_string() } else { String::new() };
                        self.i += 1;
                        return Ok(txt);
                    }
                }
                _ => {}
            }
            self.i += 1;
        }
        Err("unbalanced parentheses".into())
    }

    pub fn parse_expr(&mut self, min: u8) -> PResult<PExpr> {
        let mut left = self.parse_prefix()?;
        loop {
            let Some(tok) = self.peek().cloned() else { break };
            // keyword operator families, possibly NOT-prefixed
            let (neg, k) = if self.is_word("NOT") && (self.is_word_at(1, "BETWEEN") || self.is_word_at(1, "IN") || self.is_word_at(1, "LIKE") || self.is_word_at(1, "ILIKE") || self.is_word_at(1, "GLOB") || self.is_word_at(1, "MATCH") || self.is_word_at(1, "REGEXP")) {
                (true, 1)
            } else {
                (false, 0)
            };
            if self.is_word_at(k, "BETWEEN") {
                let lvl = l_between(self.d);
                if lvl < min {
                    break;
                }
                self.i += k + 1;
                let (lo, hi) = self.parse_between_bounds()?;
                left = PExpr::Between(neg, Box::new(left), Box::new(lo), Box::new(hi));
                if self.d == Dialect::Postgres {
                    self.nonassoc_guard(lvl, min)?;
                }
                continue;
            }
            if self.is_word_at(k, "IN") {
                let lvl = l_like_in_between(self.d);
                if lvl < min {
                    break;
                }
                self.i += k + 1;
                self.expect_punct("(")?;
                if self.is_word("SELECT") || self.is_word("WITH") || self.is_word("VALUES") {
                    let s = self.capture_parens()?;
                    left = PExpr::InSub(neg, Box::new(left), s);
                } else {
                    let mut list = vec![];
                    if !self.is_punct(")") {
                        loop {
                            list.push(self.parse_expr(0)?);
                            if !self.eat_punct(",") {
                                break;
                            }
                        }
                    }
                    self.expect_punct(")")?;
                    left = PExpr::In(neg, Box::new(left), list);
                }
                if self.d == Dialect::Postgres {
                    self.nonassoc_guard(lvl, min)?;
                }
                continue;
            }
            let like_kw = ["LIKE", "ILIKE", "GLOB", "MATCH", "REGEXP"].into_iter().find(|w| self.is_word_at(k, w));
            if let Some(w) = like_kw {
                let is_like = w == "LIKE" || w == "ILIKE";
                if !is_like && !(neg || self.d == Dialect::Sqlite || self.d == Dialect::Mysql) {
                    return Err(format!("operator {w} is not part of this dialect"));
                }
                if is_like || neg {
                    let lvl = l_like_in_between(self.d);
                    if lvl < min {
                        break;
                    }
                    self.i += k + 1;
                    let pat = self.parse_expr(lvl + 1)?;
                    let esc = if self.eat_word("ESCAPE") { Some(Box::new(self.parse_expr(lvl + 1)?)) } else { None };
                    let name = if neg { format!("NOT {w}") } else { w.to_string() };
                    left = PExpr::Like(name, Box::new(left), Box::new(pat), esc);
                    if self.d == Dialect::Postgres {
                        self.nonassoc_guard(lvl, min)?;
                    }
                    continue;
                }
                // plain GLOB / MATCH / REGEXP fall through to the binary-operator table
            }
            if self.is_word("IS") {
                let lvl = l_is(self.d);
                if lvl < min {
                    break;
                }
                self.i += 1;
                let neg = self.eat_word("NOT");
                let rhs = if self.d == Dialect::Sqlite {
                    self.parse_expr(lvl + 1)?
                } else {
                    match self.peek() {
                        Some(Tok::Word(w)) if ["NULL", "TRUE", "FALSE", "UNKNOWN"].contains(&w.to_ascii_uppercase().as_str()) => {
                            let w = w.to_ascii_uppercase();
                            self.i += 1;
                            PExpr::Kw(w)
                        }
                        other => return Err(format!("IS must be followed by NULL / TRUE / FALSE in this dialect, got {:?}", other)),
                    }
                };
                left = PExpr::Is(neg, Box::new(left), Box::new(rhs));
                continue;
            }
            let opname = match &tok {
                Tok::Punct(p) if ![",", ")", "(", ";", "]", "[", "."].contains(&p.as_str()) => p.clone(),
                Tok::Word(w) => w.to_ascii_uppercase(),
                _ => break,
            };
            let Some((lvl, assoc)) = bin_level(self.d, &opname) else { break };
            if lvl < min {
                break;
            }
            self.i += 1;
            let right = self.parse_expr(lvl + 1)?;
            left = PExpr::Bin(opname, Box::new(left), Box::new(right));
            if assoc == Assoc::Non {
                self.nonassoc_guard(lvl, min)?;
            }
        }
        Ok(left)
    }

    /// after a non-associative operator: another operator of the same level may not follow directly
    fn nonassoc_guard(&self, lvl: u8, _min: u8) -> PResult<()> {
        let next_lvl = match self.peek() {
            Some(Tok::Punct(p)) => bin_level(self.d, p).map(|x| x.0),
            Some(Tok::Word(w)) => {
                let u = w.to_ascii_uppercase();
                if ["BETWEEN", "IN", "LIKE", "ILIKE"].contains(&u.as_str()) {
                    Some(l_like_in_between(self.d))
                } else if u == "NOT" && (self.is_word_at(1, "BETWEEN") || self.is_word_at(1, "IN") || self.is_word_at(1, "LIKE") || self.is_word_at(1, "ILIKE")) {
                    Some(l_like_in_between(self.d))
                } else {
                    bin_level(self.d, &u).map(|x| x.0)
                }
            }
            _ => None,
        };
        if next_lvl == Some(lvl) {
            return Err(format!("non-associative operator level {lvl} chained without parentheses at token {}", self.i));
        }
        Ok(())
    }

    fn parse_between_bounds(&mut self) -> PResult<(PExpr, PExpr)> {
        match self.d {
            Dialect::Sqlite => {
                // expr BETWEEN expr AND expr [BETWEEN]: lo runs to the AND, hi takes operators tighter than the = level
                let lo = self.parse_expr(21)?;
                self.expect_word("AND")?;
                let hi = self.parse_expr(41)?;
                Ok((lo, hi))
            }
            Dialect::Postgres => {
                // a_expr BETWEEN b_expr AND a_expr %prec BETWEEN: lo is a b_expr (no IS / IN / LIKE / BETWEEN / NOT / AND / OR)
                let lo = self.parse_expr(36)?;
                if contains_a_expr_only(&lo) {
                    return Err("lower BETWEEN bound is not a b_expr (contains LIKE / IN / BETWEEN / IS without parentheses)".into());
                }
                self.expect_word("AND")?;
                let hi = self.parse_expr(l_like_in_between(self.d) + 1)?;
                Ok((lo, hi))
            }
            Dialect::Mysql => {
                // bit_expr BETWEEN bit_expr AND predicate
                let lo = self.parse_expr(45)?;
                self.expect_word("AND")?;
                // predicate: a bit_expr optionally followed by IN / LIKE / BETWEEN forms, but no comparison operator
                let hi = self.parse_expr(l_like_in_between(self.d))?;
                if let PExpr::Bin(op, ..) = &hi {
                    if bin_level(self.d, op).map(|x| x.0) == Some(40) {
                        return Err("MACHINERY: bare comparison as upper BETWEEN bound on MySQL is excluded as undecidable".into());
                    }
                }
                Ok((lo, hi))
            }
        }
    }

    fn parse_prefix(&mut self) -> PResult<PExpr> {
        let Some(tok) = self.peek().cloned() else { return Err("unexpected end of expression".into()) };
        match tok {
            Tok::Ident(name) => {
                self.i += 1;
                let mut parts = vec![name];
                while self.is_punct(".") {
                    match self.peek_at(1) {
                        Some(Tok::Ident(n)) => {
                            parts.push(n.clone());
                            self.i += 2;
                        }
                        Some(Tok::Punct(p)) if p == "*" => {
                            parts.push("*".into());
                            self.i += 2;
                        }
                        _ => break,
                    }
                }
                Ok(PExpr::Col(parts))
            }
            Tok::Num(n) => {
                self.i += 1;
                Ok(PExpr::Num(n))
            }
            Tok::Str(s) => {
                self.i += 1;
                Ok(PExpr::Str(s))
            }
            Tok::Blob(b) => {
                self.i += 1;
                Ok(PExpr::Blob(b))
            }
            Tok::Param(p) => {
                self.i += 1;
                Ok(PExpr::Param(p))
            }
            Tok::Punct(p) => match p.as_str() {
                "(" => {
                    self.i += 1;
                    if self.is_word("SELECT") || self.is_word("WITH") || self.is_word("VALUES") || self.is_word("INSERT") || self.is_word("UPDATE") || self.is_word("DELETE") {
                        let s = self.capture_parens()?;
                        return Ok(PExpr::Sub(None, s));
                    }
                    let first = self.parse_expr(0)?;
                    if self.eat_punct(",") {
                        let mut items = vec![first];
                        loop {
                            items.push(self.parse_expr(0)?);
                            if !self.eat_punct(",") {
                                break;
                            }
                        }
                        self.expect_punct(")")?;
                        return Ok(PExpr::Tuple(items));
                    }
                    self.expect_punct(")")?;
                    Ok(PExpr::Paren(Box::new(first)))
                }
                "*" => {
                    self.i += 1;
                    Ok(PExpr::Col(vec!["*".into()]))
                }
                "-" | "+" | "~" => {
                    self.i += 1;
                    let e = self.parse_expr(98)?;
                    if let (PExpr::Num(n), "-") = (&e, p.as_str()) {
                        return Ok(PExpr::Num(format!("-{n}")));
                    }
                    Ok(PExpr::Un(p, Box::new(e)))
                }
                other => Err(format!("unexpected `{other}` at token {}", self.i)),
            },
            Tok::Word(w) => {
                let u = w.to_ascii_uppercase();
                match u.as_str() {
                    "NOT" => {
                        self.i += 1;
                        // NOT binds looser than comparison and tighter than AND in all three dialects
                        let e = self.parse_expr(L_NOT)?;
                        Ok(PExpr::Un("NOT".into(), Box::new(e)))
                    }
                    "NULL" | "TRUE" | "FALSE" | "CURRENT_DATE" | "CURRENT_TIME" | "CURRENT_TIMESTAMP" | "DEFAULT" => {
                        self.i += 1;
                        Ok(PExpr::Kw(u))
                    }
                    "EXISTS" | "ANY" | "SOME" | "ALL" if matches!(self.peek_at(1), Some(Tok::Punct(p)) if p == "(") => {
                        self.i += 2;
                        if self.is_word("SELECT") || self.is_word("WITH") || self.is_word("VALUES") {
                            let s = self.capture_parens()?;
                            Ok(PExpr::Sub(Some(u), s))
                        } else {
                            // ANY(array expression)
                            let e = self.parse_expr(0)?;
                            self.expect_punct(")")?;
                            Ok(PExpr::Func(u, vec![(false, e)]))
                        }
                    }
                    "CASE" => {
                        self.i += 1;
                        let mut whens = vec![];
                        while self.eat_word("WHEN") {
                            let c = self.parse_expr(0)?;
                            self.expect_word("THEN")?;
                            let r = self.parse_expr(0)?;
                            whens.push((c, r));
                        }
                        let els = if self.eat_word("ELSE") { Some(Box::new(self.parse_expr(0)?)) } else { None };
                        self.expect_word("END")?;
                        if whens.is_empty() {
                            return Err("CASE without WHEN".into());
                        }
                        Ok(PExpr::Case(whens, els))
                    }
                    "CAST" if matches!(self.peek_at(1), Some(Tok::Punct(p)) if p == "(") => {
                        self.i += 2;
                        let e = self.parse_expr(0)?;
                        self.expect_word("AS")?;
                        let start = self.i;
                        let mut depth = 0;
                        loop {
                            match self.peek() {
                                None => return Err("unterminated CAST".into()),
                                Some(Tok::Punct(p)) if p == "(" => depth += 1,
                                Some(Tok::Punct(p)) if p == ")" => {
                                    if depth == 0 {
                                        break;
                                    }
                                    depth -= 1;
                                }
                                _ => {}
                            }
                            self.i += 1;
                        }
                        if start == self.i {
                            return Err("CAST without a type".into());
                        }
                        let ty = self.src[self.t[start].start..self.t[self.i - 1].end].to_string();
                        self.i += 1;
                        Ok(PExpr::Cast(Box::new(e), ty))
                    }
                    "ARRAY" if matches!(self.peek_at(1), Some(Tok::Punct(p)) if p == "[") => {
                        self.i += 2;
                        let mut items = vec![];
                        if !self.is_punct("]") {
                            loop {
                                items.push(self.parse_expr(0)?);
                                if !self.eat_punct(",") {
                                    break;
                                }
                            }
                        }
                        self.expect_punct("]")?;
                        Ok(PExpr::Array(items))
                    }
                    _ => {
                        self.i += 1;
                        if self.is_punct("(") {
                            self.i += 1;
                            let mut args = vec![];
                            if !self.is_punct(")") {
                                loop {
                                    let distinct = self.eat_word("DISTINCT");
                                    args.push((distinct, self.parse_expr(0)?));
                                    if !self.eat_punct(",") {
                                        break;
                                    }
                                }
                            }
                            self.expect_punct(")")?;
                            return Ok(PExpr::Func(u, args));
                        }
                        Ok(PExpr::Kw(w))
                    }
                }
            }
        }
    }
}

/// PostgreSQL: constructs that may appear in an a_expr but not in a b_expr, at the top of the tree
fn contains_a_expr_only(e: &PExpr) -> bool {
    match e {
        PExpr::Between(..) | PExpr::Like(..) | PExpr::In(..) | PExpr::InSub(..) | PExpr::Is(..) => true,
        PExpr::Un(op, _) if op == "NOT" => true,
        PExpr::Bin(op, l, r) => op == "AND" || op == "OR" || contains_a_expr_only(l) || contains_a_expr_only(r),
        PExpr::Paren(_) => false,
        _ => false,
    }
}

impl PExpr {
    /// remove grouping parentheses
    pub fn strip(self) -> PExpr {
        let b = |x: Box<PExpr>| Box::new(x.strip());
        match self {
            PExpr::Paren(x) => x.strip(),
            PExpr::Func(n, a) => PExpr::Func(n, a.into_iter().map(|(d, x)| (d, x.strip())).collect()),
            PExpr::Cast(x, t) => PExpr::Cast(b(x), t),
            PExpr::Un(o, x) => PExpr::Un(o, b(x)),
            PExpr::Bin(o, l, r) => PExpr::Bin(o, b(l), b(r)),
            PExpr::Between(n, x, lo, hi) => PExpr::Between(n, b(x), b(lo), b(hi)),
            PExpr::Like(o, x, p, e) => PExpr::Like(o, b(x), b(p), e.map(b)),
            PExpr::In(n, x, l) => PExpr::In(n, b(x), l.into_iter().map(|x| x.strip()).collect()),
            PExpr::InSub(n, x, s) => PExpr::InSub(n, b(x), s),
            PExpr::Is(n, x, r) => PExpr::Is(n, b(x), b(r)),
            PExpr::Tuple(v) => PExpr::Tuple(v.into_iter().map(|x| x.strip()).collect()),
            PExpr::Case(w, e) => PExpr::Case(w.into_iter().map(|(c, r)| (c.strip(), r.strip())).collect(), e.map(b)),
            PExpr::Array(v) => PExpr::Array(v.into_iter().map(|x| x.strip()).collect()),
            other => other,
        }
    }
}

/// Parse a complete expression text.
pub fn parse_expression(d: Dialect, sql: &str) -> PResult<PExpr> {
    let toks = crate::lex::lex(d, sql).map_err(|e| format!("lex error at byte {}: {}", e.at, e.msg))?;
    let mut p = Parser::new(d, &toks, sql);
    let e = p.parse_expr(0)?;
    if !p.at_end() {
        return Err(format!("trailing tokens after the expression at token {} ({:?})", p.i, p.peek()));
    }
    Ok(e.strip())
}

/// Fully parenthesised SQLite text of a parsed tree (used to let the engine arbitrate).
pub fn print_full(e: &PExpr) -> String {
    fn q(s: &str) -> String {
        format!("\"{}\"", s.replace('"', "\"\""))
    }
    match e {
        PExpr::Col(p) => p.iter().map(|x| if x == "*" { "*".to_string() } else { q(x) }).collect::<Vec<_>>().join("."),
        PExpr::Num(n) => format!("({n})"),
        PExpr::Str(s) => format!("'{}'", s.replace('\'', "''")),
        PExpr::Blob(b) => format!("x'{}'", b.iter().map(|x| format!("{:02X}", x)).collect::<String>()),
        PExpr::Param(None) => "?".into(),
        PExpr::Param(Some(n)) => format!("?{n}"),
        PExpr::Kw(k) => k.clone(),
        PExpr::Func(n, a) => format!("{}({})", n, a.iter().map(|(d, x)| format!("{}{}", if *d { "DISTINCT " } else { "" }, print_full(x))).collect::<Vec<_>>().join(", ")),
        PExpr::Cast(x, t) => format!("CAST({} AS {})", print_full(x), t),
        PExpr::Un(op, x) => format!("({} ({}))", op, print_full(x)),
        PExpr::Bin(op, l, r) => format!("(({}) {} ({}))", print_full(l), op, print_full(r)),
        PExpr::Between(n, x, lo, hi) => format!("(({}) {}BETWEEN ({}) AND ({}))", print_full(x), if *n { "NOT " } else { "" }, print_full(lo), print_full(hi)),
        PExpr::Like(op, x, p, e) => format!("(({}) {} ({}){})", print_full(x), op, print_full(p), e.as_ref().map(|e| format!(" ESCAPE ({})", print_full(e))).unwrap_or_default()),
        PExpr::In(n, x, l) => format!("(({}) {}IN ({}))", print_full(x), if *n { "NOT " } else { "" }, l.iter().map(print_full).collect::<Vec<_>>().join(", ")),
        PExpr::InSub(n, x, s) => format!("(({}) {}IN ({}))", print_full(x), if *n { "NOT " } else { "" }, s),
        PExpr::Is(n, x, r) => format!("(({}) IS {}({}))", print_full(x), if *n { "NOT " } else { "" }, print_full(r)),
        PExpr::Tuple(v) => format!("({})", v.iter().map(print_full).collect::<Vec<_>>().join(", ")),
        PExpr::Sub(p, s) => format!("{}({})", p.clone().unwrap_or_default(), s),
        PExpr::Case(w, e) => format!("(CASE {}{} END)", w.iter().map(|(c, r)| format!("WHEN ({}) THEN ({})", print_full(c), print_full(r))).collect::<Vec<_>>().join(" "), e.as_ref().map(|e| format!(" ELSE ({})", print_full(e))).unwrap_or_default()),
        PExpr::Array(v) => format!("ARRAY[{}]", v.iter().map(print_full).collect::<Vec<_>>().join(", ")),
        PExpr::Paren(x) => print_full(x),
    }
}
