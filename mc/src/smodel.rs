//! The SELECT state machine over QModel: real SelectStatement(s) + SelSpec, explored by `explore`.

use crate::explore::{Fail, Model};
use crate::lex::Dialect;
use crate::qmodel::*;
use crate::sqlite::{Db, Rows, SqlVal};
use crate::util::{catch, fp_str};
use sea_query::*;
use std::cell::RefCell;

/// The real object(s): one statement for the `?` dialects and one for Postgres (they differ only
/// in the spelling of custom templates).
#[derive(Clone, Debug)]
pub struct SelSys {
    pub q: SelectStatement,
    pub pg: SelectStatement,
}
impl SelSys {
    pub fn stmt(&self, d: Dialect) -> &SelectStatement {
        if d == Dialect::Postgres {
            &self.pg
        } else {
            &self.q
        }
    }
}

pub type Check = Box<dyn Fn(&SelSys, &SelSpec) -> Vec<Fail> + Sync + Send>;

pub struct SelModel {
    pub name: &'static str,
    pub menu: Vec<SelOp>,
    pub checks: Vec<Check>,
    /// which dialect features are in the menu
    pub sqlite_only: bool,
}

fn bx<T>(x: T) -> Box<T> {
    Box::new(x)
}

/// representative nested statements (tags shifted into their own ranges)
pub fn nested_pool() -> Vec<SelSpec> {
    let mut v = vec![];
    // R0: filtered single-column select
    v.push(SelSpec { items: vec![Item::Expr(XS::Col("c"), None)], from: vec![FromItem::Table("t2")], wheres: vec![CondS::One(XS::Bin(BOp::Gt, bx(XS::Col("c")), bx(XS::Val(V::Int(7001)))))], ..Default::default() });
    // R1: two columns, union inside, values in both arms
    v.push(SelSpec {
        items: vec![Item::Expr(XS::Col("a"), None)],
        from: vec![FromItem::Table("t1")],
        wheres: vec![CondS::One(XS::Bin(BOp::Lt, bx(XS::Col("a")), bx(XS::Val(V::Int(7102)))))],
        unions: vec![(UK::All, SelSpec { items: vec![Item::Expr(XS::Col("c"), None)], from: vec![FromItem::Table("t2")], wheres: vec![CondS::One(XS::Bin(BOp::Ne, bx(XS::Col("c")), bx(XS::Val(V::Int(7111)))))], ..Default::default() })],
        ..Default::default()
    });
    // R2: ordered, limited
    v.push(SelSpec { items: vec![Item::Expr(XS::Col("b"), None)], from: vec![FromItem::Table("t1")], orders: vec![(XS::Col("id"), OrderK::Plain(true))], limit: Some(4), offset: Some(1), ..Default::default() });
    // R3: grouped with having
    v.push(SelSpec {
        items: vec![Item::Expr(XS::Func(FuncK::Max, vec![XS::Col("c")]), None)],
        from: vec![FromItem::Table("t2")],
        groups: vec![XS::Col("t1_id")],
        havings: vec![CondS::One(XS::Bin(BOp::Gt, bx(XS::CountStar), bx(XS::Val(V::Int(0)))))],
        ..Default::default()
    });
    // R4: the "top n" idiom - ordered and limited, no offset (what the rows are depends on the ORDER BY)
    v.push(SelSpec { items: vec![Item::Expr(XS::Col("t1_id"), None)], from: vec![FromItem::Table("t2")], orders: vec![(XS::Col("id"), OrderK::Plain(true))], limit: Some(2), ..Default::default() });
    v
}

pub fn select_menu(thorough: bool, sqlite_only: bool) -> Vec<SelOp> {
    let r = nested_pool();
    let mut m: Vec<SelOp> = vec![];
    for c in ["a", "b", "s", "id"] {
        m.push(SelOp::Item(Item::Expr(XS::Col(c), None)));
    }
    let items = pool_items();
    let n_items = if thorough { items.len() } else { 9 };
    for (i, x) in items.iter().enumerate() {
        // the quick menu: the first nine and every function the backends spell differently
        if i < n_items || matches!(x, XS::Func(FuncK::Greatest | FuncK::Least | FuncK::CharLength, _)) {
            m.push(SelOp::Item(Item::Expr(x.clone(), None)));
        }
    }
    m.push(SelOp::Item(Item::Expr(items[0].clone(), Some("x"))));
    m.push(SelOp::Item(Item::Expr(XS::Scalar(bx(r[3].clone())), Some("m"))));
    m.push(SelOp::Item(Item::Window(XS::Func(FuncK::Sum, vec![XS::Col("b")]), "a", "id", WinFrame::None, "w0")));
    m.push(SelOp::Item(Item::Window(XS::Func(FuncK::Sum, vec![XS::Col("b")]), "a", "id", WinFrame::RowsBetweenPrecedingCurrent(1), "w1")));
    // a running total whose window order has ties inside a partition (s = 'y': a = 1500 twice)
    m.push(SelOp::Item(Item::Window(XS::Func(FuncK::Sum, vec![XS::Col("b")]), "s", "a", WinFrame::RowsUnboundedCurrent, "w3")));
    if thorough {
        m.push(SelOp::Item(Item::Window(XS::Func(FuncK::Max, vec![XS::Col("b")]), "s", "id", WinFrame::RowsUnboundedFollowing(2), "w2")));
    }
    m.push(SelOp::Distinct);
    m.push(SelOp::From(FromItem::Table("t1")));
    m.push(SelOp::From(FromItem::TableAs("t1", "u")));
    m.push(SelOp::From(FromItem::Sub(bx(r[1].clone()), "q")));
    m.push(SelOp::From(FromItem::Values(vec![(V::Int(4001), V::Int(4002)), (V::Int(4003), V::Int(4004))], "vv")));
    let on = XS::Bin(BOp::Eq, bx(XS::TCol("t2", "t1_id")), bx(XS::TCol("t1", "id")));
    let on2 = XS::Bin(BOp::And, bx(on.clone()), bx(XS::Bin(BOp::Gt, bx(XS::Col("c")), bx(XS::Val(V::Int(5001))))));
    for k in [JoinK::Inner, JoinK::Left, JoinK::Cross, JoinK::Right, JoinK::FullOuter, JoinK::Plain] {
        m.push(SelOp::Join(k, "t2", on.clone()));
    }
    m.push(SelOp::Join(JoinK::Left, "t2", on2));
    let pb = pool_bool();
    let n_pb = if thorough { pb.len() } else { 10 };
    for x in pb.iter().take(n_pb) {
        m.push(SelOp::Where(CondS::One(x.clone())));
    }
    m.push(SelOp::Where(CondS::Any(vec![retag(&pb[0], 50), retag(&pb[5], 50)])));
    m.push(SelOp::Where(CondS::All(vec![retag(&pb[3], 60), retag(&pb[4], 60)])));
    m.push(SelOp::Where(CondS::Any(vec![])));
    m.push(SelOp::Where(CondS::All(vec![])));
    m.push(SelOp::Where(CondS::One(XS::InSub(bx(XS::Col("b")), bx(r[0].clone())))));
    m.push(SelOp::Where(CondS::One(XS::Exists(bx(r[0].clone())))));
    m.push(SelOp::Where(CondS::One(XS::InSub(bx(XS::Col("id")), bx(r[4].clone())))));
    m.push(SelOp::Group(XS::Col("a")));
    m.push(SelOp::Group(XS::Col("s")));
    m.push(SelOp::Having(CondS::One(XS::Bin(BOp::Gt, bx(XS::CountStar), bx(XS::Val(V::Int(1)))))));
    m.push(SelOp::Having(CondS::One(XS::Bin(BOp::Lt, bx(XS::Func(FuncK::Sum, vec![XS::Col("b")])), bx(XS::Val(V::Int(2011)))))));
    m.push(SelOp::Having(CondS::Any(vec![])));
    for k in [UK::All, UK::Distinct, UK::Intersect, UK::Except] {
        m.push(SelOp::Union(k, bx(r[0].clone())));
    }
    m.push(SelOp::Union(UK::All, bx(r[1].clone())));
    m.push(SelOp::Order(XS::Col("a"), OrderK::Plain(false)));
    m.push(SelOp::Order(XS::Col("b"), OrderK::Plain(true)));
    m.push(SelOp::Order(XS::Col("id"), OrderK::Plain(true)));
    m.push(SelOp::Order(XS::Col("a"), OrderK::Nulls(false, false)));
    m.push(SelOp::Order(XS::Col("b"), OrderK::Nulls(true, true)));
    // a sort key that carries a bound value, with a NULLS ordering (MySQL writes the key twice)
    m.push(SelOp::Order(XS::Bin(BOp::Add, bx(XS::Col("b")), bx(XS::Val(V::Int(6001)))), OrderK::Nulls(false, false)));
    m.push(SelOp::Order(XS::Col("s"), OrderK::Field(vec![V::Str("y".into()), V::Str("x".into())])));
    m.push(SelOp::Order(XS::Col("s"), OrderK::Field(vec![V::Str("x\\".into()), V::Str("it's".into())])));
    m.push(SelOp::Limit(3));
    m.push(SelOp::Limit(0));
    m.push(SelOp::Offset(1));
    m.push(SelOp::Cte("t3", false, bx(r[0].clone())));
    if !sqlite_only {
        for k in ["update", "share", "update-nowait", "update-skip"] {
            m.push(SelOp::Lock(k));
        }
    }
    m
}

impl Model for SelModel {
    type Sys = SelSys;
    type Ref = SelSpec;
    type Op = SelOp;
    fn name(&self) -> &'static str {
        self.name
    }
    fn init(&self) -> (SelSys, SelSpec) {
        (SelSys { q: Query::select(), pg: Query::select() }, SelSpec::default())
    }
    fn enabled(&self, r: &SelSpec, _depth: usize) -> Vec<SelOp> {
        self.menu
            .iter()
            .filter(|op| match op {
                SelOp::Distinct => !r.distinct && !r.items.is_empty(),
                SelOp::Item(_) => r.items.len() < 2,
                SelOp::From(_) => r.from.len() < 2 && !r.items.is_empty(),
                SelOp::Join(..) => r.joins.is_empty() && !r.from.is_empty(),
                SelOp::Where(_) => r.wheres.len() < 2 && !r.from.is_empty(),
                SelOp::Group(_) => r.groups.len() < 2 && !r.from.is_empty(),
                SelOp::Having(_) => r.havings.len() < 2 && !r.from.is_empty(),
                SelOp::Union(..) => r.unions.len() < 2 && !r.items.is_empty(),
                SelOp::Order(..) => r.orders.len() < 2 && !r.from.is_empty(),
                SelOp::Limit(_) => r.limit.is_none() && !r.items.is_empty(),
                // OFFSET without LIMIT is PostgreSQL grammar (out of domain on MySQL; the SQLite reference is rejected)
                SelOp::Offset(_) => r.offset.is_none() && !r.items.is_empty(),
                SelOp::Lock(_) => r.lock.is_none() && !r.from.is_empty(),
                SelOp::Cte(..) => r.ctes.is_empty() && !r.items.is_empty(),
            })
            .cloned()
            .collect()
    }
    fn step(&self, s: &mut SelSys, r: &mut SelSpec, op: &SelOp) -> Result<(), Fail> {
        match catch(|| {
            let mut q = s.q.clone();
            let mut pg = s.pg.clone();
            apply_sel(&mut q, op, Dialect::Sqlite);
            apply_sel(&mut pg, op, Dialect::Postgres);
            (q, pg)
        }) {
            Ok((q, pg)) => {
                s.q = q;
                s.pg = pg;
            }
            Err(p) => return Err(Fail::new("builder-panic", format!("builder call {:?} panicked: {p}", op))),
        }
        apply_spec(r, op);
        Ok(())
    }
    fn canon(&self, s: &SelSys, r: &SelSpec) -> u128 {
        // the reference state is hashed in too: a builder call that wrongly leaves the real statement unchanged must not
        // be merged into the state it started from (over-fine is safe)
        fp_str(&format!("{:?}#{:?}", s.q, r))
    }
    fn outcome(&self, s: &SelSys, _r: &SelSpec) -> u64 {
        fp_str(&catch(|| s.q.to_string(SqliteQueryBuilder)).unwrap_or_default()) as u64
    }
    fn check(&self, s: &SelSys, r: &SelSpec) -> Vec<Fail> {
        let mut out = vec![];
        for c in &self.checks {
            out.extend(c(s, r));
        }
        let mut seen = std::collections::HashSet::new();
        out.retain(|f| seen.insert((f.sig.clone(), f.fixed_key.clone())));
        out
    }
    fn op_class(&self, op: &SelOp) -> String {
        crate::qmodel::op_class(op).to_string()
    }
    fn history_key(&self, hist: &[Self::Op]) -> String {
        // the call order across different clauses does not matter for these statements
        let mut c: Vec<String> = hist.iter().map(|o| self.op_class(o)).collect();
        c.sort();
        c.join(";")
    }
    fn op_label(&self, op: &SelOp) -> String {
        crate::qmodel::op_class(op).to_string()
    }
}

// ---------------------------------------------------------------------------------------------
// engine helpers

thread_local! {
    static DB: RefCell<Option<Db>> = RefCell::new(None);
}

pub fn with_db<R>(f: impl FnOnce(&Db) -> R) -> R {
    DB.with(|c| {
        let mut g = c.borrow_mut();
        let db = g.get_or_insert_with(|| {
            let db = Db::open_memory();
            db.exec(SCHEMA).expect("schema");
            db
        });
        f(db)
    })
}

/// bind a sea-query Value the way the in-repo rusqlite binder binds the core types
pub fn bind_value(v: &Value) -> Option<SqlVal> {
    Some(match v {
        Value::Bool(Some(b)) => SqlVal::Int(*b as i64),
        Value::TinyInt(Some(i)) => SqlVal::Int(*i as i64),
        Value::SmallInt(Some(i)) => SqlVal::Int(*i as i64),
        Value::Int(Some(i)) => SqlVal::Int(*i as i64),
        Value::BigInt(Some(i)) => SqlVal::Int(*i),
        Value::TinyUnsigned(Some(i)) => SqlVal::Int(*i as i64),
        Value::SmallUnsigned(Some(i)) => SqlVal::Int(*i as i64),
        Value::Unsigned(Some(i)) => SqlVal::Int(*i as i64),
        Value::BigUnsigned(Some(i)) => SqlVal::Int(<i64 as std::convert::TryFrom<u64>>::try_from(*i).ok()?),
        Value::Float(Some(f)) => SqlVal::Real(*f as f64),
        Value::Double(Some(f)) => SqlVal::Real(*f),
        Value::String(Some(s)) => SqlVal::Text(s.as_bytes().to_vec()),
        Value::Char(Some(c)) => SqlVal::Text(c.to_string().into_bytes()),
        Value::Bytes(Some(b)) => SqlVal::Blob((**b).clone()),
        Value::Bool(None) | Value::TinyInt(None) | Value::SmallInt(None) | Value::Int(None) | Value::BigInt(None) | Value::TinyUnsigned(None) | Value::SmallUnsigned(None) | Value::Unsigned(None) | Value::BigUnsigned(None) | Value::Float(None) | Value::Double(None) | Value::String(None) | Value::Char(None) | Value::Bytes(None) => SqlVal::Null,
        _ => return None,
    })
}

/// canonical multiset of result rows (numeric equality across INTEGER / REAL)
pub fn row_multiset(r: &Rows) -> Vec<String> {
    let mut v: Vec<String> = r.rows.iter().map(|row| row.iter().map(|c| c.canon()).collect::<Vec<_>>().join("|")).collect();
    v.sort();
    v
}
pub fn row_list(r: &Rows) -> Vec<String> {
    r.rows.iter().map(|row| row.iter().map(|c| c.canon()).collect::<Vec<_>>().join("|")).collect()
}
