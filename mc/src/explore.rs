//! Generic explicit-state explorer for history-shaped spaces (DESIGN §1.1).
//!
//! State = the REAL sea-query object plus a boring reference state; transition = one real public
//! builder call applied in lock-step to both. Breadth-first by levels, parallel expansion,
//! deduplication on a 128-bit fingerprint, shortest history kept per state.

use crate::report::{minimize, Report, Violation};
use crate::util::{par_items, Counter};
use serde_json::json;
use std::collections::{BTreeMap, HashSet};
use std::fmt::Debug;
use std::sync::Mutex;

#[derive(Clone, Debug, PartialEq)]
pub struct Fail {
    pub sig: String,
    pub detail: String,
    /// when the oracle itself identifies the failing input class precisely, the finding is keyed by
    /// this text instead of the (minimised) history
    pub fixed_key: Option<String>,
}
impl Fail {
    pub fn new(sig: impl Into<String>, detail: impl Into<String>) -> Self {
        Fail { sig: sig.into(), detail: detail.into(), fixed_key: None }
    }
    pub fn keyed(mut self, k: impl Into<String>) -> Self {
        self.fixed_key = Some(k.into());
        self
    }
}

pub trait Model: Sync {
    type Sys: Clone + Send + Sync;
    type Ref: Clone + Send + Sync;
    type Op: Clone + Debug + PartialEq + Send + Sync;
    fn name(&self) -> &'static str;
    fn init(&self) -> (Self::Sys, Self::Ref);
    /// the finite menu of operations enabled in a state, simplest first
    fn enabled(&self, r: &Self::Ref, depth: usize) -> Vec<Self::Op>;
    /// apply the real call and the reference transition; Err = the step itself violates the contract
    fn step(&self, s: &mut Self::Sys, r: &mut Self::Ref, op: &Self::Op) -> Result<(), Fail>;
    /// canonical fingerprint (equal fingerprints => equal futures)
    fn canon(&self, s: &Self::Sys, r: &Self::Ref) -> u128;
    /// invariants evaluated in EVERY reached state
    fn check(&self, s: &Self::Sys, r: &Self::Ref) -> Vec<Fail>;
    /// fingerprint of the observable outcome (for the distinct-outcomes count)
    fn outcome(&self, s: &Self::Sys, r: &Self::Ref) -> u64;
    /// class of an op for the KEY of a finding (concrete arguments abstracted away); default = Debug
    fn op_class(&self, op: &Self::Op) -> String {
        format!("{:?}", op)
    }
    /// key text of a minimised history (default: classes in call order)
    fn history_key(&self, hist: &[Self::Op]) -> String {
        hist.iter().map(|o| self.op_class(o)).collect::<Vec<_>>().join(";")
    }
    fn op_label(&self, op: &Self::Op) -> String {
        let d = format!("{:?}", op);
        d.split(|c: char| c == '(' || c == '{' || c == ' ').next().unwrap_or("").to_string()
    }
}

pub struct Stats {
    pub states: u64,
    pub transitions: u64,
    pub max_depth: usize,
    pub outcomes: u64,
    pub per_op: BTreeMap<String, u64>,
    pub level_sizes: Vec<u64>,
    pub exhaustive: bool,
}

/// Re-execute one history from the initial state through plain function calls (no explorer).
/// Returns every failure observed along the history (step failures end it).
pub fn run_history<M: Model>(m: &M, ops: &[M::Op]) -> Result<Vec<Fail>, String> {
    let (mut s, mut r) = m.init();
    let mut fails = m.check(&s, &r);
    for (d, op) in ops.iter().enumerate() {
        if !m.enabled(&r, d).contains(op) {
            return Err(format!("op {:?} not enabled at depth {}", op, d));
        }
        if let Err(f) = m.step(&mut s, &mut r, op) {
            fails.push(f);
            return Ok(fails);
        }
        fails.extend(m.check(&s, &r));
    }
    Ok(fails)
}

fn report_failure<M: Model>(m: &M, rep: &Report, hist: &[M::Op], f: &Fail, case_extra: &serde_json::Value) {
    rep.raw_failures.inc();
    let min = minimize(
        hist.to_vec(),
        &f.sig,
        |h: &Vec<M::Op>| {
            let mut out = vec![];
            for i in (0..h.len()).rev() {
                let mut t = h.clone();
                t.remove(i);
                out.push(t);
            }
            out
        },
        |h| match run_history(m, h) {
            Ok(fs) if fs.iter().any(|x| x.sig == f.sig) => Some(f.sig.clone()),
            _ => None,
        },
    );
    let detail = match run_history(m, &min) {
        Ok(fs) => fs.into_iter().find(|x| x.sig == f.sig).map(|x| x.detail).unwrap_or(f.detail.clone()),
        _ => f.detail.clone(),
    };
    let ops: Vec<String> = min.iter().map(|o| format!("{:?}", o)).collect();
    let short = |s: &String| if s.chars().count() > 90 { format!("{}…", s.chars().take(90).collect::<String>()) } else { s.clone() };
    let ops_short: Vec<String> = ops.iter().map(short).collect();
    rep.violation(Violation {
        key: match &f.fixed_key {
            Some(k) => format!("{}|{}", f.sig, k),
            None => format!("{}|{}|{}", m.name(), f.sig, m.history_key(&min)),
        },
        what: format!("history [{}]: {}", ops_short.join(", "), detail),
        case: json!({"model": m.name(), "ops": ops, "extra": case_extra}),
    });
}

pub fn explore<M: Model>(m: &M, max_depth: usize, max_states: u64, rep: &Report) -> Stats {
    let seen: Mutex<HashSet<u128>> = Mutex::new(HashSet::new());
    let outcomes: Mutex<HashSet<u64>> = Mutex::new(HashSet::new());
    let per_op: Mutex<BTreeMap<String, u64>> = Mutex::new(BTreeMap::new());
    let transitions = Counter::new();
    let (s0, r0) = m.init();
    seen.lock().unwrap().insert(m.canon(&s0, &r0));
    outcomes.lock().unwrap().insert(m.outcome(&s0, &r0));
    for f in m.check(&s0, &r0) {
        report_failure(m, rep, &[], &f, &json!(null));
    }
    let mut frontier: Vec<(M::Sys, M::Ref, Vec<M::Op>)> = vec![(s0, r0, vec![])];
    let mut level_sizes = vec![1u64];
    let mut depth = 0;
    let mut exhaustive = true;
    while depth < max_depth && !frontier.is_empty() {
        let next: Mutex<Vec<(M::Sys, M::Ref, Vec<M::Op>)>> = Mutex::new(Vec::new());
        // the states of the last level are checked and counted but not kept: nothing is expanded from them
        let last_level = depth + 1 == max_depth;
        let last_count = Counter::new();
        par_items(&frontier, |_w, (s, r, hist)| {
            let mut local_next = Vec::new();
            let mut local_ops: BTreeMap<String, u64> = BTreeMap::new();
            let mut local_out = Vec::new();
            for op in m.enabled(r, depth) {
                let mut s2 = s.clone();
                let mut r2 = r.clone();
                transitions.inc();
                *local_ops.entry(m.op_label(&op)).or_insert(0) += 1;
                let mut h2 = hist.clone();
                h2.push(op.clone());
                if let Err(f) = m.step(&mut s2, &mut r2, &op) {
                    report_failure(m, rep, &h2, &f, &json!(null));
                    continue;
                }
                let fp = m.canon(&s2, &r2);
                let fresh = seen.lock().unwrap().insert(fp);
                if !fresh {
                    continue;
                }
                for f in m.check(&s2, &r2) {
                    report_failure(m, rep, &h2, &f, &json!(null));
                    // keep exploring below a violating state: different violations may hide behind it
                }
                local_out.push(m.outcome(&s2, &r2));
                if last_level {
                    last_count.inc();
                } else {
                    local_next.push((s2, r2, h2));
                }
            }
            next.lock().unwrap().extend(local_next);
            outcomes.lock().unwrap().extend(local_out);
            let mut g = per_op.lock().unwrap();
            for (k, v) in local_ops {
                *g.entry(k).or_insert(0) += v;
            }
        });
        let mut nxt = next.into_inner().unwrap();
        // deterministic order regardless of thread scheduling
        nxt.sort_by_cached_key(|a| format!("{:?}", a.2));
        depth += 1;
        level_sizes.push(if last_level { last_count.get() } else { nxt.len() as u64 });
        frontier = nxt;
        if seen.lock().unwrap().len() as u64 > max_states {
            exhaustive = depth >= max_depth;
            break;
        }
    }
    let states = seen.lock().unwrap().len() as u64;
    let n_outcomes = outcomes.lock().unwrap().len() as u64;
    Stats {
        states,
        transitions: transitions.get(),
        max_depth: depth,
        outcomes: n_outcomes,
        per_op: per_op.into_inner().unwrap(),
        level_sizes,
        exhaustive,
    }
}

/// Parse the `ops` of a replay file back by matching Debug strings against the enabled menu.
pub fn replay_ops<M: Model>(m: &M, ops: &[String]) -> Option<String> {
    let (mut s, mut r) = m.init();
    if let Some(f) = m.check(&s, &r).into_iter().next() {
        return Some(format!("[{}] {}", f.sig, f.detail));
    }
    for (d, want) in ops.iter().enumerate() {
        let Some(op) = m.enabled(&r, d).into_iter().find(|o| format!("{:?}", o) == *want) else {
            return Some(format!("MACHINERY: op {want} is not in the enabled menu at depth {d}"));
        };
        if let Err(f) = m.step(&mut s, &mut r, &op) {
            return Some(format!("after {:?}: [{}] {}", &ops[..=d], f.sig, f.detail));
        }
        let fs = m.check(&s, &r);
        if !fs.is_empty() {
            let all: Vec<String> = fs.iter().map(|f| format!("[{}] {}", f.sig, f.detail)).collect();
            return Some(format!("after {:?}: {}", &ops[..=d], all.join("\n")));
        }
    }
    None
}
