//! C12 — Rust values survive the trip through `Value` unchanged (DESIGN §3.12).
//!
//! Complete domains where they are small (bool, 8/16-bit ints, char, f32/i32/u32 bit patterns),
//! bit-pattern grids for the 64-bit types, all strings / byte strings over a small alphabet,
//! boundary grids for the feature types, every (source variant, target type) pair and every
//! tuple arity 1..12 over a 3-value pool. Run in the `full` and the `plain` build.

use crate::enumerate::all_strings;
use crate::report::{Report, Violation};
use crate::util::{catch, par_range, Counter};
use sea_query::{FromValueTuple, IntoValueTuple, Nullable, Value, ValueTuple, ValueType};
use serde_json::json;
use std::borrow::Cow;
use std::sync::Arc;

pub trait Same {
    fn same(&self, o: &Self) -> bool;
}
macro_rules! same_eq { ($($t:ty),* $(,)?) => { $(impl Same for $t { fn same(&self, o: &Self) -> bool { self == o } })* } }
same_eq!(
    bool, i8, i16, i32, i64, u8, u16, u32, u64, char, String, Vec<u8>, serde_json::Value,
    chrono::NaiveDate, chrono::NaiveTime, chrono::NaiveDateTime, chrono::DateTime<chrono::Utc>,
    chrono::DateTime<chrono::Local>, time::Date, time::Time, time::PrimitiveDateTime,
    uuid::Uuid, rust_decimal::Decimal, bigdecimal::BigDecimal, ipnetwork::IpNetwork,
    mac_address::MacAddress, uuid::fmt::Braced, uuid::fmt::Hyphenated, uuid::fmt::Simple, uuid::fmt::Urn
);
impl Same for f32 {
    fn same(&self, o: &Self) -> bool {
        self.to_bits() == o.to_bits()
    }
}
impl Same for f64 {
    fn same(&self, o: &Self) -> bool {
        self.to_bits() == o.to_bits()
    }
}
impl Same for chrono::DateTime<chrono::FixedOffset> {
    fn same(&self, o: &Self) -> bool {
        self == o && self.offset() == o.offset()
    }
}
impl Same for time::OffsetDateTime {
    fn same(&self, o: &Self) -> bool {
        self == o && self.offset() == o.offset()
    }
}
impl Same for pgvector::Vector {
    fn same(&self, o: &Self) -> bool {
        let (a, b) = (self.as_slice(), o.as_slice());
        a.len() == b.len() && a.iter().zip(b).all(|(x, y)| x.to_bits() == y.to_bits())
    }
}
impl Same for Cow<'_, str> {
    fn same(&self, o: &Self) -> bool {
        self == o
    }
}
impl<T: Same> Same for Vec<T>
where
    Vec<T>: NotBytes,
{
    fn same(&self, o: &Self) -> bool {
        self.len() == o.len() && self.iter().zip(o).all(|(a, b)| a.same(b))
    }
}
pub trait NotBytes {}
impl NotBytes for Vec<i32> {}
impl NotBytes for Vec<i64> {}
impl NotBytes for Vec<f32> {}
impl NotBytes for Vec<f64> {}
impl NotBytes for Vec<String> {}
impl NotBytes for Vec<bool> {}
impl NotBytes for Vec<char> {}
impl NotBytes for Vec<uuid::Uuid> {}
impl NotBytes for Vec<Vec<u8>> {}

/// Variant name of a value, independent of the code under test's match arms: the Debug head.
pub fn variant(v: &Value) -> String {
    let d = format!("{:?}", v);
    d.split('(').next().unwrap_or("").to_string()
}
pub fn is_null(v: &Value) -> bool {
    let d = format!("{:?}", v);
    d.ends_with("(None)") || d.ends_with(", None)")
}

struct Ctx<'a> {
    rep: &'a Report,
    evals: &'a Counter,
    cfg: &'static str,
}
impl Ctx<'_> {
    fn fail(&self, site: &str, sig: &str, input: &str, what: String) {
        self.rep.raw_failures.inc();
        self.rep.violation(Violation {
            key: format!("{}|{}|{}", site, sig, input),
            what: format!("[{} build] {}", self.cfg, what),
            case: json!({"site": site, "input": input, "config": self.cfg}),
        });
    }
}

/// Everything the property says about one type `T` whose own variant is `var`, for one value `x`.
fn roundtrip<T>(cx: &Ctx, tname: &str, var: &str, x: T, class: &str)
where
    T: Clone + Same + ValueType + Nullable + Into<Value> + std::fmt::Debug,
{
    cx.evals.inc();
    let site = format!("roundtrip<{tname}>");
    let v: Value = x.clone().into();
    if variant(&v) != var {
        return cx.fail(&site, "wrong-variant", class, format!("{tname} value {:?} became {:?}, expected variant {var}", x, v));
    }
    match catch(|| <T as ValueType>::try_from(v.clone())) {
        Ok(Ok(y)) if y.same(&x) => {}
        other => return cx.fail(&site, "not-identity", class, format!("{tname}: {:?} -> {:?} -> {:?}", x, v, other.map(|r| r.map_err(|_| "ValueTypeErr")))),
    }
    // Some(x): same value, and never extracts as None
    let vs: Value = Some(x.clone()).into();
    if format!("{:?}", vs) != format!("{:?}", v) {
        return cx.fail(&site, "some-differs", class, format!("Some({:?}) became {:?} but the bare value became {:?}", x, vs, v));
    }
    match catch(|| <Option<T> as ValueType>::try_from(vs.clone())) {
        Ok(Ok(Some(y))) if y.same(&x) => {}
        other => return cx.fail(&site, "some-not-identity", class, format!("Option<{tname}>: Some({:?}) -> {:?} -> {:?}", x, vs, other.map(|r| r.map_err(|_| "ValueTypeErr")))),
    }
    // as_null / dummy_value keep the variant
    let an = v.as_null();
    if variant(&an) != var || !is_null(&an) {
        return cx.fail(&site, "as-null", class, format!("{:?}.as_null() = {:?}", v, an));
    }
    let dv = v.dummy_value();
    if variant(&dv) != var || is_null(&dv) {
        return cx.fail(&site, "dummy-value", class, format!("{:?}.dummy_value() = {:?}", v, dv));
    }
    if let (Value::Array(t1, _), Value::Array(t2, _), Value::Array(t3, _)) = (&v, &an, &dv) {
        if t1 != t2 || t1 != t3 {
            return cx.fail(&site, "array-type", class, format!("array element type changed: {:?} / as_null {:?} / dummy {:?}", v, an, dv));
        }
    }
}

/// The None side of one type, and every mismatched (variant, type) pair against the pool.
fn null_and_cross<T>(cx: &Ctx, tname: &str, var: &str, pool: &[Value])
where
    T: Clone + Same + ValueType + Nullable + Into<Value> + std::fmt::Debug,
{
    let site = format!("option<{tname}>");
    cx.evals.inc();
    let n: Value = None::<T>.into();
    let tn = T::null();
    if variant(&n) != var || !is_null(&n) || format!("{:?}", n) != format!("{:?}", tn) {
        cx.fail(&site, "none-variant", "None", format!("None::<{tname}> became {:?} (T::null() = {:?}); expected the NULL of variant {var}", n, tn));
    }
    match catch(|| <Option<T> as ValueType>::try_from(n.clone())) {
        Ok(Ok(None)) => {}
        other => cx.fail(&site, "none-not-none", "None", format!("Option<{tname}>::try_from({:?}) = {:?}", n, other.map(|r| r.map(|o| o.is_some()).map_err(|_| "ValueTypeErr")))),
    }
    match catch(|| <T as ValueType>::try_from(n.clone())) {
        Ok(Err(_)) => {}
        other => cx.fail(&site, "null-as-value", "None", format!("{tname}::try_from({:?}) = {:?}, expected Err", n, other.map(|r| r.is_ok()))),
    }
    for w in pool {
        let wv = variant(w);
        let same_variant = wv == var
            && match (w, &tn) {
                (Value::Array(a, _), Value::Array(b, _)) => a == b,
                _ => true,
            };
        if same_variant {
            continue;
        }
        cx.evals.inc();
        let input = format!("{:?}", w);
        match catch(|| <T as ValueType>::try_from(w.clone())) {
            Ok(Err(_)) => {}
            Ok(Ok(y)) => cx.fail(&format!("cross<{tname}>"), "wrong-type-accepted", &wv, format!("{tname}::try_from({input}) returned Ok({:?})", y)),
            Err(p) => cx.fail(&format!("cross<{tname}>"), "panic", &wv, format!("{tname}::try_from({input}) panicked: {p}")),
        }
        match catch(|| <Option<T> as ValueType>::try_from(w.clone())) {
            Ok(Err(_)) => {}
            Ok(Ok(y)) => cx.fail(&format!("cross<Option<{tname}>>"), "wrong-type-accepted", &wv, format!("Option<{tname}>::try_from({input}) returned Ok({:?})", y)),
            Err(p) => cx.fail(&format!("cross<Option<{tname}>>"), "panic", &wv, format!("Option<{tname}>::try_from({input}) panicked: {p}")),
        }
    }
}

fn grid64() -> Vec<u64> {
    let mut v = vec![0u64, u64::MAX];
    for i in 0..64 {
        v.push(1u64 << i);
        v.push(!(1u64 << i));
        for j in 0..i {
            v.push((1u64 << i) | (1u64 << j));
            v.push(!((1u64 << i) | (1u64 << j)));
        }
    }
    for b in [0u64, i64::MAX as u64, i64::MIN as u64, u64::MAX, u32::MAX as u64, i32::MAX as u64] {
        for d in 0..=2u64 {
            v.push(b.wrapping_add(d));
            v.push(b.wrapping_sub(d));
        }
    }
    // f64 specials
    for f in [0.0f64, -0.0, 1.0, -1.0, f64::INFINITY, f64::NEG_INFINITY, f64::NAN, f64::MIN_POSITIVE, f64::MAX, f64::MIN, f64::EPSILON, 5e-324, 0.1, 1e300] {
        v.push(f.to_bits());
    }
    v.push(0x7ff8_0000_0000_0001);
    v.push(0xfff8_0000_0000_0000);
    v.push(0x7ff0_0000_0000_0001);
    v.sort();
    v.dedup();
    v
}

pub fn pool() -> Vec<Value> {
    use chrono::TimeZone;
    let d = chrono::NaiveDate::from_ymd_opt(2020, 2, 29).unwrap();
    let t = chrono::NaiveTime::from_hms_opt(1, 2, 3).unwrap();
    let dt = d.and_time(t);
    let td = time::Date::from_calendar_date(2020, time::Month::February, 29).unwrap();
    let tt = time::Time::from_hms(1, 2, 3).unwrap();
    let somes: Vec<Value> = vec![
        true.into(),
        1i8.into(),
        1i16.into(),
        1i32.into(),
        1i64.into(),
        1u8.into(),
        1u16.into(),
        1u32.into(),
        1u64.into(),
        1.5f32.into(),
        1.5f64.into(),
        "s".to_string().into(),
        'c'.into(),
        vec![1u8].into(),
        serde_json::json!({"a": 1}).into(),
        d.into(),
        t.into(),
        dt.into(),
        chrono::Utc.from_utc_datetime(&dt).into(),
        chrono::Local.from_utc_datetime(&dt).into(),
        chrono::FixedOffset::east_opt(3600).unwrap().from_utc_datetime(&dt).into(),
        td.into(),
        tt.into(),
        time::PrimitiveDateTime::new(td, tt).into(),
        time::PrimitiveDateTime::new(td, tt).assume_utc().into(),
        uuid::Uuid::from_u128(7).into(),
        rust_decimal::Decimal::new(15, 1).into(),
        "1.5".parse::<bigdecimal::BigDecimal>().unwrap().into(),
        vec![1i32].into(),
        vec!["a".to_string()].into(),
        pgvector::Vector::from(vec![1.0f32]).into(),
        "10.0.0.1/8".parse::<ipnetwork::IpNetwork>().unwrap().into(),
        mac_address::MacAddress::new([1, 2, 3, 4, 5, 6]).into(),
    ];
    let mut all = somes.clone();
    for s in &somes {
        all.push(s.as_null());
    }
    all
}

macro_rules! tuple_check {
    ($cx:expr, $n:tt, $($i:tt),+) => {{
        // all 3^n assignments of {1,2,3} to the n positions
        let n: u32 = $n;
        let total = 3u64.pow(n);
        let cx = $cx;
        par_range(total, 4096, |_w, idx| {
            cx.evals.inc();
            let mut k = idx;
            let mut a = [0i32; 12];
            for p in 0..n as usize { a[p] = (k % 3) as i32 + 1 + 10 * p as i32; k /= 3; }
            let tup = ( $( a[$i] ),+ ,);
            let expect: Vec<Value> = (0..n as usize).map(|p| Value::Int(Some(a[p]))).collect();
            let r = catch(|| {
                let vt: ValueTuple = tuple_into!(tup, $n);
                let arity_ok = match (&vt, n) {
                    (ValueTuple::One(_), 1) | (ValueTuple::Two(..), 2) | (ValueTuple::Three(..), 3) => true,
                    (ValueTuple::Many(v), m) if m >= 4 => v.len() == m as usize,
                    _ => false,
                };
                let items: Vec<Value> = vt.clone().into_iter().collect();
                let back = tuple_from!(vt, $n, $($i),+);
                (arity_ok, items, back)
            });
            match r {
                Err(p) => cx.fail(&format!("tuple{}", n), "panic", "", format!("arity {n} tuple {:?}: panicked {p}", &a[..n as usize])),
                Ok((arity_ok, items, back)) => {
                    if !arity_ok || items.len() != n as usize || format!("{:?}", items) != format!("{:?}", expect) {
                        cx.fail(&format!("tuple{}", n), "into-order", "", format!("arity {n} tuple {:?} -> items {:?}", &a[..n as usize], items));
                    } else if back != a[..n as usize].to_vec() {
                        cx.fail(&format!("tuple{}", n), "from-order", "", format!("arity {n} tuple {:?} -> from_value_tuple {:?}", &a[..n as usize], back));
                    }
                }
            }
        });
        total
    }};
}
macro_rules! tuple_into {
    ($t:expr, 1) => { ($t.0).into_value_tuple() };
    ($t:expr, $n:tt) => { $t.into_value_tuple() };
}
macro_rules! tuple_from {
    ($vt:expr, 1, $($i:tt),+) => {{ let x: i32 = FromValueTuple::from_value_tuple($vt); vec![x] }};
    ($vt:expr, 2, $($i:tt),+) => {{ let x: (i32, i32) = FromValueTuple::from_value_tuple($vt); vec![x.0, x.1] }};
    ($vt:expr, 3, $($i:tt),+) => {{ let x: (i32, i32, i32) = FromValueTuple::from_value_tuple($vt); vec![x.0, x.1, x.2] }};
    ($vt:expr, 4, $($i:tt),+) => {{ let x: (i32, i32, i32, i32) = FromValueTuple::from_value_tuple($vt); vec![$(x.$i),+] }};
    ($vt:expr, 5, $($i:tt),+) => {{ let x: (i32, i32, i32, i32, i32) = FromValueTuple::from_value_tuple($vt); vec![$(x.$i),+] }};
    ($vt:expr, 6, $($i:tt),+) => {{ let x: (i32, i32, i32, i32, i32, i32) = FromValueTuple::from_value_tuple($vt); vec![$(x.$i),+] }};
    ($vt:expr, 7, $($i:tt),+) => {{ let x: (i32, i32, i32, i32, i32, i32, i32) = FromValueTuple::from_value_tuple($vt); vec![$(x.$i),+] }};
    ($vt:expr, 8, $($i:tt),+) => {{ let x: (i32, i32, i32, i32, i32, i32, i32, i32) = FromValueTuple::from_value_tuple($vt); vec![$(x.$i),+] }};
    ($vt:expr, 9, $($i:tt),+) => {{ let x: (i32, i32, i32, i32, i32, i32, i32, i32, i32) = FromValueTuple::from_value_tuple($vt); vec![$(x.$i),+] }};
    ($vt:expr, 10, $($i:tt),+) => {{ let x: (i32, i32, i32, i32, i32, i32, i32, i32, i32, i32) = FromValueTuple::from_value_tuple($vt); vec![$(x.$i),+] }};
    ($vt:expr, 11, $($i:tt),+) => {{ let x: (i32, i32, i32, i32, i32, i32, i32, i32, i32, i32, i32) = FromValueTuple::from_value_tuple($vt); vec![$(x.$i),+] }};
    ($vt:expr, 12, $($i:tt),+) => {{ let x: (i32, i32, i32, i32, i32, i32, i32, i32, i32, i32, i32, i32) = FromValueTuple::from_value_tuple($vt); vec![$(x.$i),+] }};
}

pub fn run(rep: &Arc<Report>) {
    let cfg: &'static str = if cfg!(feature = "hashable") { "full" } else { "plain" };
    let evals = Counter::new();
    let cx = Ctx { rep, evals: &evals, cfg };
    let pool = pool();
    let mut domains = serde_json::Map::new();

    // ---- complete small domains
    for b in [false, true] {
        roundtrip(&cx, "bool", "Bool", b, &b.to_string());
    }
    for x in i8::MIN..=i8::MAX {
        roundtrip(&cx, "i8", "TinyInt", x, "i8");
    }
    for x in u8::MIN..=u8::MAX {
        roundtrip(&cx, "u8", "TinyUnsigned", x, "u8");
    }
    for x in i16::MIN..=i16::MAX {
        roundtrip(&cx, "i16", "SmallInt", x, "i16");
    }
    for x in u16::MIN..=u16::MAX {
        roundtrip(&cx, "u16", "SmallUnsigned", x, "u16");
    }
    domains.insert("bool,i8,u8,i16,u16".into(), json!("complete"));
    par_range(0x110000, 4096, |_w, c| {
        if let Some(ch) = char::from_u32(c as u32) {
            roundtrip(&cx, "char", "Char", ch, "char");
        }
    });
    domains.insert("char".into(), json!("complete (all Unicode scalar values)"));
    // ---- 32-bit domains: complete in thorough, <=3 set/cleared bits grid in quick
    let full32 = rep.thorough();
    if full32 {
        par_range(1u64 << 32, 1 << 16, |_w, bits| {
            let b = bits as u32;
            // hot loop: identity only (the per-value extras are covered by the grid below)
            evals.inc();
            let f = f32::from_bits(b);
            let ok_f = matches!(<f32 as ValueType>::try_from(Value::from(f)), Ok(y) if y.to_bits() == b);
            let ok_i = matches!(<i32 as ValueType>::try_from(Value::from(b as i32)), Ok(y) if y == b as i32);
            let ok_u = matches!(<u32 as ValueType>::try_from(Value::from(b)), Ok(y) if y == b);
            let ok_of = matches!(<Option<f32> as ValueType>::try_from(Value::from(Some(f))), Ok(Some(y)) if y.to_bits() == b);
            if !(ok_f && ok_i && ok_u && ok_of) {
                cx.fail("roundtrip32", "not-identity", "bits", format!("bit pattern {b:#010x}: f32 {ok_f} i32 {ok_i} u32 {ok_u} Option<f32> {ok_of}"));
            }
        });
        domains.insert("f32,i32,u32,Option<f32>".into(), json!("complete (all 2^32 bit patterns)"));
    }
    {
        let mut g32: Vec<u32> = vec![0, u32::MAX];
        for i in 0..32 {
            for j in 0..=i {
                for k in 0..=j {
                    let m = (1u32 << i) | (1u32 << j) | (1u32 << k);
                    g32.push(m);
                    g32.push(!m);
                }
            }
        }
        for e in 0..=255u32 {
            g32.push(e << 23);
            g32.push((e << 23) | 1);
            g32.push((e << 23) | 0x80000000);
            g32.push((e << 23) | 0x7fffff);
        }
        g32.sort();
        g32.dedup();
        for b in &g32 {
            roundtrip(&cx, "f32", "Float", f32::from_bits(*b), "f32");
            roundtrip(&cx, "i32", "Int", *b as i32, "i32");
            roundtrip(&cx, "u32", "Unsigned", *b, "u32");
        }
        domains.insert("f32,i32,u32 grid (<=3 set or cleared bits, exponent sweep) with all per-value checks".into(), json!(g32.len()));
    }
    let g64 = grid64();
    for b in &g64 {
        roundtrip(&cx, "f64", "Double", f64::from_bits(*b), "f64");
        roundtrip(&cx, "i64", "BigInt", *b as i64, "i64");
        roundtrip(&cx, "u64", "BigUnsigned", *b, "u64");
    }
    domains.insert("f64,i64,u64 grid (<=2 set or cleared bits, boundaries +-2, NaN payloads)".into(), json!(g64.len()));
    // ---- strings and byte strings
    let salpha = ['a', '\'', '\\', '\0', 'é', '😀'];
    let strs = all_strings(&salpha, 4);
    for s in &strs {
        roundtrip(&cx, "String", "String", s.clone(), "String");
        roundtrip(&cx, "Vec<u8>", "Bytes", s.as_bytes().to_vec(), "Vec<u8>");
        // Cow<str> and &str conversions
        evals.inc();
        let v: Value = Cow::<str>::from(s.as_str()).into();
        match <Cow<str> as ValueType>::try_from(v.clone()) {
            Ok(c) if c == s.as_str() && variant(&v) == "String" => {}
            other => cx.fail("roundtrip<Cow<str>>", "not-identity", "Cow", format!("{:?} -> {:?} -> {:?}", s, v, other.is_ok())),
        }
        let v2: Value = s.as_str().into();
        if format!("{:?}", v2) != format!("{:?}", v) {
            cx.fail("from<&str>", "not-identity", "&str", format!("{:?} -> {:?}", s, v2));
        }
    }
    for b in 0..=255u8 {
        roundtrip(&cx, "Vec<u8>", "Bytes", vec![b], "Vec<u8>");
        roundtrip(&cx, "Vec<u8>", "Bytes", vec![0x61, b, 0], "Vec<u8>");
    }
    roundtrip(&cx, "String", "String", "x".repeat(65536), "String");
    roundtrip(&cx, "Vec<u8>", "Bytes", vec![0xffu8; 65536], "Vec<u8>");
    domains.insert("String / Vec<u8> / Cow<str> / &str over {a ' \\\\ NUL é 😀} up to length 4, every single byte, 64 KiB".into(), json!(strs.len()));
    // ---- feature types on boundary grids
    {
        use chrono::{Datelike, TimeZone};
        let mut dates = vec![chrono::NaiveDate::MIN, chrono::NaiveDate::MAX];
        for (y, m, d) in [(1, 1, 1), (1969, 12, 31), (1970, 1, 1), (2000, 2, 29), (2020, 2, 29), (2038, 1, 19), (9999, 12, 31), (-1, 12, 31), (0, 1, 1)] {
            dates.push(chrono::NaiveDate::from_ymd_opt(y, m, d).unwrap());
        }
        let mut times = vec![];
        for (h, mi, s, ns) in [(0, 0, 0, 0), (23, 59, 59, 999_999_999), (12, 0, 0, 1), (23, 59, 59, 1_999_999_999), (1, 2, 3, 456_000_000)] {
            times.push(chrono::NaiveTime::from_hms_nano_opt(h, mi, s, ns).unwrap());
        }
        for d in &dates {
            roundtrip(&cx, "NaiveDate", "ChronoDate", *d, "NaiveDate");
            for t in &times {
                let dt = d.and_time(*t);
                roundtrip(&cx, "NaiveDateTime", "ChronoDateTime", dt, "NaiveDateTime");
                if d.year().abs() < 200_000 {
                    roundtrip(&cx, "DateTime<Utc>", "ChronoDateTimeUtc", chrono::Utc.from_utc_datetime(&dt), "DateTime<Utc>");
                    roundtrip(&cx, "DateTime<Local>", "ChronoDateTimeLocal", chrono::Local.from_utc_datetime(&dt), "DateTime<Local>");
                    for off in [0, 1, -1, 3600, -3600, 19800, 86399, -86399] {
                        let fo = chrono::FixedOffset::east_opt(off).unwrap();
                        roundtrip(&cx, "DateTime<FixedOffset>", "ChronoDateTimeWithTimeZone", fo.from_utc_datetime(&dt), "DateTime<FixedOffset>");
                    }
                }
            }
        }
        for t in &times {
            roundtrip(&cx, "NaiveTime", "ChronoTime", *t, "NaiveTime");
        }
        let mut tdates = vec![time::Date::MIN, time::Date::MAX];
        for (y, m, d) in [(1, 1, 1), (1970, 1, 1), (2000, 2, 29), (9999, 12, 31), (-1, 12, 31)] {
            tdates.push(time::Date::from_calendar_date(y, time::Month::try_from(m).unwrap(), d).unwrap());
        }
        let ttimes = [time::Time::MIDNIGHT, time::Time::from_hms_nano(23, 59, 59, 999_999_999).unwrap(), time::Time::from_hms_nano(1, 2, 3, 1).unwrap()];
        for d in &tdates {
            roundtrip(&cx, "time::Date", "TimeDate", *d, "time::Date");
            for t in &ttimes {
                let p = time::PrimitiveDateTime::new(*d, *t);
                roundtrip(&cx, "PrimitiveDateTime", "TimeDateTime", p, "PrimitiveDateTime");
                if d.year().abs() < 9000 {
                    for (h, m, s) in [(0, 0, 0), (1, 0, 0), (-1, 0, 0), (5, 30, 0), (23, 59, 59), (-23, -59, -59)] {
                        let off = time::UtcOffset::from_hms(h, m, s).unwrap();
                        roundtrip(&cx, "OffsetDateTime", "TimeDateTimeWithTimeZone", p.assume_offset(off), "OffsetDateTime");
                    }
                }
            }
        }
        for t in &ttimes {
            roundtrip(&cx, "time::Time", "TimeTime", *t, "time::Time");
        }
        for u in [0u128, 1, u128::MAX, 0x0123456789abcdef0123456789abcdef, 1 << 127, 0xffff_ffff_ffff_ffff] {
            let id = uuid::Uuid::from_u128(u);
            roundtrip(&cx, "Uuid", "Uuid", id, "Uuid");
            roundtrip(&cx, "uuid::fmt::Braced", "Uuid", id.braced(), "Braced");
            roundtrip(&cx, "uuid::fmt::Hyphenated", "Uuid", id.hyphenated(), "Hyphenated");
            roundtrip(&cx, "uuid::fmt::Simple", "Uuid", id.simple(), "Simple");
            roundtrip(&cx, "uuid::fmt::Urn", "Uuid", id.urn(), "Urn");
        }
        for (m, s) in [(0i64, 0u32), (1, 0), (-1, 0), (15, 1), (-15, 28), (i64::MAX, 0), (i64::MIN, 10), (10, 1), (100, 2)] {
            roundtrip(&cx, "Decimal", "Decimal", rust_decimal::Decimal::new(m, s), "Decimal");
        }
        roundtrip(&cx, "Decimal", "Decimal", rust_decimal::Decimal::MAX, "Decimal");
        roundtrip(&cx, "Decimal", "Decimal", rust_decimal::Decimal::MIN, "Decimal");
        for s in ["0", "-0", "1", "-1", "1.50", "1.5", "0.000000000000000000000000000000000001", "123456789012345678901234567890123456789012345678901234567890.5", "1e100", "-1e-100"] {
            roundtrip(&cx, "BigDecimal", "BigDecimal", s.parse::<bigdecimal::BigDecimal>().unwrap(), "BigDecimal");
        }
        for s in ["0.0.0.0/0", "10.0.0.1/8", "255.255.255.255/32", "::/0", "::1/128", "fe80::1/64"] {
            roundtrip(&cx, "IpNetwork", "IpNetwork", s.parse::<ipnetwork::IpNetwork>().unwrap(), "IpNetwork");
        }
        for b in [[0u8; 6], [255; 6], [1, 2, 3, 4, 5, 6]] {
            roundtrip(&cx, "MacAddress", "MacAddress", mac_address::MacAddress::new(b), "MacAddress");
        }
        for v in [vec![], vec![0.0f32], vec![-0.0, 1.5, f32::INFINITY], vec![f32::MIN_POSITIVE, f32::MAX, 1e-45]] {
            roundtrip(&cx, "pgvector::Vector", "Vector", pgvector::Vector::from(v), "Vector");
        }
        // JSON: all shapes of depth <= 2 over a small alphabet
        let leaves = vec![json!(null), json!(true), json!(0), json!(-1), json!(1.5), json!(u64::MAX), json!(""), json!("a'\\\""), json!("é😀")];
        let mut jsons = leaves.clone();
        for a in &leaves {
            jsons.push(json!([a]));
            jsons.push(json!({"k": a}));
            for b in &leaves {
                jsons.push(json!([a, b]));
                jsons.push(json!({"k": a, "": b}));
                jsons.push(json!({"b": [a], "a": {"z": b}}));
            }
        }
        for j in &jsons {
            roundtrip(&cx, "Json", "Json", j.clone(), "Json");
        }
        domains.insert("feature types: chrono / time boundary grids x offsets, Uuid (+4 fmt wrappers), Decimal, BigDecimal, IpNetwork, MacAddress, pgvector, JSON shapes depth<=2".into(), json!(jsons.len()));
        // arrays
        for v in [vec![], vec![1i32], vec![i32::MIN, 0, i32::MAX]] {
            roundtrip(&cx, "Vec<i32>", "Array", v, "Vec<i32>");
        }
        for v in [vec![], vec![0i64], vec![i64::MIN, i64::MAX]] {
            roundtrip(&cx, "Vec<i64>", "Array", v, "Vec<i64>");
        }
        for v in [vec![], vec![f32::NAN, -0.0], vec![1.5f32]] {
            roundtrip(&cx, "Vec<f32>", "Array", v, "Vec<f32>");
        }
        for v in [vec![], vec![f64::NAN, -0.0], vec![1.5f64]] {
            roundtrip(&cx, "Vec<f64>", "Array", v, "Vec<f64>");
        }
        for v in [vec![], vec!["".to_string()], vec!["a'".to_string(), "é".to_string()]] {
            roundtrip(&cx, "Vec<String>", "Array", v, "Vec<String>");
        }
        roundtrip(&cx, "Vec<bool>", "Array", vec![true, false], "Vec<bool>");
        roundtrip(&cx, "Vec<char>", "Array", vec!['a', '😀'], "Vec<char>");
        roundtrip(&cx, "Vec<Uuid>", "Array", vec![uuid::Uuid::from_u128(1)], "Vec<Uuid>");
        roundtrip(&cx, "Vec<Vec<u8>>", "Array", vec![vec![0u8, 255]], "Vec<Vec<u8>>");
    }
    // ---- None side and every (source variant, target type) pair
    macro_rules! nc { ($t:ty, $name:expr, $var:expr) => { null_and_cross::<$t>(&cx, $name, $var, &pool) } }
    nc!(bool, "bool", "Bool");
    nc!(i8, "i8", "TinyInt");
    nc!(i16, "i16", "SmallInt");
    nc!(i32, "i32", "Int");
    nc!(i64, "i64", "BigInt");
    nc!(u8, "u8", "TinyUnsigned");
    nc!(u16, "u16", "SmallUnsigned");
    nc!(u32, "u32", "Unsigned");
    nc!(u64, "u64", "BigUnsigned");
    nc!(f32, "f32", "Float");
    nc!(f64, "f64", "Double");
    nc!(char, "char", "Char");
    nc!(String, "String", "String");
    nc!(Vec<u8>, "Vec<u8>", "Bytes");
    nc!(serde_json::Value, "Json", "Json");
    nc!(chrono::NaiveDate, "NaiveDate", "ChronoDate");
    nc!(chrono::NaiveTime, "NaiveTime", "ChronoTime");
    nc!(chrono::NaiveDateTime, "NaiveDateTime", "ChronoDateTime");
    nc!(chrono::DateTime<chrono::Utc>, "DateTime<Utc>", "ChronoDateTimeUtc");
    nc!(chrono::DateTime<chrono::Local>, "DateTime<Local>", "ChronoDateTimeLocal");
    nc!(chrono::DateTime<chrono::FixedOffset>, "DateTime<FixedOffset>", "ChronoDateTimeWithTimeZone");
    nc!(time::Date, "time::Date", "TimeDate");
    nc!(time::Time, "time::Time", "TimeTime");
    nc!(time::PrimitiveDateTime, "PrimitiveDateTime", "TimeDateTime");
    nc!(time::OffsetDateTime, "OffsetDateTime", "TimeDateTimeWithTimeZone");
    nc!(uuid::Uuid, "Uuid", "Uuid");
    nc!(uuid::fmt::Braced, "uuid::fmt::Braced", "Uuid");
    nc!(uuid::fmt::Hyphenated, "uuid::fmt::Hyphenated", "Uuid");
    nc!(uuid::fmt::Simple, "uuid::fmt::Simple", "Uuid");
    nc!(uuid::fmt::Urn, "uuid::fmt::Urn", "Uuid");
    nc!(rust_decimal::Decimal, "Decimal", "Decimal");
    nc!(bigdecimal::BigDecimal, "BigDecimal", "BigDecimal");
    nc!(ipnetwork::IpNetwork, "IpNetwork", "IpNetwork");
    nc!(mac_address::MacAddress, "MacAddress", "MacAddress");
    nc!(pgvector::Vector, "pgvector::Vector", "Vector");
    nc!(Vec<i32>, "Vec<i32>", "Array");
    nc!(Vec<String>, "Vec<String>", "Array");
    nc!(Vec<f64>, "Vec<f64>", "Array");
    domains.insert("(source variant, target type) pairs".into(), json!(format!("{} pool values x 38 target types (+ Option of each)", pool.len())));
    // Cow<str> has no Nullable impl (no Option<Cow<str>>): only the cross pairs - every pool value of another variant must be rejected
    for w in &pool {
        if variant(w) == "String" {
            continue;
        }
        evals.inc();
        match catch(|| <std::borrow::Cow<'static, str> as ValueType>::try_from(w.clone())) {
            Ok(Err(_)) => {}
            Ok(Ok(y)) => cx.fail("cross<Cow<str>>", "wrong-type-accepted", &variant(w), format!("Cow<str>::try_from({:?}) returned Ok({:?})", w, y)),
            Err(p) => cx.fail("cross<Cow<str>>", "panic", &variant(w), format!("Cow<str>::try_from({:?}) panicked: {p}", w)),
        }
    }
    // the element-type tag of an array value names the variant of its elements, for every element type (the tag is what
    // decides which Vec<T> an array extracts as); and the array extracts as a Vec of that type only
    {
        macro_rules! tag_of {
            ($t:ty, $x:expr) => {{
                evals.inc();
                let x: $t = $x;
                let elem: Value = x.clone().into();
                let arr: Value = vec![x.clone()].into();
                let null_arr: Value = None::<Vec<$t>>.into();
                for (what, v) in [("Vec", &arr), ("None::<Vec>", &null_arr)] {
                    match v {
                        Value::Array(ty, _) if format!("{:?}", ty) == variant(&elem) => {}
                        other => cx.fail(&format!("array-tag<{}>", stringify!($t)), "array-type", &variant(&elem), format!("{what}<{}> became {:?}; its element type tag must name the variant {}", stringify!($t), other, variant(&elem))),
                    }
                }
                match catch(|| <Vec<$t> as ValueType>::try_from(arr.clone())) {
                    Ok(Ok(back)) if back.len() == 1 => {}
                    other => cx.fail(&format!("array-roundtrip<{}>", stringify!($t)), "array-roundtrip", &variant(&elem), format!("Vec<{}> -> Value -> Vec gave {:?}", stringify!($t), other.map(|r| r.map(|v| v.len()).map_err(|_| "ValueTypeErr"))))
                }
            }};
        }
        tag_of!(bool, true);
        tag_of!(i8, 1);
        tag_of!(i16, 1);
        tag_of!(i32, 1);
        tag_of!(i64, 1);
        tag_of!(u16, 1);
        tag_of!(u32, 1);
        tag_of!(u64, 1);
        tag_of!(f32, 1.5);
        tag_of!(f64, 1.5);
        tag_of!(char, 'x');
        tag_of!(String, "s".to_string());
        tag_of!(Vec<u8>, vec![1u8]);
        tag_of!(serde_json::Value, serde_json::json!({"a": 1}));
        tag_of!(chrono::NaiveDate, chrono::NaiveDate::from_ymd_opt(2020, 2, 29).unwrap());
        tag_of!(chrono::NaiveTime, chrono::NaiveTime::from_hms_opt(1, 2, 3).unwrap());
        tag_of!(chrono::NaiveDateTime, chrono::NaiveDate::from_ymd_opt(2020, 2, 29).unwrap().and_hms_opt(1, 2, 3).unwrap());
        tag_of!(chrono::DateTime<chrono::Utc>, chrono::DateTime::<chrono::Utc>::from_timestamp(86400, 0).unwrap());
        tag_of!(chrono::DateTime<chrono::Local>, chrono::DateTime::<chrono::Utc>::from_timestamp(86400, 0).unwrap().with_timezone(&chrono::Local));
        tag_of!(chrono::DateTime<chrono::FixedOffset>, chrono::DateTime::<chrono::Utc>::from_timestamp(86400, 0).unwrap().with_timezone(&chrono::FixedOffset::east_opt(3600).unwrap()));
        tag_of!(time::Date, time::Date::from_ordinal_date(2020, 60).unwrap());
        tag_of!(time::Time, time::Time::from_hms(1, 2, 3).unwrap());
        tag_of!(time::PrimitiveDateTime, time::PrimitiveDateTime::new(time::Date::from_ordinal_date(2020, 60).unwrap(), time::Time::from_hms(1, 2, 3).unwrap()));
        tag_of!(time::OffsetDateTime, time::OffsetDateTime::from_unix_timestamp(86400).unwrap());
        tag_of!(uuid::Uuid, uuid::Uuid::from_u128(7));
        tag_of!(rust_decimal::Decimal, rust_decimal::Decimal::new(15, 1));
        tag_of!(bigdecimal::BigDecimal, "1.5".parse::<bigdecimal::BigDecimal>().unwrap());
        tag_of!(ipnetwork::IpNetwork, "10.0.0.0/8".parse::<ipnetwork::IpNetwork>().unwrap());
        tag_of!(mac_address::MacAddress, mac_address::MacAddress::new([1, 2, 3, 4, 5, 6]));
    }
    // an array whose element type differs from the target's must be rejected although the variant matches: every ordered pair
    // of distinct element types x array lengths 0, 1, 2 (the empty array carries its element type in the tag only), as
    // Vec<T> and as Option<Vec<T>>
    {
        macro_rules! src_arrays {
            ($t:ty, $a:expr, $b:expr) => {{
                let e: Vec<$t> = vec![];
                let one: Vec<$t> = vec![$a];
                let two: Vec<$t> = vec![$a, $b];
                vec![(stringify!($t), Value::from(e)), (stringify!($t), Value::from(one)), (stringify!($t), Value::from(two))]
            }};
        }
        let mut sources: Vec<(&str, Value)> = vec![];
        sources.extend(src_arrays!(i32, 1, 2));
        sources.extend(src_arrays!(i64, 1, 2));
        sources.extend(src_arrays!(u32, 1, 2));
        sources.extend(src_arrays!(f32, 1.5, 2.5));
        sources.extend(src_arrays!(f64, 1.5, 2.5));
        sources.extend(src_arrays!(bool, true, false));
        sources.extend(src_arrays!(char, 'a', 'b'));
        sources.extend(src_arrays!(String, "x".to_string(), "y".to_string()));
        sources.extend(src_arrays!(uuid::Uuid, uuid::Uuid::from_u128(1), uuid::Uuid::from_u128(2)));
        type Utc = chrono::DateTime<chrono::Utc>;
        type Local = chrono::DateTime<chrono::Local>;
        type Fixed = chrono::DateTime<chrono::FixedOffset>;
        let t0 = chrono::DateTime::<chrono::Utc>::from_timestamp(86400, 0).unwrap();
        let t1 = chrono::DateTime::<chrono::Utc>::from_timestamp(172800, 0).unwrap();
        sources.extend(src_arrays!(Utc, t0, t1));
        sources.extend(src_arrays!(Local, t0.with_timezone(&chrono::Local), t1.with_timezone(&chrono::Local)));
        sources.extend(src_arrays!(Fixed, t0.with_timezone(&chrono::FixedOffset::east_opt(0).unwrap()), t1.with_timezone(&chrono::FixedOffset::east_opt(0).unwrap())));
        macro_rules! target {
            ($t:ty) => {
                for (sname, v) in &sources {
                    if *sname == stringify!($t) {
                        continue;
                    }
                    evals.inc();
                    match catch(|| <Vec<$t> as ValueType>::try_from(v.clone()).is_ok()) {
                        Ok(false) => {}
                        Ok(true) => cx.fail(&format!("cross<Vec<{}>>", stringify!($t)), "wrong-type-accepted", &format!("Array({sname})"), format!("Vec<{}>::try_from({:?}) returned Ok", stringify!($t), v)),
                        Err(p) => cx.fail(&format!("cross<Vec<{}>>", stringify!($t)), "panic", &format!("Array({sname})"), format!("Vec<{}>::try_from({:?}) panicked: {p}", stringify!($t), v)),
                    }
                    match catch(|| <Option<Vec<$t>> as ValueType>::try_from(v.clone()).map(|x| x.map(|v| v.len()))) {
                        Ok(Err(_)) => {}
                        Ok(Ok(x)) => cx.fail(&format!("cross<Option<Vec<{}>>>", stringify!($t)), "wrong-type-accepted", &format!("Array({sname})"), format!("Option<Vec<{}>>::try_from({:?}) returned Ok({:?})", stringify!($t), v, x)),
                        Err(p) => cx.fail(&format!("cross<Option<Vec<{}>>>", stringify!($t)), "panic", &format!("Array({sname})"), format!("Option<Vec<{}>>::try_from({:?}) panicked: {p}", stringify!($t), v)),
                    }
                }
            };
        }
        target!(i32);
        target!(i64);
        target!(u32);
        target!(f32);
        target!(f64);
        target!(bool);
        target!(char);
        target!(String);
        target!(uuid::Uuid);
        target!(Utc);
        target!(Local);
        target!(Fixed);
    }
    // ---- as_null / dummy_value on the whole pool (incl. NULLs)
    for v in &pool {
        evals.inc();
        let an = v.as_null();
        let dv = v.dummy_value();
        if variant(&an) != variant(v) || !is_null(&an) {
            cx.fail("as_null", "variant", &variant(v), format!("{:?}.as_null() = {:?}", v, an));
        }
        if variant(&dv) != variant(v) || is_null(&dv) {
            cx.fail("dummy_value", "variant", &variant(v), format!("{:?}.dummy_value() = {:?}", v, dv));
        }
    }
    // ---- tuples
    let mut tuple_cases = 0u64;
    tuple_cases += tuple_check!(&cx, 1, 0);
    tuple_cases += tuple_check!(&cx, 2, 0, 1);
    tuple_cases += tuple_check!(&cx, 3, 0, 1, 2);
    tuple_cases += tuple_check!(&cx, 4, 0, 1, 2, 3);
    tuple_cases += tuple_check!(&cx, 5, 0, 1, 2, 3, 4);
    tuple_cases += tuple_check!(&cx, 6, 0, 1, 2, 3, 4, 5);
    tuple_cases += tuple_check!(&cx, 7, 0, 1, 2, 3, 4, 5, 6);
    tuple_cases += tuple_check!(&cx, 8, 0, 1, 2, 3, 4, 5, 6, 7);
    tuple_cases += tuple_check!(&cx, 9, 0, 1, 2, 3, 4, 5, 6, 7, 8);
    tuple_cases += tuple_check!(&cx, 10, 0, 1, 2, 3, 4, 5, 6, 7, 8, 9);
    tuple_cases += tuple_check!(&cx, 11, 0, 1, 2, 3, 4, 5, 6, 7, 8, 9, 10);
    tuple_cases += tuple_check!(&cx, 12, 0, 1, 2, 3, 4, 5, 6, 7, 8, 9, 10, 11);
    domains.insert("tuples of arity 1..12 over a 3-value pool (all 3^n assignments)".into(), json!(tuple_cases));
    // arity mismatch must never silently succeed: every (source shape, target arity) pair
    {
        let mut sources: Vec<(usize, ValueTuple)> = vec![];
        let vals = |n: usize| -> Vec<Value> { (0..n).map(|i| Value::Int(Some(100 + i as i32))).collect() };
        sources.push((1, ValueTuple::One(vals(1)[0].clone())));
        sources.push((2, ValueTuple::Two(vals(2)[0].clone(), vals(2)[1].clone())));
        sources.push((3, ValueTuple::Three(vals(3)[0].clone(), vals(3)[1].clone(), vals(3)[2].clone())));
        for n in 0..=13 {
            sources.push((n, ValueTuple::Many(vals(n))));
        }
        macro_rules! target {
            ($m:tt, $($i:tt),+) => {{
                for (n, src) in &sources {
                    evals.inc();
                    let canonical = matches!((src, *n), (ValueTuple::One(_), 1) | (ValueTuple::Two(..), 2) | (ValueTuple::Three(..), 3)) || (matches!(src, ValueTuple::Many(_)) && *n >= 4);
                    let r = catch(|| tuple_from!(src.clone(), $m, $($i),+));
                    let want: Vec<i32> = (0..$m).map(|i| 100 + i as i32).collect();
                    match r {
                        Ok(got) if *n == $m && canonical && got == want => {}
                        Ok(got) if *n == $m && got == want => {} // a non-canonical shape of the right arity may be accepted
                        Ok(got) => cx.fail(&format!("tuple-arity<{}>", $m), "arity-mismatch-accepted", &format!("from{}", n), format!("from_value_tuple::<{}-tuple>({:?}) silently returned {:?}", $m, src, got)),
                        Err(_) if *n == $m && canonical => cx.fail(&format!("tuple-arity<{}>", $m), "matching-arity-rejected", &format!("from{}", n), format!("from_value_tuple::<{}-tuple>({:?}) panicked", $m, src)),
                        Err(_) => {}
                    }
                }
            }};
        }
        target!(1, 0);
        target!(2, 0, 1);
        target!(3, 0, 1, 2);
        target!(4, 0, 1, 2, 3);
        target!(5, 0, 1, 2, 3, 4);
        target!(6, 0, 1, 2, 3, 4, 5);
        target!(7, 0, 1, 2, 3, 4, 5, 6);
        target!(8, 0, 1, 2, 3, 4, 5, 6, 7);
        target!(9, 0, 1, 2, 3, 4, 5, 6, 7, 8);
        target!(10, 0, 1, 2, 3, 4, 5, 6, 7, 8, 9);
        target!(11, 0, 1, 2, 3, 4, 5, 6, 7, 8, 9, 10);
        target!(12, 0, 1, 2, 3, 4, 5, 6, 7, 8, 9, 10, 11);
        domains.insert("(source tuple shape, target arity) pairs: 17 shapes x 12 arities".into(), json!(17 * 12));
    }

    let n = evals.get();
    rep.set("config", json!(cfg));
    rep.set("domains", serde_json::Value::Object(domains));
    rep.set("states", json!(n));
    rep.set("transitions", json!(n));
    rep.set("traces_validated_against_impl", json!(n));
    rep.set("evaluations", json!(n));
    rep.set("distinct_nontrivial", json!(n));
    rep.set("rule", json!("each enumerated (type, value) / (variant, type) / tuple assignment is a distinct case, run through the real From / ValueType / Nullable / tuple impls; all are non-trivial (each exercises a conversion)"));
    rep.set("exhaustive", json!(true));
    rep.sample(json!({"type": "f32", "bits": "0x7fc00001", "value_debug": format!("{:?}", Value::from(f32::from_bits(0x7fc00001)))}));
    rep.sample(json!({"cross": "i32::try_from(Value::BigInt(None))", "result": format!("{:?}", <i32 as ValueType>::try_from(Value::BigInt(None)).is_ok())}));
    rep.sample(json!({"tuple": "(1, 12, 23, 31) -> ValueTuple::Many -> (i32,i32,i32,i32)"}));
    // merge the sub-run of the other configuration if the driver produced one
    if let Ok(t) = std::fs::read_to_string(format!("{}/evidence/C12.plain.json", crate::report::VERIF)) {
        if let Ok(j) = serde_json::from_str::<serde_json::Value>(&t) {
            if cfg == "full" {
                rep.set("plain_config_run", json!({"evaluations": j["coverage"]["evaluations"], "violations": j["violations"], "wall_s": j["wall_s"]}));
            }
        }
    }
}

pub fn replay(case: &serde_json::Value) -> Option<String> {
    // C12 cases are (site, class) pairs; re-run the whole (cheap) quick sweep and report that site
    let site = case["site"].as_str().unwrap_or("").to_string();
    let rep = Arc::new(Report::new("C12", "quick"));
    run(&rep);
    rep.find_violation(&site)
}
