//! C02 — inline rendering and parameterised rendering are the same statement (DESIGN §3.2).
//!
//! Every state of the SELECT / INSERT / UPDATE / DELETE state machines x 3 backends, plus a sweep of
//! every Value variant through several statement positions:
//!  (a) replacing, left to right, the placeholders of build(B) (located by the reference lexer) by
//!      B.value_to_string(value_i) gives exactly to_string(B);
//!  (b) build / build_any / build_collect / build_collect_any / build_collect_into / to_string agree,
//!      rendering twice agrees, rendering does not modify the statement;
//!  (c) on SQLite both forms execute to the same rows / effects on a real engine;
//!  (d) every inlined literal, decoded independently (reference lexer + the value type's own parser),
//!      gives back the bound value.

use crate::dml::{dml_menu, run_dml, DSpec, DStmt, DSys, DmlModel, Kind};
use crate::explore::{explore, replay_ops, Fail};
use crate::lex::{lex, Dialect, LexTok, Tok, DIALECTS};
use crate::qmodel::*;
use crate::report::{Report, Violation};
use crate::smodel::{bind_value, row_list, select_menu, with_db, SelModel, SelSys};
use crate::util::{catch, Counter};
use sea_query::*;
use serde_json::json;
use std::sync::Arc;

pub static CHECKED: Counter = Counter::new();
pub static ENGINE: Counter = Counter::new();
pub static LITERALS: Counter = Counter::new();

fn vts(d: Dialect, v: &Value) -> String {
    match d {
        Dialect::Mysql => MysqlQueryBuilder.value_to_string(v),
        Dialect::Postgres => PostgresQueryBuilder.value_to_string(v),
        Dialect::Sqlite => SqliteQueryBuilder.value_to_string(v),
    }
}

/// (a): substitute placeholders by the backend's literal
pub fn substitute(d: Dialect, sql: &str, vals: &[Value]) -> Result<String, String> {
    let toks = lex(d, sql).map_err(|e| format!("build SQL does not lex: {}", e.msg))?;
    let params: Vec<&LexTok> = toks.iter().filter(|t| matches!(t.tok, Tok::Param(_))).collect();
    if params.len() != vals.len() {
        return Err(format!("{} placeholders, {} values", params.len(), vals.len()));
    }
    let mut out = String::new();
    let mut pos = 0;
    for (i, p) in params.iter().enumerate() {
        out.push_str(&sql[pos..p.start]);
        let idx = match (d, &p.tok) {
            (Dialect::Postgres, Tok::Param(Some(n))) => (*n as usize).checked_sub(1).ok_or("placeholder $0")?,
            _ => i,
        };
        out.push_str(&vts(d, vals.get(idx).ok_or("placeholder number out of range")?));
        pos = p.end;
    }
    out.push_str(&sql[pos..]);
    Ok(out)
}

/// (d): decode the literal that stands where placeholder i stands, independently of value_to_string
fn literal_matches(d: Dialect, toks: &[LexTok], at: usize, v: &Value) -> Result<usize, String> {
    // returns the number of tokens the literal occupies
    let tok = |k: usize| toks.get(at + k).map(|t| &t.tok);
    let num = |neg_ok: bool| -> Option<(String, usize)> {
        match (tok(0), tok(1)) {
            (Some(Tok::Num(n)), _) => Some((n.clone(), 1)),
            (Some(Tok::Punct(p)), Some(Tok::Num(n))) if p == "-" && neg_ok => Some((format!("-{n}"), 2)),
            _ => None,
        }
    };
    let bad = |what: &str| Err(format!("value {:?} is inlined as {:?} ({what})", v, toks.get(at).map(|t| &t.tok)));
    macro_rules! int {
        ($x:expr) => {{
            match num(true) {
                Some((s, n)) if s.parse::<i128>().ok() == Some(*$x as i128) => Ok(n),
                _ => bad("integer literal expected"),
            }
        }};
    }
    match v {
        Value::Bool(Some(b)) => match tok(0) {
            Some(Tok::Word(w)) if w.eq_ignore_ascii_case(if *b { "TRUE" } else { "FALSE" }) => Ok(1),
            _ => bad("TRUE / FALSE expected"),
        },
        Value::TinyInt(Some(x)) => int!(x),
        Value::SmallInt(Some(x)) => int!(x),
        Value::Int(Some(x)) => int!(x),
        Value::BigInt(Some(x)) => int!(x),
        Value::TinyUnsigned(Some(x)) => int!(x),
        Value::SmallUnsigned(Some(x)) => int!(x),
        Value::Unsigned(Some(x)) => int!(x),
        Value::BigUnsigned(Some(x)) => int!(x),
        Value::Float(Some(f)) => match num(true) {
            Some((s, n)) if s.parse::<f32>().ok().map(|g| g.to_bits()) == Some(f.to_bits()) => Ok(n),
            _ => bad("float literal that parses back to the same f32 expected"),
        },
        Value::Double(Some(f)) => match num(true) {
            Some((s, n)) if s.parse::<f64>().ok().map(|g| g.to_bits()) == Some(f.to_bits()) => Ok(n),
            _ => bad("float literal that parses back to the same f64 expected"),
        },
        Value::String(Some(s)) => match tok(0) {
            Some(Tok::Str(t)) if t == s.as_str() => Ok(1),
            _ => bad("string literal with equal content expected"),
        },
        Value::Char(Some(c)) => match tok(0) {
            Some(Tok::Str(t)) if *t == c.to_string() => Ok(1),
            _ => bad("string literal with equal content expected"),
        },
        Value::Bytes(Some(b)) => match tok(0) {
            Some(Tok::Blob(x)) if d != Dialect::Postgres && x == &**b => Ok(1),
            Some(Tok::Str(t)) if d == Dialect::Postgres && crate::lex::pg_bytea_hex(t).as_deref() == Some(&b[..]) => Ok(1),
            _ => bad("blob literal with equal content expected"),
        },
        Value::Json(Some(j)) => match tok(0) {
            Some(Tok::Str(t)) if serde_json::from_str::<serde_json::Value>(t).ok().as_ref() == Some(&**j) => Ok(1),
            _ => bad("string literal holding the same JSON document expected"),
        },
        Value::ChronoDate(Some(x)) => match tok(0) {
            Some(Tok::Str(t)) if chrono::NaiveDate::parse_from_str(t, "%Y-%m-%d").ok() == Some(**x) => Ok(1),
            _ => bad("date literal expected"),
        },
        Value::ChronoTime(Some(x)) => match tok(0) {
            Some(Tok::Str(t)) if chrono::NaiveTime::parse_from_str(t, "%H:%M:%S%.f").ok() == Some(**x) => Ok(1),
            _ => bad("time literal that parses back to the same time expected"),
        },
        Value::ChronoDateTime(Some(x)) => match tok(0) {
            Some(Tok::Str(t)) if chrono::NaiveDateTime::parse_from_str(t, "%Y-%m-%d %H:%M:%S%.f").ok() == Some(**x) => Ok(1),
            _ => bad("datetime literal that parses back to the same datetime expected"),
        },
        Value::ChronoDateTimeUtc(Some(x)) => match tok(0) {
            Some(Tok::Str(t)) if chrono::DateTime::parse_from_str(t, "%Y-%m-%d %H:%M:%S%.f %:z").ok().map(|p| p.with_timezone(&chrono::Utc)) == Some(**x) => Ok(1),
            _ => bad("timestamp literal that parses back to the same instant expected"),
        },
        Value::ChronoDateTimeWithTimeZone(Some(x)) => match tok(0) {
            Some(Tok::Str(t)) if chrono::DateTime::parse_from_str(t, "%Y-%m-%d %H:%M:%S%.f %:z").ok() == Some(**x) => Ok(1),
            _ => bad("timestamp literal that parses back to the same instant expected"),
        },
        Value::Uuid(Some(x)) => match tok(0) {
            Some(Tok::Str(t)) if uuid::Uuid::parse_str(t).ok() == Some(**x) => Ok(1),
            _ => bad("uuid literal expected"),
        },
        Value::Decimal(Some(x)) => match num(true) {
            Some((s, n)) if s.parse::<rust_decimal::Decimal>().ok() == Some(**x) => Ok(n),
            _ => bad("decimal literal expected"),
        },
        Value::BigDecimal(Some(x)) => match num(true) {
            Some((s, n)) if s.parse::<bigdecimal::BigDecimal>().ok().as_ref() == Some(&**x) => Ok(n),
            _ => bad("decimal literal expected"),
        },
        // NULL of any variant
        other if crate::props::c12::is_null(other) => match tok(0) {
            Some(Tok::Word(w)) if w.eq_ignore_ascii_case("NULL") => Ok(1),
            _ => bad("NULL expected"),
        },
        // other types: not decoded independently (their literal form is engine specific); accept one string / number token
        _ => match tok(0) {
            Some(Tok::Str(_)) | Some(Tok::Num(_)) | Some(Tok::Blob(_)) => Ok(1),
            Some(Tok::Word(w)) if w.eq_ignore_ascii_case("ARRAY") => {
                // ARRAY [ ... ]
                let mut k = 1;
                let mut depth = 0;
                loop {
                    match tok(k) {
                        Some(Tok::Punct(p)) if p == "[" => depth += 1,
                        Some(Tok::Punct(p)) if p == "]" => {
                            depth -= 1;
                            if depth == 0 {
                                return Ok(k + 1);
                            }
                        }
                        None => return bad("unterminated ARRAY literal"),
                        _ => {}
                    }
                    k += 1;
                }
            }
            _ => bad("one literal expected"),
        },
    }
}

/// the whole C02 oracle for one statement on one dialect, given closures for its entry points
pub struct Entry<'a> {
    pub to_string: &'a dyn Fn() -> String,
    pub build: &'a dyn Fn() -> (String, Values),
    pub build_any: &'a dyn Fn() -> (String, Values),
    pub build_collect: &'a dyn Fn() -> (String, String, Values),
    pub debug: &'a dyn Fn() -> String,
}

pub fn check_entry(d: Dialect, e: &Entry) -> Vec<Fail> {
    let mut fails = vec![];
    let before = (e.debug)();
    let r = catch(|| ((e.to_string)(), (e.build)(), (e.build_any)(), (e.build_collect)(), (e.to_string)(), (e.build)()));
    let (inline, (bsql, bvals), (asql, avals), (csql, cwsql, cvals), inline2, (bsql2, bvals2)) = match r {
        Ok(x) => x,
        Err(_) => return fails, // panics (unsupported constructs) are judged by C01 / C07
    };
    CHECKED.inc();
    let name = d.name();
    if (e.debug)() != before {
        fails.push(Fail::new("rendering-modifies-statement", format!("{name}: Debug of the statement changed by rendering")));
    }
    if inline != inline2 || bsql != bsql2 || format!("{:?}", bvals) != format!("{:?}", bvals2) {
        fails.push(Fail::new("rendering-not-repeatable", format!("{name}: rendering twice gave {:?} then {:?}", inline, inline2)));
    }
    if asql != bsql || format!("{:?}", avals) != format!("{:?}", bvals) {
        fails.push(Fail::new("entry-points-disagree", format!("{name}: build = {:?} {:?}; build_any = {:?} {:?}", bsql, bvals.0, asql, avals.0)));
    }
    if csql != bsql || format!("{:?}", cvals) != format!("{:?}", bvals) || cwsql != inline {
        fails.push(Fail::new("entry-points-disagree", format!("{name}: build = {:?}; build_collect = {:?}; build_collect_into(String) = {:?}; to_string = {:?}", bsql, csql, cwsql, inline)));
    }
    // (a)
    match substitute(d, &bsql, &bvals.0) {
        Ok(s) if s == inline => {}
        Ok(s) => fails.push(Fail::new("inline-is-not-build-with-literals", format!("{name}: build {:?} with values substituted gives {:?}, to_string gives {:?}", bsql, s, inline))),
        Err(m) => fails.push(Fail::new("inline-is-not-build-with-literals", format!("{name}: build {:?}: {m}; to_string {:?}", bsql, inline))),
    }
    // (d): walk both token streams
    if let (Ok(bt), Ok(it)) = (lex(d, &bsql), lex(d, &inline)) {
        let (mut i, mut j, mut k) = (0usize, 0usize, 0usize);
        while i < bt.len() {
            if let Tok::Param(pn) = &bt[i].tok {
                let idx = match (d, pn) {
                    (Dialect::Postgres, Some(n)) => (*n as usize).saturating_sub(1),
                    _ => k,
                };
                k += 1;
                let Some(v) = bvals.0.get(idx) else { break };
                LITERALS.inc();
                match literal_matches(d, &it, j, v) {
                    Ok(n) => j += n,
                    Err(m) => {
                        fails.push(Fail::new("inlined-literal-differs-from-bound-value", format!("{name}: {:?} vs {:?}: {m}", bsql, inline)));
                        break;
                    }
                }
                i += 1;
            } else {
                if it.get(j).map(|t| &t.tok) != Some(&bt[i].tok) {
                    fails.push(Fail::new("modes-differ-in-structure", format!("{name}: token {} differs: build {:?} / inline {:?} in {:?} vs {:?}", i, bt[i].tok, it.get(j).map(|t| &t.tok), bsql, inline)));
                    break;
                }
                i += 1;
                j += 1;
            }
        }
    }
    fails
}

macro_rules! entry_for {
    ($stmt:expr, $d:expr, $B:expr) => {{
        let s = $stmt;
        check_entry(
            $d,
            &Entry {
                to_string: &|| s.to_string($B),
                build: &|| s.build($B),
                build_any: &|| s.build_any(&$B),
                build_collect: &|| {
                    let mut w = SqlWriterValues::new(if $d == Dialect::Postgres { "$" } else { "?" }, $d == Dialect::Postgres);
                    let a = s.build_collect($B, &mut w);
                    let (b, v) = w.into_parts();
                    let _ = a;
                    let mut sw = String::new();
                    s.build_collect_into($B, &mut sw);
                    (b, sw, v)
                },
                debug: &|| format!("{:?}", s),
            },
        )
    }};
}

fn entry_all<S>(s: &S, d: Dialect) -> Vec<Fail>
where
    S: QueryStatementWriter + std::fmt::Debug,
{
    match d {
        Dialect::Mysql => entry_for!(s, d, MysqlQueryBuilder),
        Dialect::Postgres => entry_for!(s, d, PostgresQueryBuilder),
        Dialect::Sqlite => entry_for!(s, d, SqliteQueryBuilder),
    }
}

pub fn check_select(sys: &SelSys, _spec: &SelSpec) -> Vec<Fail> {
    let mut fails = vec![];
    for d in DIALECTS {
        fails.extend(entry_all(sys.stmt(d), d));
    }
    // (c) engine
    if let (Ok(inline), Ok((bsql, bvals))) = (catch(|| sys.q.to_string(SqliteQueryBuilder)), catch(|| sys.q.build(SqliteQueryBuilder))) {
        if let Some(binds) = bvals.0.iter().map(bind_value).collect::<Option<Vec<_>>>() {
            let a = with_db(|db| db.query(&inline, &[]));
            let b = with_db(|db| db.query(&bsql, &binds));
            match (a, b) {
                (Ok(x), Ok(y)) => {
                    ENGINE.inc();
                    if row_list(&x) != row_list(&y) {
                        fails.push(Fail::new("engine-rows-differ-between-modes", format!("sqlite3: {inline:?} returns {:?}; {bsql:?} with {:?} returns {:?}", row_list(&x), bvals.0, row_list(&y))));
                    }
                }
                (Ok(_), Err(e)) | (Err(e), Ok(_)) => fails.push(Fail::new("engine-accepts-only-one-mode", format!("sqlite3 accepts only one of {inline:?} / {bsql:?}: {e}"))),
                _ => {}
            }
        }
    }
    fails
}

pub fn check_dml(_kind: Kind, sys: &DSys, _spec: &DSpec) -> Vec<Fail> {
    let mut fails = vec![];
    for d in DIALECTS {
        match sys.stmt(d) {
            DStmt::Ins(s) => fails.extend(entry_all(s, d)),
            DStmt::Upd(s) => fails.extend(entry_all(s, d)),
            DStmt::Del(s) => fails.extend(entry_all(s, d)),
        }
    }
    if let (Ok(inline), Ok((bsql, bvals))) = (catch(|| sys.q.to_string_d(Dialect::Sqlite)), catch(|| sys.q.build_d(Dialect::Sqlite))) {
        if let Some(binds) = bvals.0.iter().map(bind_value).collect::<Option<Vec<_>>>() {
            match (run_dml(&inline, &[]), run_dml(&bsql, &binds)) {
                (Ok(x), Ok(y)) => {
                    ENGINE.inc();
                    if x != y {
                        fails.push(Fail::new("engine-effect-differs-between-modes", format!("sqlite3: {inline:?} has effect {:?}; {bsql:?} with {:?} has {:?}", x, bvals.0, y)));
                    }
                }
                (Ok(_), Err(e)) | (Err(e), Ok(_)) => fails.push(Fail::new("engine-accepts-only-one-mode", format!("sqlite3 accepts only one of {inline:?} / {bsql:?}: {e}"))),
                _ => {}
            }
        }
    }
    fails
}

/// every Value variant (all features), finite floats on exact grids, NULL of every variant
pub fn value_pool() -> Vec<Value> {
    use chrono::TimeZone;
    let mut p: Vec<Value> = vec![];
    for b in [true, false] {
        p.push(b.into());
    }
    for x in [0i8, -1, i8::MIN, i8::MAX] {
        p.push(x.into());
    }
    for x in [0i16, -1, i16::MIN, i16::MAX] {
        p.push(x.into());
    }
    for x in [0i32, -1, i32::MIN, i32::MAX] {
        p.push(x.into());
    }
    for x in [0i64, -1, i64::MIN, i64::MAX] {
        p.push(x.into());
    }
    for x in [0u8, u8::MAX] {
        p.push(x.into());
    }
    for x in [0u16, u16::MAX] {
        p.push(x.into());
    }
    for x in [0u32, u32::MAX] {
        p.push(x.into());
    }
    for x in [0u64, i64::MAX as u64, u64::MAX] {
        p.push(x.into());
    }
    for x in [0.0f32, 1.0, -1.0, 0.5, 1.5, -2.25, 3.0e10, 1.0e-3, 16777216.0, f32::MAX, f32::MIN_POSITIVE, 0.1] {
        p.push(x.into());
    }
    for x in [0.0f64, 1.0, -1.0, 0.5, 1.5, 1.0e300, 1.0e-300, 9007199254740993.0, 0.1, 1.0e15, 1.0e16, f64::MAX, 5e-324] {
        p.push(x.into());
    }
    for s in ["", "a", "it's", "back\\slash", "q\"q", "new\nline\ttab", "é😀", "100%_", "ends with \\", "?", "$1", "'; DROP TABLE t1; --", "café d'Or", "你好\n", "naïve \\ \"q\" 😀'", "null", "NULL", "CURRENT_TIMESTAMP", "true", "DEFAULT"] {
        p.push(s.to_string().into());
    }
    for c in ['a', '\'', '\\', 'é', '😀', '\n', '\u{1a}', '"'] {
        p.push(c.into());
    }
    for b in [vec![], vec![0u8], vec![0x27, 0x5c, 0xff], b"abc".to_vec()] {
        p.push(b.into());
    }
    // large payloads (a text and a blob of 100 bytes, a 300-byte text): anything keyed on size sees them
    p.push("0123456789".repeat(10).into());
    p.push("long 'text' \\ ".repeat(20).into());
    p.push((0u8..100).collect::<Vec<u8>>().into());
    for j in [json!(null), json!(1), json!("it's"), json!({"k": [1, "x\\y", {"z": null}]}), json!([1.5, true])] {
        p.push(j.into());
    }
    let d = chrono::NaiveDate::from_ymd_opt(2020, 2, 29).unwrap();
    p.push(d.into());
    p.push(chrono::NaiveDate::from_ymd_opt(1, 1, 1).unwrap().into());
    let t = chrono::NaiveTime::from_hms_opt(23, 59, 59).unwrap();
    p.push(t.into());
    p.push(chrono::NaiveTime::from_hms_micro_opt(1, 2, 3, 456789).unwrap().into());
    p.push(d.and_time(t).into());
    p.push(d.and_time(chrono::NaiveTime::from_hms_micro_opt(1, 2, 3, 500000).unwrap()).into());
    p.push(chrono::Utc.from_utc_datetime(&d.and_time(t)).into());
    p.push(chrono::Utc.from_utc_datetime(&d.and_time(chrono::NaiveTime::from_hms_micro_opt(1, 2, 3, 250000).unwrap())).into());
    p.push(chrono::FixedOffset::west_opt(3600).unwrap().from_utc_datetime(&d.and_time(chrono::NaiveTime::from_hms_milli_opt(1, 2, 3, 7).unwrap())).into());
    p.push(chrono::FixedOffset::east_opt(19800).unwrap().from_utc_datetime(&d.and_time(t)).into());
    let td = time::Date::from_calendar_date(2020, time::Month::February, 29).unwrap();
    p.push(td.into());
    p.push(time::Time::from_hms(1, 2, 3).unwrap().into());
    p.push(time::PrimitiveDateTime::new(td, time::Time::from_hms_micro(1, 2, 3, 456789).unwrap()).into());
    p.push(time::PrimitiveDateTime::new(td, time::Time::MIDNIGHT).assume_offset(time::UtcOffset::from_hms(5, 30, 0).unwrap()).into());
    // days on which the ISO week-based year differs from the calendar year, the last and first day of a year, a leap day
    // in a century year, the earliest and latest four-digit years - in every date-carrying type of both date crates
    for (y, m, dd) in [(2021, 1, 1), (2024, 12, 30), (2020, 12, 31), (2000, 2, 29), (1000, 1, 1), (9999, 12, 31)] {
        let cd = chrono::NaiveDate::from_ymd_opt(y, m, dd).unwrap();
        let ct = chrono::NaiveTime::from_hms_opt(0, 0, 0).unwrap();
        p.push(cd.into());
        p.push(cd.and_time(ct).into());
        p.push(chrono::Utc.from_utc_datetime(&cd.and_time(ct)).into());
        p.push(chrono::FixedOffset::east_opt(3600).unwrap().from_utc_datetime(&cd.and_time(ct)).into());
        let tdd = time::Date::from_calendar_date(y, time::Month::try_from(m as u8).unwrap(), dd as u8).unwrap();
        p.push(tdd.into());
        p.push(time::PrimitiveDateTime::new(tdd, time::Time::MIDNIGHT).into());
        p.push(time::PrimitiveDateTime::new(tdd, time::Time::MIDNIGHT).assume_utc().into());
    }
    p.push(uuid::Uuid::from_u128(0x0123456789abcdef0123456789abcdef).into());
    for (m, s) in [(0i64, 0u32), (15, 1), (-15, 3), (i64::MAX, 10), (100, 2)] {
        p.push(rust_decimal::Decimal::new(m, s).into());
    }
    for s in ["0", "1.50", "-123456789012345678901234567890.000000000000000000001", "1e10"] {
        p.push(s.parse::<bigdecimal::BigDecimal>().unwrap().into());
    }
    p.push(vec![1i32, 2].into());
    p.push(vec!["a'b".to_string()].into());
    p.push(Vec::<i32>::new().into());
    p.push("10.0.0.1/8".parse::<ipnetwork::IpNetwork>().unwrap().into());
    p.push(mac_address::MacAddress::new([1, 2, 3, 4, 5, 6]).into());
    p.push(pgvector::Vector::from(vec![1.0f32, -0.5]).into());
    // NULL of every variant
    let mut nulls: Vec<Value> = vec![];
    let mut seen = std::collections::HashSet::new();
    for v in &p {
        let n = v.as_null();
        if seen.insert(format!("{:?}", n)) {
            nulls.push(n);
        }
    }
    p.extend(nulls);
    p
}

fn a(s: &str) -> Alias {
    Alias::new(s)
}

/// the value sweep: every pool value in six statement positions x 3 backends
fn value_sweep(rep: &Report) -> u64 {
    let pool = value_pool();
    let mut cases = 0u64;
    for v in &pool {
        let stmts: Vec<(&str, Box<dyn Fn(Dialect) -> Vec<Fail>>)> = vec![
            ("select-value", Box::new(|d| entry_all(Query::select().expr(Expr::val(v.clone())), d))),
            ("where-eq", Box::new(|d| entry_all(Query::select().column(a("a")).from(a("t1")).and_where(Expr::col(a("s")).eq(Expr::val(v.clone()))), d))),
            ("in-list", Box::new(|d| entry_all(Query::select().column(a("a")).from(a("t1")).and_where(Expr::col(a("s")).is_in([v.clone(), v.clone()])), d))),
            ("insert-value", Box::new(|d| entry_all(Query::insert().into_table(a("t1")).columns([a("s"), a("a")]).values_panic([Expr::val(v.clone()).into(), 1.into()]), d))),
            ("update-value", Box::new(|d| entry_all(Query::update().table(a("t1")).value(a("s"), Expr::val(v.clone())).and_where(Expr::col(a("id")).eq(2)), d))),
            ("case-then", Box::new(|d| entry_all(Query::select().expr(CaseStatement::new().case(Expr::col(a("a")).gt(1), Expr::val(v.clone())).finally(Expr::val(v.clone()))).from(a("t1")), d))),
            ("divide-by-two", Box::new(|d| entry_all(Query::select().expr(Expr::val(v.clone()).div(2)), d))),
            ("subtract", Box::new(|d| entry_all(Query::select().expr(Expr::col(a("a")).sub(Expr::val(v.clone()))).expr(Expr::val(v.clone()).sub(Expr::val(v.clone()))).from(a("t1")), d))),
            ("from-values", Box::new(|d| entry_all(Query::select().column(Asterisk).from_values([(v.clone(), 1i32)], a("x")), d))),
            ("in-tuples", Box::new(|d| entry_all(Query::select().column(a("a")).from(a("t1")).and_where(Expr::tuple([Expr::col(a("s")).into(), Expr::col(a("a")).into()]).in_tuples([(v.clone(), 1i32), (v.clone(), 2i32)])), d))),
            ("function-table-argument", Box::new(|d| entry_all(Query::select().column(Asterisk).from_function(Func::cust(a("gen")).arg(v.clone()).arg(1), a("g")), d))),
            ("group-by-having-order-by", Box::new(|d| entry_all(Query::select().expr(Func::count(Expr::col(Asterisk))).from(a("t1")).add_group_by([Func::coalesce([Expr::col(a("s")).into(), Expr::val(v.clone()).into()]).into()]).and_having(Func::max(Expr::col(a("s"))).ne(v.clone())).order_by_expr(Func::coalesce([Expr::col(a("s")).into(), Expr::val(v.clone()).into()]).into(), Order::Desc).limit(2), d))),
            ("window-partition", Box::new(|d| entry_all(Query::select().expr_window_as(Func::count(Expr::col(Asterisk)), WindowStatement::partition_by_custom("1").add_partition_by(Func::coalesce([Expr::col(a("s")).into(), Expr::val(v.clone()).into()]).into()).order_by_expr(Func::coalesce([Expr::col(a("s")).into(), Expr::val(v.clone()).into()]).into(), Order::Asc).frame_start(FrameType::Rows, Frame::Preceding(2)).to_owned(), a("w")).from(a("t1")), d))),
            ("join-on-and-subquery", Box::new(|d| entry_all(Query::select().column(a("a")).from(a("t1")).join(JoinType::LeftJoin, a("t2"), Expr::col((a("t2"), a("s"))).eq(v.clone())).and_where(Expr::col(a("a")).in_subquery(Query::select().column(a("c")).from(a("t2")).and_where(Expr::col(a("s")).ne(v.clone())).to_owned())).and_where(Expr::exists(Query::select().expr(Expr::val(v.clone())).to_owned())), d))),
            ("on-conflict-value", Box::new(|d| entry_all(Query::insert().into_table(a("t1")).columns([a("id"), a("s")]).values_panic([1.into(), Expr::val(v.clone()).into()]).on_conflict(OnConflict::column(a("id")).value(a("s"), Expr::val(v.clone())).to_owned()), d))),
            ("order-by-field", Box::new(|d| entry_all(Query::select().column(a("a")).from(a("t1")).order_by(a("s"), Order::Field(Values(vec![v.clone(), v.clone()]))), d))),
            ("like-escape", Box::new(|d| entry_all(Query::select().column(a("a")).from(a("t1")).and_where(Expr::col(a("s")).like(LikeExpr::new("a%").escape('!'))).and_where(Expr::col(a("s")).ne(v.clone())), d))),
        ];
        for (pos, f) in &stmts {
            for d in DIALECTS {
                if matches!(v, Value::Array(..) | Value::Vector(_)) && d != Dialect::Postgres {
                    continue; // array / vector literals exist on PostgreSQL only
                }
                cases += 1;
                for fail in f(d) {
                    rep.raw_failures.inc();
                    rep.violation(Violation {
                        key: format!("value-sweep|{}|{}|{}|{}", pos, d.name(), fail.sig, crate::props::c12::variant(v)),
                        what: format!("{pos} with {:?}: {}", v, fail.detail),
                        case: json!({"sweep": pos, "dialect": d.name(), "variant": crate::props::c12::variant(v), "value": format!("{:?}", v)}),
                    });
                }
            }
        }
        // (c) engine, core types only: SELECT the value inline and bound
        let widening_exact = match v {
            Value::Float(Some(f)) => (*f as f64).to_string() == f.to_string(),
            _ => true,
        };
        if let (Some(b), true) = (bind_value(v), widening_exact) {
            let numeric = matches!(v, Value::TinyInt(_) | Value::SmallInt(_) | Value::Int(_) | Value::BigInt(_) | Value::TinyUnsigned(_) | Value::SmallUnsigned(_) | Value::Unsigned(_) | Value::BigUnsigned(_) | Value::Float(_) | Value::Double(_));
            let q = if numeric { Query::select().expr(Expr::val(v.clone())).expr(Expr::val(v.clone()).div(2)).to_owned() } else { Query::select().expr(Expr::val(v.clone())).to_owned() };
            let b = b.clone();
            let binds = if numeric { vec![b.clone(), b.clone(), crate::sqlite::SqlVal::Int(2)] } else { vec![b.clone()] };
            let inline = q.to_string(SqliteQueryBuilder);
            let (bsql, _) = q.build(SqliteQueryBuilder);
            let x = with_db(|db| db.query(&inline, &[]));
            let y = with_db(|db| db.query(&bsql, &binds));
            ENGINE.inc();
            let same = match (&x, &y) {
                (Ok(x), Ok(y)) => row_list(x) == row_list(y),
                _ => false,
            };
            if !same {
                rep.raw_failures.inc();
                rep.violation(Violation {
                    key: format!("value-sweep|engine|sqlite|engine-rows-differ-between-modes|{}", crate::props::c12::variant(v)),
                    what: format!("sqlite3: {inline:?} returns {:?}; {bsql:?} with {:?} bound returns {:?}", x.as_ref().map(row_list), v, y.as_ref().map(row_list)),
                    case: json!({"sweep": "engine", "dialect": "sqlite", "variant": crate::props::c12::variant(v), "value": format!("{:?}", v)}),
                });
            }
        }
    }
    cases
}

/// WITH queries (`WithClause::query`, `<statement>.with(clause)`): the top-level `WithQuery` has entry points of its own.
/// Every combination of 1..2 CTEs x column list x materialisation x SEARCH / CYCLE x body kind (SELECT, INSERT .. SELECT,
/// UPDATE, DELETE) goes through the same entry-point and substitution checks as the plain statements.
fn with_query_family(rep: &Report) -> u64 {
    let mut n = 0u64;
    for n_ctes in 1..=2usize {
        for cols in [false, true] {
            for mat in [None, Some(true), Some(false)] {
                for rec in 0..4u32 {
                    for body in ["select", "insert", "update", "delete"] {
                        let (search, cycle) = (rec & 1 != 0, rec & 2 != 0);
                        if (search || cycle) && n_ctes != 1 {
                            continue; // a recursive WITH clause takes exactly one CTE
                        }
                        let mk = || {
                            let mut w = WithClause::new();
                            for i in 0..n_ctes {
                                let mut c = CommonTableExpression::new();
                                c.query(Query::select().column(a("id")).from(a("t1")).and_where(Expr::col(a("id")).gt(i as i32 + 10)).and_where(Expr::col(a("s")).ne("it's")).to_owned()).table_name(a(&format!("c{i}")));
                                if cols {
                                    c.column(a("k"));
                                }
                                if let Some(m) = mat {
                                    c.materialized(m);
                                }
                                w.cte(c);
                            }
                            if search || cycle {
                                w.recursive(true);
                            }
                            if search {
                                w.search(Search::new_from_order_and_expr(SearchOrder::BREADTH, SelectExpr { expr: Expr::col(a("k")).into(), alias: Some(a("ord").into_iden()), window: None }));
                            }
                            if cycle {
                                w.cycle(Cycle::new_from_expr_set_using(Expr::col(a("k")), a("looped"), a("path")));
                            }
                            let sel = Query::select().column(a("k")).from(a("c0")).and_where(Expr::col(a("k")).lt(99)).to_owned();
                            match body {
                                "select" => w.query(sel),
                                "insert" => Query::insert().into_table(a("t1")).columns([a("a")]).select_from(sel).unwrap().to_owned().with(w),
                                "update" => Query::update().table(a("t1")).value(a("a"), 5).and_where(Expr::col(a("id")).in_subquery(sel)).to_owned().with(w),
                                _ => Query::delete().from_table(a("t1")).and_where(Expr::col(a("id")).in_subquery(sel)).to_owned().with(w),
                            }
                        };
                        let Ok(q) = catch(mk) else { continue };
                        for d in DIALECTS {
                            n += 1;
                            for fail in entry_all(&q, d) {
                                rep.raw_failures.inc();
                                rep.violation(Violation {
                                    key: format!("with-query|{}|{}|{body}{}{}", d.name(), fail.sig, if search { ";search" } else { "" }, if cycle { ";cycle" } else { "" }),
                                    what: format!("WITH query ({n_ctes} CTEs, columns={cols}, materialized={mat:?}, search={search}, cycle={cycle}, body {body}): {}", fail.detail),
                                    case: json!({"with_query": body, "dialect": d.name()}),
                                });
                            }
                        }
                    }
                }
            }
        }
    }
    n
}

pub fn run(rep: &Arc<Report>) {
    let (ds, dd) = if rep.thorough() { (4, 5) } else { (3, 4) };
    let m = SelModel { name: "select", menu: select_menu(rep.thorough(), false), checks: vec![Box::new(check_select)], sqlite_only: false };
    let st = explore(&m, ds, u64::MAX, rep);
    let mut states = st.states;
    let mut transitions = st.transitions;
    let mut outcomes = st.outcomes;
    let mut exhaustive = st.exhaustive;
    for kind in [Kind::Insert, Kind::Update, Kind::Delete] {
        let dm = DmlModel { kind, menu: dml_menu(kind, rep.thorough()), checks: vec![Box::new(check_dml)] };
        let s2 = explore(&dm, dd, u64::MAX, rep);
        states += s2.states;
        transitions += s2.transitions;
        outcomes += s2.outcomes;
        exhaustive &= s2.exhaustive;
    }
    // statements binding many values: the counts of C01 (every count to 12, both sides of 100 / 256 / 1000 ..) through every
    // entry point and the substitution check; the first failing count of a (shape, dialect, signature) is reported
    let mut many = 0u64;
    for shape in 0..2usize {
        for d in DIALECTS {
            let mut reported: std::collections::HashSet<String> = Default::default();
            for &k in &crate::props::c01::many_value_counts(rep.thorough()) {
                many += 1;
                let (q, _) = crate::props::c01::many_values_statement(shape, k);
                let fails = match &q {
                    crate::props::c01::ManyStmt::Sel(q) => entry_all(q, d),
                    crate::props::c01::ManyStmt::Ins(q) => entry_all(q, d),
                };
                for fail in fails {
                    rep.raw_failures.inc();
                    if reported.insert(fail.sig.clone()) {
                        let det: String = fail.detail.chars().take(500).collect();
                        rep.violation(Violation { key: format!("many-values|{}|{}|{}|{} values", if shape == 0 { "in-list" } else { "insert-rows" }, d.name(), fail.sig, k), what: format!("{} values: {}", k, det), case: json!({"many_values": k, "shape": shape, "dialect": d.name()}) });
                    }
                }
            }
        }
    }
    rep.set("many_values_cases", json!(many));
    let sweep = value_sweep(rep);
    let wq = with_query_family(rep);
    rep.set("with_query_cases", json!(wq));
    rep.set("states", json!(states + sweep));
    rep.set("transitions", json!(transitions + sweep));
    rep.set("max_depth", json!({"select": ds, "dml": dd}));
    rep.set("statement_dialect_pairs_checked", json!(CHECKED.get()));
    rep.set("value_sweep_cases", json!(sweep));
    rep.set("value_pool_size", json!(value_pool().len()));
    rep.set("inlined_literals_decoded_independently", json!(LITERALS.get()));
    rep.set("sqlite_engine_mode_comparisons", json!(ENGINE.get()));
    rep.set("traces_validated_against_impl", json!(CHECKED.get()));
    rep.set("evaluations", json!(CHECKED.get()));
    rep.set("distinct_nontrivial", json!(outcomes + sweep));
    rep.set("rule", json!("every state of the statement machines and every (value, position) of the value sweep is rendered through all entry points on 3 backends; distinct_nontrivial = distinct SQLite renderings + sweep cases"));
    rep.set("exhaustive", json!(exhaustive));
    let q = Query::select().expr(Expr::val("it's")).and_where(Expr::col(a("a")).eq(1.5f64)).from(a("t1")).to_owned();
    rep.sample(json!({"build": q.build(PostgresQueryBuilder).0, "to_string": q.to_string(PostgresQueryBuilder)}));
    rep.assume("bound values are given to SQLite as the in-repo sea-query-rusqlite binder binds the core types (bool -> integer, ints -> int64, floats -> double, text, blob, NULL); date / decimal / uuid / json values take part in (a), (b), (d) only");
}

pub fn replay(case: &serde_json::Value) -> Option<String> {
    if case.get("with_query").is_some() {
        let rep = Arc::new(Report::new("C02", "quick"));
        with_query_family(&rep);
        return rep.find_violation(&format!("with-query|{}|", case["dialect"].as_str().unwrap_or("")));
    }
    if case.get("sweep").is_some() {
        let rep = Arc::new(Report::new("C02", "quick"));
        value_sweep(&rep);
        return rep.find_violation(&format!("value-sweep|{}|{}|", case["sweep"].as_str().unwrap_or(""), case["dialect"].as_str().unwrap_or("")));
    }
    let ops: Vec<String> = case["ops"].as_array().map(|a| a.iter().filter_map(|x| x.as_str().map(String::from)).collect()).unwrap_or_default();
    match case["model"].as_str().unwrap_or("") {
        "select" => replay_ops(&SelModel { name: "select", menu: select_menu(true, false), checks: vec![Box::new(check_select)], sqlite_only: false }, &ops),
        k => {
            let kind = match k {
                "insert" => Kind::Insert,
                "update" => Kind::Update,
                _ => Kind::Delete,
            };
            replay_ops(&DmlModel { kind, menu: dml_menu(kind, true), checks: vec![Box::new(check_dml)] }, &ops)
        }
    }
}
