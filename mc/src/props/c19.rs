//! C19 — derived identifiers spell the documented names (DESIGN §3.19).
//!
//! A crate is GENERATED (under /verif/.work/c19) that applies the real proc macros of /repo to an
//! exhaustively enumerated family of type definitions, is compiled against /repo and run; it prints
//! what `Iden::to_string`, `Iden::prepare(quote)` and `IdenStatic::as_str` return for every value.
//! The expectations are computed here, independently: snake_case from heck's documented
//! word-boundary rules, attribute overrides, and general identifier quoting.

use crate::report::{Report, Violation};
use crate::util::show;
use serde_json::json;
use std::collections::BTreeMap;
use std::fmt::Write as _;
use std::process::Command;
use std::sync::Arc;

/// snake_case as documented by heck: words are split at non-alphanumeric characters, at a
/// lower->Upper transition, and before the last capital of an acronym that is followed by a
/// lower-case letter; characters without case (digits) keep the current mode.
pub fn ref_snake(s: &str) -> String {
    #[derive(PartialEq, Clone, Copy)]
    enum Mode {
        Boundary,
        Lower,
        Upper,
    }
    let mut words: Vec<String> = vec![];
    for word in s.split(|c: char| !c.is_alphanumeric()) {
        let cs: Vec<char> = word.chars().collect();
        let mut init = 0;
        let mut mode = Mode::Boundary;
        let mut i = 0;
        while i < cs.len() {
            let c = cs[i];
            if i + 1 < cs.len() {
                let next = cs[i + 1];
                let next_mode = if c.is_lowercase() {
                    Mode::Lower
                } else if c.is_uppercase() {
                    Mode::Upper
                } else {
                    mode
                };
                if next_mode == Mode::Lower && next.is_uppercase() {
                    words.push(cs[init..=i].iter().collect());
                    init = i + 1;
                    mode = Mode::Boundary;
                } else if mode == Mode::Upper && c.is_uppercase() && next.is_lowercase() {
                    if init < i {
                        words.push(cs[init..i].iter().collect());
                    }
                    init = i;
                    mode = Mode::Boundary;
                } else {
                    mode = next_mode;
                }
            } else {
                words.push(cs[init..].iter().collect());
            }
            i += 1;
        }
    }
    words.iter().filter(|w| !w.is_empty()).map(|w| w.to_lowercase()).collect::<Vec<_>>().join("_")
}

fn ref_quote(name: &str, l: char, r: char) -> String {
    format!("{}{}{}", l, name.replace(r, &format!("{r}{r}")), r)
}

const QUOTES: [(char, char); 4] = [('"', '"'), ('`', '`'), ('\'', '\''), ('[', ']')];

fn hex(s: &str) -> String {
    s.bytes().map(|b| format!("{:02x}", b)).collect()
}
fn unhex(s: &str) -> String {
    let b: Vec<u8> = (0..s.len() / 2).filter_map(|i| u8::from_str_radix(&s[2 * i..2 * i + 2], 16).ok()).collect();
    String::from_utf8_lossy(&b).into_owned()
}

fn rust_str(s: &str) -> String {
    let mut o = String::from("\"");
    for c in s.chars() {
        match c {
            '"' => o.push_str("\\\""),
            '\\' => o.push_str("\\\\"),
            c if c.is_ascii() && !c.is_ascii_control() => o.push(c),
            c => write!(o, "\\u{{{:x}}}", c as u32).unwrap(),
        }
    }
    o.push('"');
    o
}

fn valid_ident(s: &str) -> bool {
    let mut cs = s.chars();
    match cs.next() {
        Some(c) if c.is_ascii_alphabetic() || c == '_' => {}
        _ => return false,
    }
    s != "_" && s != "Self" && s != "self" && s.chars().all(|c| c.is_ascii_alphanumeric() || c == '_')
}

struct Probe {
    id: usize,
    /// what is probed, for messages / keys
    site: String,
    class: String,
    expected: String,
    /// does the type also derive IdenStatic
    is_static: bool,
}

struct Gen {
    src: String,
    main: String,
    probes: Vec<Probe>,
    n_types: usize,
}

impl Gen {
    fn new() -> Self {
        Gen { src: String::from("#![allow(non_camel_case_types, non_snake_case, dead_code, unused_imports, clippy::all)]\nuse sea_query::*;\nuse std::fmt::Write as _;\nfn hx(s: &str) -> String { s.bytes().map(|b| format!(\"{:02x}\", b)).collect() }\nfn report<T: Iden>(id: usize, v: &T, st: Option<&str>) {\n    let mut line = format!(\"P\\t{}\\t{}\", id, hx(&Iden::to_string(v)));\n    for (l, r) in [('\"', '\"'), ('`', '`'), ('\\'', '\\''), ('[', ']')] {\n        let mut s = String::new();\n        v.prepare(&mut s, (l, r).into());\n        line.push('\\t');\n        line.push_str(&hx(&s));\n    }\n    line.push('\\t');\n    line.push_str(&st.map(hx).unwrap_or_else(|| \"-\".to_string()));\n    println!(\"{}\", line);\n}\n"), main: String::new(), probes: vec![], n_types: 0 }
    }
    fn probe(&mut self, value_expr: &str, site: &str, class: &str, expected: &str, is_static: bool) {
        let id = self.probes.len();
        if is_static {
            writeln!(self.main, "    report({id}, &{value_expr}, Some(IdenStatic::as_str(&{value_expr})));").unwrap();
        } else {
            writeln!(self.main, "    report({id}, &{value_expr}, None);").unwrap();
        }
        self.probes.push(Probe { id, site: site.to_string(), class: class.to_string(), expected: expected.to_string(), is_static });
    }
    fn finish(mut self) -> (String, Vec<Probe>, usize) {
        self.src.push_str("fn main() {\n");
        self.src.push_str(&self.main);
        self.src.push_str("    println!(\"DONE\");\n}\n");
        (self.src, self.probes, self.n_types)
    }
}

fn names(k: usize) -> Vec<String> {
    let segs = ["Ab", "ABC", "A", "a1", "9", "_", "b"];
    let mut out: Vec<String> = vec![];
    let mut frontier = vec![String::new()];
    for _ in 0..k {
        let mut next = vec![];
        for p in &frontier {
            for s in segs {
                next.push(format!("{p}{s}"));
            }
        }
        out.extend(next.iter().cloned());
        frontier = next;
    }
    // spellings around the special variant name `Table`
    for n in ["TABLE", "table", "Table_", "_Table", "Table1", "Tables", "BaseTable", "TableTable", "TAble", "T_able"] {
        out.push(n.to_string());
    }
    out.sort();
    out.dedup();
    out.into_iter().filter(|n| valid_ident(n) && n != "Table").collect()
}

fn renames(n: usize) -> Vec<String> {
    let alpha = ['a', 'A', '_', '1', ' ', '"', '`', '\'', '-', 'é', ']'];
    let mut v = crate::enumerate::all_strings(&alpha, n);
    v.retain(|s| !s.is_empty());
    v
}

fn generate(thorough: bool) -> (String, Vec<Probe>, usize) {
    let mut g = Gen::new();
    let k = if thorough { 3 } else { 2 };
    let nm = names(k);
    // (1) plain enums: type name x variant names. One enum per type name holding `Table` and all variant names.
    for (ti, tn) in nm.iter().enumerate() {
        for (derive, is_static) in [("Iden", false), ("IdenStatic, Clone, Copy", true)] {
            let ty = format!("T{ti}{}_{tn}", if is_static { "s" } else { "d" });
            writeln!(g.src, "#[derive({derive})]\nenum {ty} {{ Table, {} }}", nm.iter().map(|v| v.as_str()).collect::<Vec<_>>().join(", ")).unwrap();
            g.n_types += 1;
            // Table -> snake_case of the type name
            g.probe(&format!("{ty}::Table"), &format!("enum {ty}::Table"), "table-from-type-name", &ref_snake(&ty), is_static);
            // only a sample of variants per type for all but the first type (the mapping is per variant name, not per type)
            if ti == 0 {
                for v in &nm {
                    g.probe(&format!("{ty}::{v}"), &format!("variant {v}"), "variant-snake-case", &ref_snake(v), is_static);
                }
            }
        }
        // unit struct
        for (derive, is_static) in [("Iden", false), ("IdenStatic, Clone, Copy", true)] {
            let ty = format!("U{ti}{}_{tn}", if is_static { "s" } else { "d" });
            writeln!(g.src, "#[derive({derive})]\nstruct {ty};").unwrap();
            g.n_types += 1;
            g.probe(&ty, &format!("unit struct {ty}"), "unit-struct-name", &ref_snake(&ty), is_static);
        }
    }
    // (2) rename / method attributes: one single-variant enum per rename string and attribute form, so that the
    // per-type fast-path predicate is decided by that name alone
    let rn = renames(if thorough { 3 } else { 2 });
    for (ri, r) in rn.iter().enumerate() {
        let lit = rust_str(r);
        for (form, attr) in [("iden-eq", format!("#[iden = {lit}]")), ("iden-rename", format!("#[iden(rename = {lit})]"))] {
            for (derive, is_static) in [("Iden", false), ("IdenStatic, Clone, Copy", true)] {
                let ty = format!("R{ri}{}{}", if form == "iden-eq" { "e" } else { "r" }, if is_static { "s" } else { "d" });
                writeln!(g.src, "#[derive({derive})]\nenum {ty} {{ {attr} V }}").unwrap();
                g.n_types += 1;
                g.probe(&format!("{ty}::V"), &format!("variant {form} {}", show(r)), "variant-rename", r, is_static);
            }
        }
        // container rename decides `Table`; and the unit-struct form (names with braces are compiled separately)
        if !r.contains('{') && !r.contains('}') {
            let ty = format!("C{ri}");
            writeln!(g.src, "#[derive(Iden)]\n#[iden = {lit}]\nenum {ty} {{ Table, Other }}").unwrap();
            g.n_types += 1;
            g.probe(&format!("{ty}::Table"), &format!("container rename {}", show(r)), "table-from-container-rename", r, false);
            g.probe(&format!("{ty}::Other"), "variant beside a renamed container", "variant-snake-case", "other", false);
            // the same for IdenStatic (as_str must agree with to_string), in the other attribute form
            let tys = format!("Cs{ri}");
            writeln!(g.src, "#[derive(IdenStatic, Clone, Copy)]\n#[iden(rename = {lit})]\nenum {tys} {{ Table, Other }}").unwrap();
            g.n_types += 1;
            g.probe(&format!("{tys}::Table"), &format!("static container rename {}", show(r)), "table-from-container-rename", r, true);
            g.probe(&format!("{tys}::Other"), "variant beside a renamed static container", "variant-snake-case", "other", true);
            let ty2 = format!("D{ri}");
            writeln!(g.src, "#[derive(IdenStatic, Clone, Copy)]\n#[iden(rename = {lit})]\nstruct {ty2};").unwrap();
            g.n_types += 1;
            g.probe(&ty2, &format!("unit struct rename {}", show(r)), "unit-struct-rename", r, true);
        }
    }
    // (3) method attribute and flatten
    g.src.push_str("#[derive(Iden)]\nenum WithMethod { Table, #[method = \"custom\"] A, #[iden(method = \"custom2\")] B, Plain }\nimpl WithMethod { fn custom(&self) -> &str { \"we\\\"ird\" } fn custom2(&self) -> &str { \"ok_name\" } }\n");
    g.n_types += 1;
    g.probe("WithMethod::A", "method attribute", "method", "we\"ird", false);
    g.probe("WithMethod::B", "method attribute (list form)", "method", "ok_name", false);
    g.probe("WithMethod::Plain", "variant beside method variants", "variant-snake-case", "plain", false);
    g.probe("WithMethod::Table", "Table beside method variants", "table-from-type-name", "with_method", false);
    g.src.push_str("#[derive(IdenStatic, Clone, Copy)]\nenum Inner { Table, #[iden = \"in\\\"ner\"] Weird, Fine }\n#[derive(IdenStatic, Clone, Copy)]\nenum Outer { Table, #[iden(flatten)] Named { inner: Inner }, #[iden(flatten)] Unnamed(Inner), WithFields(u8, u8), WithNamed { x: u8 } }\n#[derive(IdenStatic, Clone, Copy)]\nenum Outer2 { #[iden(flatten)] Deep(Outer) }\n");
    g.n_types += 3;
    for (e, exp) in [("Inner::Weird", "in\"ner"), ("Inner::Fine", "fine"), ("Inner::Table", "inner")] {
        g.probe(&format!("Outer::Named {{ inner: {e} }}"), "flattened named", "flatten", exp, true);
        g.probe(&format!("Outer::Unnamed({e})"), "flattened unnamed", "flatten", exp, true);
        g.probe(&format!("Outer2::Deep(Outer::Unnamed({e}))"), "flattened two levels", "flatten", exp, true);
    }
    g.probe("Outer::WithFields(1, 2)", "tuple variant", "variant-snake-case", "with_fields", true);
    g.probe("Outer::WithNamed { x: 1 }", "struct variant", "variant-snake-case", "with_named", true);
    g.probe("Outer::Table", "Table beside flattened variants", "table-from-type-name", "outer", true);
    // (3b) the special variant `Table` carrying (ignored) payload, and attributes that are not the first attribute of their
    //      item (a doc comment or a lint attribute comes first)
    g.src.push_str("#[derive(Iden)]\nenum PayT { Table(u32), Id }\n#[derive(IdenStatic, Clone, Copy)]\nenum PayN { Table { shard: u8 }, Id }\n#[derive(Iden)]\n#[iden = \"acct\"]\nenum PayR { Table(u32, u32), Other }\n");
    g.n_types += 3;
    g.probe("PayT::Table(3)", "Table variant with tuple payload", "table-from-type-name", "pay_t", false);
    g.probe("PayT::Id", "variant beside Table with payload", "variant-snake-case", "id", false);
    g.probe("PayN::Table { shard: 1 }", "Table variant with named payload", "table-from-type-name", "pay_n", true);
    g.probe("PayR::Table(1, 2)", "Table variant with payload under a container rename", "table-from-container-rename", "acct", false);
    g.src.push_str("/// documented\n#[derive(Iden)]\n/// more documentation\n#[allow(dead_code)]\n#[iden = \"inv\"]\nenum DocInvoice {\n    /// the table\n    Table,\n    /// the number\n    #[allow(dead_code)]\n    #[iden = \"inv_no\"]\n    Number,\n    /// renamed\n    #[iden(rename = \"amt\")]\n    Amount,\n    /// by method\n    #[method = \"extra_name\"]\n    Extra,\n    /// flattened\n    #[iden(flatten)]\n    Inner(Vr2),\n    Plain,\n}\nimpl DocInvoice { fn extra_name(&self) -> &str { \"x_tra\" } }\n#[derive(Iden)]\nenum Vr2 { #[iden = \"deep\"] Deep }\n/// a documented unit struct\n#[derive(IdenStatic, Clone, Copy)]\n#[allow(dead_code)]\n#[iden = \"doc_unit\"]\nstruct DocUnit;\n");
    g.n_types += 3;
    g.probe("DocInvoice::Table", "container rename after doc comments", "table-from-container-rename", "inv", false);
    g.probe("DocInvoice::Number", "variant rename after a doc comment and a lint attribute", "variant-rename", "inv_no", false);
    g.probe("DocInvoice::Amount", "variant rename (list form) after a doc comment", "variant-rename", "amt", false);
    g.probe("DocInvoice::Extra", "method attribute after a doc comment", "method", "x_tra", false);
    g.probe("DocInvoice::Inner(Vr2::Deep)", "flatten attribute after a doc comment", "flatten", "deep", false);
    g.probe("DocInvoice::Plain", "variant beside documented variants", "variant-snake-case", "plain", false);
    g.probe("DocUnit", "unit struct rename after a doc comment and a lint attribute", "unit-struct-rename", "doc_unit", true);
    // (3c) attributes on variants that carry fields (named and unnamed), in every attribute spelling
    g.src.push_str("#[derive(Iden)]\nenum FieldV { Table, #[iden = \"AddrLine\"] Address { line: u8 }, #[iden(rename = \"zip_code\")] Zip { z: u8 }, #[method = \"m1\"] ByMethod { x: u8 }, #[iden(method = \"m2\")] ByMethod2 { x: u8 }, #[iden = \"tup\"] Tup(u8), #[iden(rename = \"tup2\")] Tup2(u8, u8), #[method = \"m1\"] TupM(u8), PlainNamed { y: u8 } }\nimpl FieldV { fn m1(&self) -> &str { \"by_m1\" } fn m2(&self) -> &str { \"by_m2\" } }\n");
    g.src.push_str("#[derive(IdenStatic, Clone, Copy)]\nenum FieldS { Table, #[iden = \"AddrLine\"] Address { line: u8 }, #[iden(rename = \"zip_code\")] Zip { z: u8 }, #[iden = \"tup\"] Tup(u8), PlainNamed { y: u8 } }\n");
    g.n_types += 2;
    g.probe("FieldV::Address { line: 1 }", "rename on a variant with named fields", "variant-rename", "AddrLine", false);
    g.probe("FieldV::Zip { z: 1 }", "rename (list form) on a variant with named fields", "variant-rename", "zip_code", false);
    g.probe("FieldV::ByMethod { x: 1 }", "method on a variant with named fields", "method", "by_m1", false);
    g.probe("FieldV::ByMethod2 { x: 1 }", "method (list form) on a variant with named fields", "method", "by_m2", false);
    g.probe("FieldV::Tup(1)", "rename on a tuple variant", "variant-rename", "tup", false);
    g.probe("FieldV::Tup2(1, 2)", "rename (list form) on a tuple variant", "variant-rename", "tup2", false);
    g.probe("FieldV::TupM(1)", "method on a tuple variant", "method", "by_m1", false);
    g.probe("FieldV::PlainNamed { y: 1 }", "variant with named fields beside renamed ones", "variant-snake-case", "plain_named", false);
    g.probe("FieldS::Address { line: 1 }", "static rename on a variant with named fields", "variant-rename", "AddrLine", true);
    g.probe("FieldS::Zip { z: 1 }", "static rename (list form) on a variant with named fields", "variant-rename", "zip_code", true);
    g.probe("FieldS::Tup(1)", "static rename on a tuple variant", "variant-rename", "tup", true);
    g.probe("FieldS::PlainNamed { y: 1 }", "static variant with named fields", "variant-snake-case", "plain_named", true);
    // (4) enum_def
    // canonical snake-case names and names a snake-case conversion would change (the identifier is the field as written)
    let fields = ["a", "ab_c", "a1", "x_y_z9", "camel", "_id", "shard__key", "type_", "userId"];
    let struct_names = ["Ab", "ABCd", "a1B", "Ab_c"];
    let mut ei = 0;
    for sn in struct_names {
        for (oi, (opts, prefix, suffix, table)) in [("", "", "Iden", None), ("prefix = \"Pre\"", "Pre", "Iden", None), ("suffix = \"Suf\"", "", "Suf", None), ("prefix = \"P\", suffix = \"S\"", "P", "S", None), ("table_name = \"tbl_x\"", "", "Iden", Some("tbl_x")), ("prefix = \"Q\", suffix = \"\", table_name = \"t2\"", "Q", "", Some("t2"))].into_iter().enumerate() {
            let st = format!("E{ei}x{oi}{sn}");
            ei += 1;
            let attr = if opts.is_empty() { "#[enum_def]".to_string() } else { format!("#[enum_def({opts})]") };
            writeln!(g.src, "#[allow(non_snake_case, dead_code)]\n{attr}\nstruct {st} {{ {} }}", fields.iter().map(|f| format!("{f}: u8")).collect::<Vec<_>>().join(", ")).unwrap();
            g.n_types += 1;
            let en = format!("{prefix}{st}{suffix}");
            let tname = table.map(String::from).unwrap_or_else(|| ref_snake(&st));
            g.probe(&format!("{en}::Table"), &format!("enum_def({opts}) Table"), "enum-def-table", &tname, true);
            for f in fields {
                // the variant is the PascalCase of the field, the identifier is the field name as written
                let pascal: String = f.split('_').map(|w| { let mut c = w.chars(); match c.next() { Some(x) => x.to_uppercase().collect::<String>() + c.as_str(), None => String::new() } }).collect();
                g.probe(&format!("{en}::{pascal}"), &format!("enum_def({opts}) field {f}"), "enum-def-field", f, true);
            }
        }
    }
    g.finish()
}

const WORK: &str = "/verif/.work/c19";

fn cargo_toml(name: &str) -> String {
    format!("[package]\nname = \"{name}\"\nversion = \"0.0.0\"\nedition = \"2021\"\npublish = false\n\n[workspace]\n\n[dependencies]\nsea-query = {{ path = \"/repo\", default-features = false, features = [\"derive\", \"attr\", \"backend-mysql\", \"backend-postgres\", \"backend-sqlite\"] }}\n\n[profile.dev]\nopt-level = 0\ndebug = false\nincremental = false\n")
}

fn build_and_run(dir: &str, name: &str, src: &str) -> Result<String, String> {
    std::fs::create_dir_all(format!("{dir}/src")).map_err(|e| e.to_string())?;
    std::fs::write(format!("{dir}/Cargo.toml"), cargo_toml(name)).map_err(|e| e.to_string())?;
    std::fs::copy("/repo/Cargo.lock", format!("{dir}/Cargo.lock")).ok();
    std::fs::write(format!("{dir}/src/main.rs"), src).map_err(|e| e.to_string())?;
    let out = Command::new("cargo").args(["build", "--offline", "--quiet", "--target-dir", "/verif/target/c19"]).current_dir(dir).env("CARGO_NET_OFFLINE", "true").env("RUSTFLAGS", "-Awarnings").output().map_err(|e| format!("cannot run cargo: {e}"))?;
    if !out.status.success() {
        return Err(String::from_utf8_lossy(&out.stderr).chars().take(3000).collect());
    }
    let run = Command::new(format!("/verif/target/c19/debug/{name}")).output().map_err(|e| format!("cannot run the generated program: {e}"))?;
    if !run.status.success() {
        return Err(format!("generated program failed: {}", String::from_utf8_lossy(&run.stderr).chars().take(2000).collect::<String>()));
    }
    Ok(String::from_utf8_lossy(&run.stdout).into_owned())
}

pub fn run(rep: &Arc<Report>) {
    let (src, probes, n_types) = generate(rep.thorough());
    let out = match build_and_run(WORK, "c19gen", &src) {
        Ok(o) => o,
        Err(e) => {
            // a compile failure of the main generated crate is a verdict only if it is caused by the derive output;
            // names were filtered to valid Rust, so report it as a violation with the compiler's words
            rep.violation(Violation { key: "derive|generated-crate-does-not-compile".into(), what: format!("the generated crate does not compile / run:\n{e}"), case: json!({"kind": "main-crate"}) });
            rep.set("states", json!(1));
            rep.set("transitions", json!(1));
            rep.set("traces_validated_against_impl", json!(0));
            rep.sample(json!({"error": e.chars().take(300).collect::<String>()}));
            return;
        }
    };
    if !out.lines().any(|l| l == "DONE") {
        eprintln!("MACHINERY FAILURE: generated program did not finish");
        std::process::exit(3);
    }
    let mut seen = 0u64;
    let mut per_class: BTreeMap<String, u64> = BTreeMap::new();
    for line in out.lines().filter(|l| l.starts_with("P\t")) {
        let f: Vec<&str> = line.split('\t').collect();
        let id: usize = f[1].parse().unwrap_or(usize::MAX);
        let Some(p) = probes.get(id) else { continue };
        seen += 1;
        *per_class.entry(p.class.clone()).or_insert(0) += 1;
        let to_string = unhex(f[2]);
        let mut problems = vec![];
        if to_string != p.expected {
            problems.push(("name", format!("Iden::to_string = {:?}, documented name {:?}", to_string, p.expected)));
        }
        for (qi, (l, r)) in QUOTES.iter().enumerate() {
            let got = unhex(f[3 + qi]);
            // the generated quoting must equal general identifier quoting of what the type says its name is
            let want = ref_quote(&to_string, *l, *r);
            if got != want {
                problems.push(("fast-path-quoting", format!("prepare({l}{r}) = {:?}, general quoting of {:?} is {:?}", got, to_string, want)));
            }
        }
        if p.is_static {
            let st = unhex(f[7]);
            if st != to_string {
                problems.push(("as_str", format!("IdenStatic::as_str = {:?} but Iden::to_string = {:?}", st, to_string)));
            }
        }
        for (sig, what) in problems {
            rep.raw_failures.inc();
            // key by probe class + the minimal distinguishing part of the site (class keeps one defect = one key)
            rep.violation(Violation { key: format!("derive|{}|{}", sig, p.class), what: format!("{}: {}", p.site, what), case: json!({"kind": "probe", "site": p.site, "class": p.class, "expected": p.expected}) });
        }
    }
    if seen as usize != probes.len() {
        eprintln!("MACHINERY FAILURE: {} probes generated, {} reported", probes.len(), seen);
        std::process::exit(3);
    }
    // (5) names containing braces in the unit-struct form: compiled separately so that a failure is attributable
    let brace_src = "#![allow(dead_code)]\nuse sea_query::*;\n#[derive(Iden)]\n#[iden = \"a{b}c\"]\nstruct Braces;\n#[derive(Iden)]\n#[iden = \"x{\"]\nstruct OpenBrace;\n#[derive(Iden)]\nenum E { #[iden = \"v{}w\"] V }\nfn main() { println!(\"{}|{}|{}\", Iden::to_string(&Braces), Iden::to_string(&OpenBrace), Iden::to_string(&E::V)); }\n";
    let brace_cases = 3u64;
    match build_and_run("/verif/.work/c19b", "c19braces", brace_src) {
        Ok(o) => {
            let got = o.trim().to_string();
            if got != "a{b}c|x{|v{}w" {
                rep.violation(Violation { key: "derive|name|rename-with-braces".into(), what: format!("renames with braces spell {:?}, expected \"a{{b}}c|x{{|v{{}}w\"", got), case: json!({"kind": "braces"}) });
            }
        }
        Err(e) => {
            rep.violation(Violation { key: "derive|does-not-compile|unit-struct-rename-with-braces".into(), what: format!("#[derive(Iden)] #[iden = \"a{{b}}c\"] struct X; does not compile (the name is used as a format string):\n{}", e.lines().filter(|l| l.contains("error")).take(4).collect::<Vec<_>>().join("\n")), case: json!({"kind": "braces"}) });
        }
    }
    rep.set("generated_types", json!(n_types));
    rep.set("probes", json!(probes.len()));
    rep.set("probes_per_class", json!(per_class));
    rep.set("quotes_per_probe", json!(4));
    rep.set("states", json!(n_types as u64 + brace_cases));
    rep.set("transitions", json!(probes.len() as u64 * 6 + brace_cases));
    rep.set("traces_validated_against_impl", json!(seen));
    rep.set("evaluations", json!(probes.len() as u64 * 6));
    rep.set("distinct_nontrivial", json!(probes.len()));
    rep.set("rule", json!("every generated type definition is compiled with the real proc macros and every probed value reports to_string / prepare under 4 quote pairs / as_str; each probe is a distinct (definition, value) pair"));
    rep.set("exhaustive", json!(true));
    for p in probes.iter().filter(|p| p.class == "variant-snake-case").take(3) {
        rep.sample(json!({"site": p.site, "expected": p.expected}));
    }
    rep.assume("snake_case follows heck 0.4's documented word-boundary rules; type / variant names are built from the segments {Ab, ABC, A, a1, 9, _, b}; rename strings over {a A _ 1 space \" ` ' - é ]}");
}

pub fn replay(case: &serde_json::Value) -> Option<String> {
    // the generated crate is rebuilt (thorough = false) and the class of this finding looked up
    let class = case["class"].as_str().unwrap_or("").to_string();
    let rep = Arc::new(Report::new("C19", "quick"));
    run(&rep);
    if case["kind"].as_str() == Some("braces") {
        return rep.find_violation("derive|does-not-compile").or_else(|| rep.find_violation("derive|name|rename-with-braces"));
    }
    for sig in ["name", "fast-path-quoting", "as_str"] {
        if let Some(v) = rep.find_violation(&format!("derive|{sig}|{class}")) {
            return Some(v);
        }
    }
    None
}

#[allow(dead_code)]
fn _u() {
    let _ = show("");
}
