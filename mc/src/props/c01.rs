//! C01 — placeholders and bound values correspond one-to-one, in order (DESIGN §3.1).
//!
//! Every state of the SELECT / INSERT / UPDATE / DELETE state machines x {MySQL, Postgres, SQLite}:
//! the SQL from `build` is lexed by the dialect's reference lexer; placeholders outside quoted text
//! must number exactly the returned values (`?` / `$1..$n` ascending, each once), and the returned
//! values must be exactly the tagged values the reference state holds for the clauses that dialect
//! renders, in the order the dialect's grammar reads those clauses.

use crate::dml::{dml_menu, DSpec, DSys, DmlModel, Kind};
use crate::explore::{explore, replay_ops, Fail};
use crate::lex::{lex, Dialect, Tok, DIALECTS};
use crate::qmodel::*;
use crate::report::Report;
use crate::smodel::{select_menu, SelModel, SelSys};
use crate::util::{catch, Counter};
use sea_query::*;
use serde_json::json;
use std::sync::Arc;

pub static CHECKED: Counter = Counter::new();
pub static UNSUPPORTED: Counter = Counter::new();
pub static PLACEHOLDERS: Counter = Counter::new();

pub fn value_canon(v: &Value) -> String {
    match v {
        Value::TinyInt(Some(i)) => i.to_string(),
        Value::SmallInt(Some(i)) => i.to_string(),
        Value::Int(Some(i)) => i.to_string(),
        Value::BigInt(Some(i)) => i.to_string(),
        Value::TinyUnsigned(Some(i)) => i.to_string(),
        Value::SmallUnsigned(Some(i)) => i.to_string(),
        Value::Unsigned(Some(i)) => i.to_string(),
        Value::BigUnsigned(Some(i)) => i.to_string(),
        Value::String(Some(s)) => format!("s:{s}"),
        other => format!("{:?}", other),
    }
}
pub fn v_canon(v: &V) -> String {
    match v {
        V::Int(i) => i.to_string(),
        V::Str(s) => format!("s:{s}"),
    }
}

/// the oracle, given the built (sql, values) and the expected tag sequence
pub fn check_built(d: Dialect, sql: &str, vals: &[Value], want: &[V]) -> Vec<Fail> {
    let mut fails = vec![];
    let toks = match lex(d, sql) {
        Ok(t) => t,
        Err(e) => {
            // well-formedness of the whole statement is C07 / C08's business; placeholders cannot be located
            fails.push(Fail::new("sql-does-not-lex", format!("{}: {sql:?}: {}", d.name(), e.msg)));
            return fails;
        }
    };
    let params: Vec<Option<u32>> = toks.iter().filter_map(|t| if let Tok::Param(p) = &t.tok { Some(*p) } else { None }).collect();
    PLACEHOLDERS.add(params.len() as u64);
    if params.len() != vals.len() {
        fails.push(Fail::new("placeholder-count", format!("{}: {sql:?} has {} placeholders, {} values returned", d.name(), params.len(), vals.len())));
    }
    match d {
        Dialect::Postgres => {
            let nums: Vec<u32> = params.iter().map(|p| p.unwrap_or(0)).collect();
            let want_nums: Vec<u32> = (1..=params.len() as u32).collect();
            if nums != want_nums {
                fails.push(Fail::new("placeholder-numbering", format!("postgres: {sql:?} uses placeholders {:?}, expected $1..${} ascending", nums, params.len())));
            }
        }
        _ => {
            if params.iter().any(|p| p.is_some()) {
                fails.push(Fail::new("placeholder-numbering", format!("{}: {sql:?} uses numbered placeholders", d.name())));
            }
        }
    }
    let got: Vec<String> = vals.iter().map(value_canon).collect();
    let exp: Vec<String> = want.iter().map(v_canon).collect();
    if got != exp {
        let mut g2 = got.clone();
        let mut e2 = exp.clone();
        g2.sort();
        e2.sort();
        let sig = if g2 == e2 { "value-order" } else { "values-lost-or-duplicated" };
        fails.push(Fail::new(sig, format!("{}: {sql:?} returns values {:?}; the values given to the rendered clauses, in reading order, are {:?}", d.name(), got, exp)));
    }
    fails
}

fn mysql_unsupported(spec: &SelSpec) -> bool {
    spec.joins.iter().any(|j| j.0 == JoinK::FullOuter) || spec.unions.iter().any(|u| mysql_unsupported(&u.1)) || spec.from.iter().any(|f| matches!(f, FromItem::Sub(q, _) if mysql_unsupported(q))) || spec.ctes.iter().any(|c| mysql_unsupported(&c.2))
}

pub fn check_select(sys: &SelSys, spec: &SelSpec) -> Vec<Fail> {
    let mut fails = vec![];
    for d in DIALECTS {
        let r = catch(|| match d {
            Dialect::Mysql => sys.stmt(d).build(MysqlQueryBuilder),
            Dialect::Postgres => sys.stmt(d).build(PostgresQueryBuilder),
            Dialect::Sqlite => sys.stmt(d).build(SqliteQueryBuilder),
        });
        match r {
            Err(p) => {
                if d == Dialect::Mysql && mysql_unsupported(spec) {
                    UNSUPPORTED.inc();
                } else {
                    fails.push(Fail::new("render-panic", format!("{}: build panicked: {p}", d.name())));
                }
            }
            Ok((sql, vals)) => {
                CHECKED.inc();
                let mut want = vec![];
                spec.tags(d, &mut want);
                fails.extend(check_built(d, &sql, &vals.0, &want));
            }
        }
    }
    fails
}

pub fn check_dml(kind: Kind, sys: &DSys, spec: &DSpec) -> Vec<Fail> {
    let mut fails = vec![];
    for d in DIALECTS {
        match catch(|| sys.stmt(d).build_d(d)) {
            Err(p) => fails.push(Fail::new("render-panic", format!("{}: build panicked: {p}", d.name()))),
            Ok((sql, vals)) => {
                CHECKED.inc();
                let mut want = vec![];
                spec.tags(kind, d, &mut want);
                fails.extend(check_built(d, &sql, &vals.0, &want));
            }
        }
    }
    fails
}

/// statements binding MANY values (an IN list, a multi-row INSERT): every count from 1 to 12 and the counts on both sides
/// of 100, 256, 1000 (thorough: 10000, 65536) - the numbered placeholders run through every number of digits. Counts
/// ascend; the first failing count of a (shape, dialect, signature) is reported.
pub fn many_value_counts(thorough: bool) -> Vec<usize> {
    let mut v: Vec<usize> = (1..=12).collect();
    v.extend([99, 100, 101, 255, 256, 257, 999, 1000, 1001]);
    if thorough {
        v.extend([9999, 10000, 10001, 65535, 65536]);
    }
    v
}

pub enum ManyStmt {
    Sel(SelectStatement),
    Ins(InsertStatement),
}

pub fn many_values_statement(shape: usize, n: usize) -> (ManyStmt, Vec<V>) {
    let vals: Vec<i64> = (0..n as i64).map(|i| 700000 + i).collect();
    let want: Vec<V> = vals.iter().map(|i| V::Int(*i)).collect();
    let al = |s: &str| Alias::new(s);
    match shape {
        0 => (ManyStmt::Sel(Query::select().column(al("a")).from(al("t1")).and_where(Expr::col(al("a")).is_in(vals.clone())).to_owned()), want),
        _ => {
            let mut q = Query::insert();
            q.into_table(al("t1")).columns([al("a"), al("b"), al("id")]);
            let mut rows = vals.chunks(3);
            let mut w = vec![];
            for r in &mut rows {
                let mut cells: Vec<SimpleExpr> = r.iter().map(|i| Expr::val(*i).into()).collect();
                w.extend(r.iter().map(|i| V::Int(*i)));
                while cells.len() < 3 {
                    cells.push(Expr::col(al("id")).into());
                }
                q.values_panic(cells);
            }
            (ManyStmt::Ins(q), w)
        }
    }
}

fn many_values(rep: &Report) -> u64 {
    use crate::report::Violation;
    let mut n = 0;
    for shape in 0..2usize {
        for d in DIALECTS {
            let mut reported: std::collections::HashSet<String> = Default::default();
            for &k in &many_value_counts(rep.thorough()) {
                n += 1;
                let (q, want) = many_values_statement(shape, k);
                let r = catch(|| match (&q, d) {
                    (ManyStmt::Sel(q), Dialect::Mysql) => q.build(MysqlQueryBuilder),
                    (ManyStmt::Sel(q), Dialect::Postgres) => q.build(PostgresQueryBuilder),
                    (ManyStmt::Sel(q), Dialect::Sqlite) => q.build(SqliteQueryBuilder),
                    (ManyStmt::Ins(q), Dialect::Mysql) => q.build(MysqlQueryBuilder),
                    (ManyStmt::Ins(q), Dialect::Postgres) => q.build(PostgresQueryBuilder),
                    (ManyStmt::Ins(q), Dialect::Sqlite) => q.build(SqliteQueryBuilder),
                });
                let fails = match r {
                    Err(p) => vec![Fail::new("render-panic", format!("{}: build panicked: {p}", d.name()))],
                    Ok((sql, vals)) => check_built(d, &sql, &vals.0, &want),
                };
                for f in fails {
                    rep.raw_failures.inc();
                    if reported.insert(f.sig.clone()) {
                        let det: String = f.detail.chars().take(500).collect();
                        rep.violation(Violation { key: format!("many-values|{}|{}|{}|{} values", if shape == 0 { "in-list" } else { "insert-rows" }, d.name(), f.sig, k), what: format!("{} values: {}", k, det), case: json!({"many_values": k, "shape": shape, "dialect": d.name()}) });
                    }
                }
            }
        }
    }
    n
}

/// every Value variant (all features) through several statement positions: `build` must hand back exactly the
/// values that were given - same variant, same payload, in reading order (Debug equality, so NaN payloads count)
fn value_passthrough(rep: &Report) -> u64 {
    use crate::report::Violation;
    fn a(s: &str) -> Alias {
        Alias::new(s)
    }
    let pool = crate::props::c02::value_pool();
    let mut n = 0u64;
    for v in &pool {
        let one: Value = 1i32.into();
        let two: Value = 2i32.into();
        let cases: Vec<(&str, Box<dyn Fn(Dialect) -> Values>, Vec<Value>)> = vec![
            ("select-value", Box::new(|d| build_any_d(Query::select().expr(Expr::val(v.clone())), d)), vec![v.clone()]),
            ("where-eq", Box::new(|d| build_any_d(Query::select().column(a("a")).from(a("t1")).and_where(Expr::col(a("s")).eq(Expr::val(v.clone()))), d)), vec![v.clone()]),
            ("in-list", Box::new(|d| build_any_d(Query::select().column(a("a")).from(a("t1")).and_where(Expr::col(a("s")).is_in([v.clone(), v.clone()])), d)), vec![v.clone(), v.clone()]),
            ("insert-value", Box::new(|d| build_any_d(Query::insert().into_table(a("t1")).columns([a("s"), a("a")]).values_panic([Expr::val(v.clone()).into(), 1.into()]), d)), vec![v.clone(), one.clone()]),
            ("update-value", Box::new(|d| build_any_d(Query::update().table(a("t1")).value(a("s"), Expr::val(v.clone())).and_where(Expr::col(a("id")).eq(2)), d)), vec![v.clone(), two.clone()]),
            ("case-then", Box::new(|d| build_any_d(Query::select().expr(CaseStatement::new().case(Expr::col(a("a")).gt(1), Expr::val(v.clone())).finally(Expr::val(v.clone()))).from(a("t1")), d)), vec![one.clone(), v.clone(), v.clone()]),
            ("from-values", Box::new(|d| build_any_d(Query::select().column(Asterisk).from_values([(v.clone(), 1i32)], a("x")), d)), vec![v.clone(), one.clone()]),
            ("between", Box::new(|d| build_any_d(Query::delete().from_table(a("t1")).and_where(Expr::col(a("s")).between(v.clone(), v.clone())), d)), vec![v.clone(), v.clone()]),
            ("in-tuples", Box::new(|d| build_any_d(Query::select().column(a("a")).from(a("t1")).and_where(Expr::tuple([Expr::col(a("s")).into(), Expr::col(a("a")).into()]).in_tuples([(v.clone(), 1i32), (v.clone(), 2i32)])), d)), vec![v.clone(), one.clone(), v.clone(), two.clone()]),
            ("function-table-argument", Box::new(|d| build_any_d(Query::select().column(Asterisk).from_function(Func::cust(a("gen")).arg(v.clone()).arg(1), a("g")), d)), vec![v.clone(), one.clone()]),
            ("group-by-having-order-by", Box::new(|d| build_any_d(Query::select().expr(Func::count(Expr::col(Asterisk))).from(a("t1")).add_group_by([Func::coalesce([Expr::col(a("s")).into(), Expr::val(v.clone()).into()]).into()]).and_having(Func::max(Expr::col(a("s"))).ne(v.clone())).order_by_expr(Func::coalesce([Expr::col(a("s")).into(), Expr::val(v.clone()).into()]).into(), Order::Desc).limit(2), d)), vec![v.clone(), v.clone(), v.clone(), Value::BigUnsigned(Some(2))]),
            ("window-partition", Box::new(|d| build_any_d(Query::select().expr_window_as(Func::count(Expr::col(Asterisk)), WindowStatement::partition_by_custom("1").add_partition_by(Func::coalesce([Expr::col(a("s")).into(), Expr::val(v.clone()).into()]).into()).order_by_expr(Func::coalesce([Expr::col(a("s")).into(), Expr::val(v.clone()).into()]).into(), Order::Asc).frame_start(FrameType::Rows, Frame::Preceding(2)).to_owned(), a("w")).from(a("t1")), d)), vec![v.clone(), v.clone(), Value::Unsigned(Some(2))]),
            ("join-on-and-subquery", Box::new(|d| build_any_d(Query::select().column(a("a")).from(a("t1")).join(JoinType::LeftJoin, a("t2"), Expr::col((a("t2"), a("s"))).eq(v.clone())).and_where(Expr::col(a("a")).in_subquery(Query::select().column(a("c")).from(a("t2")).and_where(Expr::col(a("s")).ne(v.clone())).to_owned())).and_where(Expr::exists(Query::select().expr(Expr::val(v.clone())).to_owned())), d)), vec![v.clone(), v.clone(), v.clone()]),
            ("condition-all-member", Box::new(|d| build_any_d(Query::select().column(a("a")).from(a("t1")).cond_where(Cond::all().add(SimpleExpr::from(Expr::val(v.clone()))).add(Expr::col(a("a")).eq(1))).cond_having(Cond::all().add(Expr::col(a("a")).eq(2)).add(SimpleExpr::from(Expr::val(v.clone())))), d)), vec![v.clone(), one.clone(), two.clone(), v.clone()]),
            ("condition-any-member", Box::new(|d| build_any_d(Query::update().table(a("t1")).value(a("a"), 1).cond_where(Cond::any().add(SimpleExpr::from(Expr::val(v.clone()))).add(Cond::all().not().add(SimpleExpr::from(Expr::val(v.clone()))).add(Expr::col(a("a")).eq(2)))), d)), vec![one.clone(), v.clone(), v.clone(), two.clone()]),
            ("condition-single-member", Box::new(|d| build_any_d(Query::delete().from_table(a("t1")).and_where(SimpleExpr::from(Expr::val(v.clone()))), d)), vec![v.clone()]),
            ("join-on-condition-member", Box::new(|d| build_any_d(Query::select().column(a("a")).from(a("t1")).join(JoinType::InnerJoin, a("t2"), Cond::any().add(SimpleExpr::from(Expr::val(v.clone()))).add(Expr::col((a("t2"), a("a"))).eq(1))).and_where(Expr::case(Cond::all().add(SimpleExpr::from(Expr::val(v.clone()))), 1).finally(2).into()), d)), vec![v.clone(), one.clone(), v.clone(), one.clone(), two.clone()]),
            // clauses assembled by several calls of different spellings: every call adds to what the earlier ones gave
            ("function-arg-then-args", Box::new(|d| build_any_d(Query::select().expr(Func::cust(a("f")).arg(v.clone()).args([Expr::val(v.clone()).into(), SimpleExpr::from(Expr::val(1))]).arg(2)), d)), vec![v.clone(), one.clone(), two.clone()]), // `args` is documented to REPLACE the arguments given so far
            ("union-then-unions", Box::new(|d| build_any_d(Query::select().expr(Expr::val(v.clone())).union(UnionType::All, Query::select().expr(Expr::val(1)).to_owned()).unions([(UnionType::All, Query::select().expr(Expr::val(v.clone())).to_owned()), (UnionType::Distinct, Query::select().expr(Expr::val(2)).to_owned())]).union(UnionType::All, Query::select().expr(Expr::val(v.clone())).to_owned()), d)), vec![v.clone(), one.clone(), v.clone(), two.clone(), v.clone()]),
            ("values-then-values", Box::new(|d| build_any_d(Query::update().table(a("t1")).values([(a("s"), Expr::val(v.clone()).into())]).value(a("a"), 1).values([(a("b"), SimpleExpr::from(Expr::val(2))), (a("s"), Expr::val(v.clone()).into())]), d)), vec![v.clone(), one.clone(), two.clone(), v.clone()]),
            ("columns-exprs-then-expr", Box::new(|d| build_any_d(Query::select().exprs([Expr::val(v.clone()), Expr::val(1)]).expr(Expr::val(v.clone())).exprs([Expr::val(2)]).from(a("t1")).conditions(true, |q| { q.and_where(Expr::col(a("s")).ne(v.clone())); }, |_| {}), d)), vec![v.clone(), one.clone(), v.clone(), two.clone(), v.clone()]),
            ("on-conflict-and-returning", Box::new(|d| build_any_d(Query::insert().into_table(a("t1")).columns([a("id"), a("s")]).values_panic([1.into(), Expr::val(v.clone()).into()]).on_conflict(OnConflict::column(a("id")).value(a("s"), Expr::val(v.clone())).to_owned()), d)), vec![one.clone(), v.clone(), v.clone()]),
        ];
        for (pos, f, want) in &cases {
            for d in DIALECTS {
                n += 1;
                let got = match catch(|| f(d)) {
                    Ok(v) => v.0,
                    Err(p) => {
                        rep.raw_failures.inc();
                        rep.violation(Violation { key: format!("value-passthrough|{}|{}|render-panic|{}", pos, d.name(), crate::props::c12::variant(v)), what: format!("{pos} with {:?}: build panicked: {p}", v), case: json!({"passthrough": pos, "dialect": d.name(), "value": format!("{:?}", v)}) });
                        continue;
                    }
                };
                if format!("{:?}", got) != format!("{:?}", want) {
                    rep.raw_failures.inc();
                    rep.violation(Violation { key: format!("value-passthrough|{}|{}|values-differ-from-given|{}", pos, d.name(), crate::props::c12::variant(v)), what: format!("{} {pos}: build returns {:?}, the values given in reading order are {:?}", d.name(), got, want), case: json!({"passthrough": pos, "dialect": d.name(), "value": format!("{:?}", v)}) });
                }
            }
        }
    }
    n
}

/// templates with escaped marks (`??`) between positional marks on the `?` backends: every sequence of up to 5 items over
/// { `?`, `??`, word }, with exactly as many and with one surplus value. `build` must return the given values in order,
/// one per single mark, and the text must carry one mark per value plus one per escape.
fn escaped_mark_templates(rep: &Report) -> u64 {
    use crate::report::Violation;
    let items = ["?", "??", "x"];
    let mut n = 0u64;
    let mut seqs: Vec<Vec<usize>> = vec![vec![]];
    let mut frontier: Vec<Vec<usize>> = vec![vec![]];
    for _ in 0..5 {
        let mut next = vec![];
        for s in &frontier {
            for i in 0..3 {
                let mut t = s.clone();
                t.push(i);
                next.push(t);
            }
        }
        seqs.extend(next.iter().cloned());
        frontier = next;
    }
    for seq in &seqs {
        let template = seq.iter().map(|i| items[*i]).collect::<Vec<_>>().join(" + ");
        let k = seq.iter().filter(|i| **i == 0).count();
        let esc = seq.iter().filter(|i| **i == 1).count();
        if k == 0 || esc == 0 {
            continue;
        }
        for surplus in [0usize, 1] {
            let vals: Vec<Value> = (0..k + surplus).map(|i| Value::BigInt(Some(8100 + i as i64))).collect();
            for d in [Dialect::Mysql, Dialect::Sqlite] {
                n += 1;
                let q = Query::select().expr(Expr::cust_with_values(template.clone(), vals.clone())).to_owned();
                let r = catch(|| match d {
                    Dialect::Mysql => q.build(MysqlQueryBuilder),
                    _ => q.build(SqliteQueryBuilder),
                });
                let key = |sig: &str| format!("escaped-mark-template|{}|{sig}|{}", d.name(), if seq.iter().position(|i| *i == 1) < seq.iter().position(|i| *i == 0) { "escape-before-mark" } else { "escape-after-mark" });
                let case = json!({"template": template, "dialect": d.name(), "values": k + surplus});
                match r {
                    Err(p) => {
                        rep.raw_failures.inc();
                        rep.violation(Violation { key: key("build-panic"), what: format!("{}: cust_with_values({template:?}, {} values) panicked in build: {p}", d.name(), vals.len()), case });
                    }
                    Ok((sql, got)) => {
                        let marks = lex(d, &sql).map(|t| t.iter().filter(|t| matches!(t.tok, Tok::Param(_))).count()).unwrap_or(usize::MAX);
                        let want: Vec<String> = vals.iter().take(k).map(value_canon).collect();
                        let gotc: Vec<String> = got.0.iter().map(value_canon).collect();
                        if gotc != want || marks != k + esc {
                            rep.raw_failures.inc();
                            rep.violation(Violation { key: key("values-or-marks-differ"), what: format!("{}: template {template:?} with values {:?} builds {sql:?} ({} marks, expected {}) returning {:?}, expected {:?}", d.name(), vals.iter().map(value_canon).collect::<Vec<_>>(), marks, k + esc, gotc, want), case });
                        }
                    }
                }
            }
        }
    }
    n
}

fn build_any_d<S: QueryStatementWriter>(s: &S, d: Dialect) -> Values {
    match d {
        Dialect::Mysql => s.build(MysqlQueryBuilder).1,
        Dialect::Postgres => s.build(PostgresQueryBuilder).1,
        Dialect::Sqlite => s.build(SqliteQueryBuilder).1,
    }
}

pub fn run(rep: &Arc<Report>) {
    let (ds, dd) = if rep.thorough() { (5, 5) } else { (4, 4) };
    let m = SelModel { name: "select", menu: select_menu(rep.thorough(), false), checks: vec![Box::new(check_select)], sqlite_only: false };
    let st = explore(&m, ds, u64::MAX, rep);
    let mut states = st.states;
    let mut transitions = st.transitions;
    let mut outcomes = st.outcomes;
    let mut exhaustive = st.exhaustive;
    for kind in [Kind::Insert, Kind::Update, Kind::Delete] {
        let dm = DmlModel { kind, menu: dml_menu(kind, rep.thorough()), checks: vec![Box::new(check_dml)] };
        let s2 = explore(&dm, dd, u64::MAX, rep);
        states += s2.states;
        transitions += s2.transitions;
        outcomes += s2.outcomes;
        exhaustive &= s2.exhaustive;
    }
    let mv = many_values(rep);
    rep.set("many_values_cases", json!(mv));
    let vp = value_passthrough(rep);
    rep.set("value_passthrough_cases", json!(vp));
    let et = escaped_mark_templates(rep);
    rep.set("escaped_mark_template_cases", json!(et));
    rep.set("states", json!(states));
    rep.set("transitions", json!(transitions));
    rep.set("max_depth", json!({"select": ds, "dml": dd}));
    rep.set("level_sizes_select", json!(st.level_sizes));
    rep.set("per_op_transitions_select", json!(st.per_op));
    rep.set("statement_dialect_pairs_checked", json!(CHECKED.get()));
    rep.set("placeholders_located", json!(PLACEHOLDERS.get()));
    rep.set("mysql_unsupported_states_panicking_as_documented", json!(UNSUPPORTED.get()));
    rep.set("traces_validated_against_impl", json!(CHECKED.get()));
    rep.set("evaluations", json!(CHECKED.get()));
    rep.set("distinct_nontrivial", json!(outcomes));
    rep.set("rule", json!("BFS over builder-call histories of SELECT / INSERT / UPDATE / DELETE (state = real statement); every state is built on 3 backends; distinct_nontrivial = distinct SQLite renderings"));
    rep.set("exhaustive", json!(exhaustive));
    let (mut s, mut r) = crate::explore::Model::init(&m);
    for op in m.menu.iter().filter(|o| matches!(op_class(o), "from" | "and_where" | "limit" | "item")).take(5) {
        let _ = crate::explore::Model::step(&m, &mut s, &mut r, op);
    }
    let mut want = vec![];
    r.tags(Dialect::Postgres, &mut want);
    let (sql, vals) = s.pg.build(PostgresQueryBuilder);
    rep.sample(json!({"postgres_sql": sql, "values": vals.0.iter().map(value_canon).collect::<Vec<_>>(), "expected_values_in_reading_order": want.iter().map(v_canon).collect::<Vec<_>>()}));
    rep.assume("values that sea-query inlines in both modes (ORDER BY FIELD lists, constants, LIKE ESCAPE char) are not bound; the two numbers of the empty-IN rewrite are bound and modelled as two synthetic values; the expected order is the order in which the dialect's grammar reads the clauses (MySQL UPDATE..JOIN..ON before SET; MySQL NULLS emulation writes the expression twice)");
}

pub fn replay(case: &serde_json::Value) -> Option<String> {
    if case["template"].is_string() {
        let rep = Report::new("C01", "quick");
        escaped_mark_templates(&rep);
        return rep.find_violation(&format!("escaped-mark-template|{}|", case["dialect"].as_str().unwrap_or("")));
    }
    if let Some(pos) = case["passthrough"].as_str() {
        let rep = Report::new("C01", "quick");
        value_passthrough(&rep);
        return rep.find_violation(&format!("value-passthrough|{}|{}|", pos, case["dialect"].as_str().unwrap_or(""))).filter(|_| true);
    }
    let ops: Vec<String> = case["ops"].as_array().map(|a| a.iter().filter_map(|x| x.as_str().map(String::from)).collect()).unwrap_or_default();
    match case["model"].as_str().unwrap_or("") {
        "select" => replay_ops(&SelModel { name: "select", menu: select_menu(true, false), checks: vec![Box::new(check_select)], sqlite_only: false }, &ops),
        k => {
            let kind = match k {
                "insert" => Kind::Insert,
                "update" => Kind::Update,
                _ => Kind::Delete,
            };
            replay_ops(&DmlModel { kind, menu: dml_menu(kind, true), checks: vec![Box::new(check_dml)] }, &ops)
        }
    }
}
