//! C18 — Value equality and hashing are coherent under `hashable-value` (DESIGN §3.18).
//!
//! A pool covering every variant (NULL + several payloads, float / JSON / vector / array special
//! cases, every payload built twice independently); ALL ordered pairs and triples are checked.

use crate::props::c12::variant;
use crate::report::{Report, Violation};
use crate::util::{catch, par_range, Counter};
use sea_query::{ArrayType, Value, ValueTuple};
use serde_json::json;
use std::collections::hash_map::DefaultHasher;
use std::collections::HashSet;
use std::hash::{Hash, Hasher};
use std::sync::Arc;

fn h<T: Hash>(v: &T) -> u64 {
    // SipHash-1-3 with fixed zero keys: deterministic across runs
    let mut s = DefaultHasher::new();
    v.hash(&mut s);
    s.finish()
}

/// Built from scratch on every call, so two calls give independently constructed payloads.
pub fn pool() -> Vec<Value> {
    use chrono::TimeZone;
    let mut p: Vec<Value> = vec![];
    for b in [true, false] {
        p.push(b.into());
    }
    for x in [0i8, 1, -1, i8::MIN, i8::MAX] {
        p.push(x.into());
    }
    for x in [0i16, 1, -1, i16::MIN, i16::MAX] {
        p.push(x.into());
    }
    for x in [0i32, 1, -1, i32::MIN, i32::MAX] {
        p.push(x.into());
    }
    for x in [0i64, 1, -1, i64::MIN, i64::MAX] {
        p.push(x.into());
    }
    for x in [0u8, 1, u8::MAX] {
        p.push(x.into());
    }
    for x in [0u16, 1, u16::MAX] {
        p.push(x.into());
    }
    for x in [0u32, 1, u32::MAX] {
        p.push(x.into());
    }
    for x in [0u64, 1, u64::MAX] {
        p.push(x.into());
    }
    for bits in [0u32, 0x8000_0000, 0x3f80_0000, 0xbf80_0000, 0x7f80_0000, 0xff80_0000, 0x7fc0_0000, 0xffc0_0000, 0x7fc0_0001, 0x7f80_0001, 1, 0x8000_0001, 0x7f7f_ffff, 0x3fc0_0000] {
        p.push(f32::from_bits(bits).into());
    }
    for bits in [0u64, 0x8000_0000_0000_0000, 0x3ff0_0000_0000_0000, 0xbff0_0000_0000_0000, 0x7ff0_0000_0000_0000, 0xfff0_0000_0000_0000, 0x7ff8_0000_0000_0000, 0xfff8_0000_0000_0000, 0x7ff8_0000_0000_0001, 0x7ff0_0000_0000_0001, 1, 0x8000_0000_0000_0001, 0x7fef_ffff_ffff_ffff, 0x3ff8_0000_0000_0000] {
        p.push(f64::from_bits(bits).into());
    }
    for s in ["", "a", "b", "ab", "aB", "a\0", "é", "1"] {
        p.push(s.to_string().into());
    }
    for c in ['a', 'b', '1', '\0', 'é', '😀'] {
        p.push(c.into());
    }
    for b in [vec![], vec![0u8], vec![1u8], vec![0x61], vec![0x61, 0x62], vec![0xff, 0]] {
        p.push(b.into());
    }
    // JSON, with permuted key insertion orders and number spellings
    {
        let mut m1 = serde_json::Map::new();
        m1.insert("a".into(), json!(1));
        m1.insert("b".into(), json!(2));
        let mut m2 = serde_json::Map::new();
        m2.insert("b".into(), json!(2));
        m2.insert("a".into(), json!(1));
        let mut m3 = serde_json::Map::new();
        m3.insert("a".into(), json!(2));
        m3.insert("b".into(), json!(1));
        for j in [
            json!(null), json!(true), json!(0), json!(1), json!(1.0), json!(-0.0), json!(0.0), json!([0.0]), json!([-0.0]), json!({"z": 0.0}), json!({"z": -0.0}), json!(1.5), json!("1"), json!(""), json!("a"), json!([]), json!([1]), json!([1, 2]), json!([2, 1]), json!({}),
            serde_json::Value::Object(m1), serde_json::Value::Object(m2), serde_json::Value::Object(m3), json!({"a": [1, {"b": null}]}),
        ] {
            p.push(j.into());
        }
    }
    let d1 = chrono::NaiveDate::from_ymd_opt(2020, 2, 29).unwrap();
    let d2 = chrono::NaiveDate::from_ymd_opt(2020, 3, 1).unwrap();
    let t1 = chrono::NaiveTime::from_hms_opt(1, 2, 3).unwrap();
    let t2 = chrono::NaiveTime::from_hms_nano_opt(1, 2, 3, 1).unwrap();
    for d in [d1, d2, chrono::NaiveDate::MIN] {
        p.push(d.into());
    }
    for t in [t1, t2, chrono::NaiveTime::MIN] {
        p.push(t.into());
    }
    for dt in [d1.and_time(t1), d1.and_time(t2), d2.and_time(t1)] {
        p.push(dt.into());
        p.push(chrono::Utc.from_utc_datetime(&dt).into());
        p.push(chrono::Local.from_utc_datetime(&dt).into());
        p.push(chrono::FixedOffset::east_opt(0).unwrap().from_utc_datetime(&dt).into());
        // the same instant in another offset
        p.push(chrono::FixedOffset::east_opt(3600).unwrap().from_utc_datetime(&dt).into());
    }
    let td1 = time::Date::from_calendar_date(2020, time::Month::February, 29).unwrap();
    let td2 = time::Date::from_calendar_date(2020, time::Month::March, 1).unwrap();
    let tt1 = time::Time::from_hms(1, 2, 3).unwrap();
    let tt2 = time::Time::from_hms_nano(1, 2, 3, 1).unwrap();
    for d in [td1, td2] {
        p.push(d.into());
    }
    for t in [tt1, tt2, time::Time::MIDNIGHT] {
        p.push(t.into());
    }
    for pd in [time::PrimitiveDateTime::new(td1, tt1), time::PrimitiveDateTime::new(td1, tt2), time::PrimitiveDateTime::new(td2, tt1)] {
        p.push(pd.into());
        p.push(pd.assume_utc().into());
        p.push(pd.assume_utc().to_offset(time::UtcOffset::from_hms(1, 0, 0).unwrap()).into());
    }
    for u in [0u128, 1, 2, u128::MAX] {
        p.push(uuid::Uuid::from_u128(u).into());
    }
    for (m, s) in [(0i64, 0u32), (1, 0), (10, 1), (100, 2), (15, 1), (-15, 1), (0, 5)] {
        p.push(rust_decimal::Decimal::new(m, s).into());
    }
    for s in ["0", "1", "1.0", "1.00", "1.5", "-1.5", "0.0"] {
        p.push(s.parse::<bigdecimal::BigDecimal>().unwrap().into());
    }
    // arrays: element types, nesting, floats inside
    p.push(Vec::<i32>::new().into());
    p.push(Vec::<i64>::new().into());
    p.push(vec![1i32].into());
    p.push(vec![1i64].into());
    p.push(vec![1i32, 2].into());
    p.push(vec![2i32, 1].into());
    p.push(vec![f32::NAN, 0.0].into());
    p.push(vec![f32::from_bits(0xffc0_0001), -0.0].into());
    p.push(vec![1.0f64].into());
    p.push(vec!["a".to_string()].into());
    p.push(Value::Array(ArrayType::Int, Some(Box::new(vec![Value::Int(None)]))));
    p.push(Value::Array(ArrayType::Int, Some(Box::new(vec![Value::Array(ArrayType::Int, Some(Box::new(vec![Value::Int(Some(1))])))]))));
    p.push(Value::Array(ArrayType::Int, Some(Box::new(vec![Value::Array(ArrayType::Int, Some(Box::new(vec![Value::Int(Some(2))])))]))));
    for v in [vec![], vec![0.0f32], vec![-0.0], vec![f32::NAN], vec![f32::from_bits(0x7fc0_0001)], vec![1.0, 2.0], vec![2.0, 1.0], vec![1.0], vec![1.0, 0.0]] {
        p.push(pgvector::Vector::from(v).into());
    }
    for s in ["10.0.0.1/8", "10.0.0.1/16", "10.0.0.2/8", "::1/128"] {
        p.push(s.parse::<ipnetwork::IpNetwork>().unwrap().into());
    }
    for b in [[0u8; 6], [1, 2, 3, 4, 5, 6], [6, 5, 4, 3, 2, 1]] {
        p.push(mac_address::MacAddress::new(b).into());
    }
    // the NULL of every variant (and of two array element types)
    let mut nulls: Vec<Value> = vec![];
    let mut seen = HashSet::new();
    for v in &p {
        let n = v.as_null();
        if seen.insert(format!("{:?}", n)) {
            nulls.push(n);
        }
    }
    p.extend(nulls);
    p
}

/// Variants whose Debug form is injective on the payload (no float / decimal / JSON semantics).
fn strict_variant(v: &Value) -> bool {
    matches!(
        variant(v).as_str(),
        "Bool" | "TinyInt" | "SmallInt" | "Int" | "BigInt" | "TinyUnsigned" | "SmallUnsigned" | "Unsigned" | "BigUnsigned" | "String" | "Char" | "Bytes" | "ChronoDate" | "ChronoTime" | "ChronoDateTime" | "TimeDate" | "TimeTime" | "TimeDateTime" | "Uuid" | "IpNetwork" | "MacAddress"
    )
}

fn report(rep: &Report, sig: &str, a: &Value, b: Option<&Value>, c: Option<&Value>, what: String) {
    rep.raw_failures.inc();
    // key by the variants involved (one defect shows for many payload pairs)
    let k = format!(
        "value-eq|{}|{}{}{}",
        sig,
        variant(a),
        b.map(|b| format!(",{}", variant(b))).unwrap_or_default(),
        c.map(|c| format!(",{}", variant(c))).unwrap_or_default()
    );
    rep.violation(Violation { key: k, what, case: json!({"sig": sig, "a": format!("{:?}", a), "b": b.map(|b| format!("{:?}", b)), "c": c.map(|c| format!("{:?}", c))}) });
}

pub fn run(rep: &Arc<Report>) {
    let p1 = pool();
    let p2 = pool();
    let n = p1.len();
    let evals = Counter::new();
    // independently built equal payloads are equal; reflexivity
    for i in 0..n {
        evals.inc();
        let (a, b) = (&p1[i], &p2[i]);
        match catch(|| (a == a, a == b, b == a, h(a), h(b))) {
            Err(p) => report(rep, "panic", a, None, None, format!("eq/hash of {:?} panicked: {p}", a)),
            Ok((refl, ab, ba, ha, hb)) => {
                if !refl {
                    report(rep, "not-reflexive", a, None, None, format!("{:?} != itself", a));
                }
                if !ab || !ba {
                    report(rep, "equal-payload-unequal", a, None, None, format!("two independently built {:?} compare unequal", a));
                }
                if ha != hb {
                    report(rep, "equal-payload-hash", a, None, None, format!("two independently built {:?} hash differently", a));
                }
            }
        }
    }
    // all ordered pairs
    let eq = |i: usize, j: usize| p1[i] == p2[j];
    let mut eqm = vec![false; n * n];
    for i in 0..n {
        for j in 0..n {
            eqm[i * n + j] = catch(|| eq(i, j)).unwrap_or(false);
        }
    }
    let hashes: Vec<u64> = p1.iter().map(|v| h(v)).collect();
    let mut equal_pairs = 0u64;
    for i in 0..n {
        for j in 0..n {
            evals.inc();
            let (a, b) = (&p1[i], &p1[j]);
            let e = eqm[i * n + j];
            if e != eqm[j * n + i] {
                report(rep, "not-symmetric", a, Some(b), None, format!("({:?} == {:?}) = {e} but the reverse = {}", a, b, !e));
            }
            if e && i != j {
                equal_pairs += 1;
            }
            if e && variant(a) != variant(b) {
                report(rep, "cross-variant-equal", a, Some(b), None, format!("{:?} == {:?} although the variants differ", a, b));
            }
            if e && hashes[i] != hashes[j] {
                report(rep, "equal-but-hash-differs", a, Some(b), None, format!("{:?} == {:?} but their hashes differ ({:#x} vs {:#x})", a, b, hashes[i], hashes[j]));
            }
            if !e && strict_variant(a) && format!("{:?}", a) == format!("{:?}", b) {
                report(rep, "equal-payload-unequal", a, Some(b), None, format!("{:?} != {:?}", a, b));
            }
            if e && strict_variant(a) && format!("{:?}", a) != format!("{:?}", b) {
                report(rep, "different-payload-equal", a, Some(b), None, format!("{:?} == {:?} although the payloads differ", a, b));
            }
        }
    }
    // all ordered triples: transitivity
    let triples = Counter::new();
    par_range((n * n) as u64, 256, |_w, ij| {
        let (i, j) = (ij as usize / n, ij as usize % n);
        if !eqm[i * n + j] {
            triples.add(n as u64);
            return;
        }
        for k in 0..n {
            triples.inc();
            if eqm[j * n + k] && !eqm[i * n + k] {
                report(rep, "not-transitive", &p1[i], Some(&p1[j]), Some(&p1[k]), format!("{:?} == {:?} and {:?} == {:?} but {:?} != {:?}", p1[i], p1[j], p1[j], p1[k], p1[i], p1[k]));
            }
        }
    });
    // HashSet round trip; number of classes
    let mut classes: Vec<usize> = vec![];
    for i in 0..n {
        if !classes.iter().any(|&c| eqm[c * n + i]) {
            classes.push(i);
        }
    }
    match catch(|| {
        let set: HashSet<Value> = p1.iter().cloned().collect();
        let missing: Vec<String> = p2.iter().filter(|v| !set.contains(*v)).map(|v| format!("{:?}", v)).collect();
        (set.len(), missing)
    }) {
        Err(p) => report(rep, "panic", &p1[0], None, None, format!("HashSet of the pool panicked: {p}")),
        Ok((len, missing)) => {
            if len != classes.len() {
                report(rep, "hashset-size", &p1[0], None, None, format!("HashSet holds {len} values, equality has {} classes", classes.len()));
            }
            if !missing.is_empty() {
                report(rep, "hashset-contains", &p1[0], None, None, format!("inserted values not found again: {:?}", &missing[..missing.len().min(5)]));
            }
        }
    }
    // value tuples of arity 1..3 (+Many) over a sub-pool
    let sub: Vec<usize> = (0..n).filter(|i| matches!(variant(&p1[*i]).as_str(), "Int" | "Float" | "Double" | "String" | "Json" | "Vector")).collect();
    let mk = |idx: &[usize], many: bool| -> ValueTuple {
        let v: Vec<Value> = idx.iter().map(|i| p1[*i].clone()).collect();
        match (v.len(), many) {
            (1, false) => ValueTuple::One(v[0].clone()),
            (2, false) => ValueTuple::Two(v[0].clone(), v[1].clone()),
            (3, false) => ValueTuple::Three(v[0].clone(), v[1].clone(), v[2].clone()),
            _ => ValueTuple::Many(v),
        }
    };
    let mut tuples: Vec<(Vec<usize>, ValueTuple)> = vec![];
    for &a in &sub {
        tuples.push((vec![a], mk(&[a], false)));
    }
    let sub2: Vec<usize> = sub.iter().copied().filter(|i| matches!(variant(&p1[*i]).as_str(), "Int" | "Float" | "Json")).collect();
    for &a in &sub2 {
        for &b in &sub2 {
            tuples.push((vec![a, b], mk(&[a, b], false)));
            tuples.push((vec![a, b], mk(&[a, b], true)));
        }
    }
    let sub3: Vec<usize> = sub2.iter().copied().filter(|i| matches!(variant(&p1[*i]).as_str(), "Float")).take(6).collect();
    for &a in &sub3 {
        for &b in &sub3 {
            for &c in &sub3 {
                tuples.push((vec![a, b, c], mk(&[a, b, c], false)));
            }
        }
    }
    let tn = tuples.len();
    let tuple_pairs = Counter::new();
    par_range(tn as u64, 16, |_w, i| {
        let (ia, ta) = &tuples[i as usize];
        for (ib, tb) in &tuples {
            tuple_pairs.inc();
            let e = ta == tb;
            let same_shape = std::mem::discriminant(ta) == std::mem::discriminant(tb) && ia.len() == ib.len();
            let comp_eq = same_shape && ia.iter().zip(ib).all(|(x, y)| eqm[x * n + y]);
            if e != comp_eq {
                report(rep, "tuple-eq", &p1[ia[0]], Some(&p1[ib[0]]), None, format!("{:?} == {:?} is {e}, component-wise equality says {comp_eq}", ta, tb));
            }
            if e && h(ta) != h(tb) {
                report(rep, "tuple-equal-but-hash-differs", &p1[ia[0]], Some(&p1[ib[0]]), None, format!("{:?} == {:?} but hashes differ", ta, tb));
            }
        }
    });
    let total = evals.get() + triples.get() + tuple_pairs.get();
    rep.set("pool_size", json!(n));
    rep.set("variants_in_pool", json!(p1.iter().map(variant).collect::<HashSet<_>>().len()));
    rep.set("ordered_pairs", json!(n * n));
    rep.set("ordered_triples", json!(triples.get()));
    rep.set("nontrivially_equal_pairs", json!(equal_pairs));
    rep.set("equivalence_classes", json!(classes.len()));
    rep.set("value_tuples", json!(tn));
    rep.set("value_tuple_pairs", json!(tuple_pairs.get()));
    rep.set("states", json!(n + tn));
    rep.set("transitions", json!(total));
    rep.set("traces_validated_against_impl", json!(total));
    rep.set("evaluations", json!(total));
    rep.set("distinct_nontrivial", json!(equal_pairs));
    rep.set("rule", json!("all ordered pairs and triples of the pool (every variant, NULLs, float/JSON/vector/array special cases), every payload built twice; distinct_nontrivial = ordered pairs of DIFFERENT pool entries that compare equal (where hash coherence actually bites)"));
    rep.set("exhaustive", json!(true));
    rep.sample(json!({"pair": [format!("{:?}", p1.iter().find(|v| variant(v) == "Float" && format!("{:?}", v).contains("NaN")).unwrap()), "Float(Some(NaN)) with another payload"], "expect": "equal, equal hashes"}));
    rep.sample(json!({"pair": ["Json {\"a\":1,\"b\":2}", "Json {\"b\":2,\"a\":1}"], "expect": "equal, equal hashes"}));
    rep.sample(json!({"pair": ["Int(Some(1))", "BigInt(Some(1))"], "expect": "never equal"}));
    rep.assume("std::collections::hash_map::DefaultHasher::new() (SipHash-1-3, fixed keys) stands for 'a fixed hasher'");
}

pub fn replay(case: &serde_json::Value) -> Option<String> {
    let sig = case["sig"].as_str().unwrap_or("").to_string();
    let rep = Arc::new(Report::new("C18", "quick"));
    run(&rep);
    rep.find_violation(&format!("value-eq|{sig}|"))
}
