use crate::report::Report;
use std::sync::Arc;

pub mod apivar;
pub mod c01;
pub mod exprapi;
pub mod c02;
pub mod c03;
pub mod c04;
pub mod c05;
pub mod c06;
pub mod c07;
pub mod c08;
pub mod c09;
pub mod c10;
pub mod c11;
pub mod c12;
pub mod c13;
pub mod c14;
pub mod c15;
pub mod c16;
#[cfg(feature = "hashable")]
pub mod c18;
pub mod c19;
pub mod c17;

pub struct Entry {
    pub id: &'static str,
    pub run: fn(&Arc<Report>),
    /// re-executes one recorded case through a plain function; Some(explanation) if it fails
    pub replay: fn(&serde_json::Value) -> Option<String>,
}

pub fn lookup(id: &str) -> Option<Entry> {
    Some(match id {
        "C01" => Entry { id: "C01", run: c01::run, replay: c01::replay },
        "C02" => Entry { id: "C02", run: c02::run, replay: c02::replay },
        "C03" => Entry { id: "C03", run: c03::run, replay: c03::replay },
        "C04" => Entry { id: "C04", run: c04::run, replay: c04::replay },
        "C05" => Entry { id: "C05", run: c05::run, replay: c05::replay },
        "C06" => Entry { id: "C06", run: c06::run, replay: c06::replay },
        "C07" => Entry { id: "C07", run: c07::run, replay: c07::replay },
        "C08" => Entry { id: "C08", run: c08::run, replay: c08::replay },
        "C09" => Entry { id: "C09", run: c09::run, replay: c09::replay },
        "C10" => Entry { id: "C10", run: c10::run, replay: c10::replay },
        "C11" => Entry { id: "C11", run: c11::run, replay: c11::replay },
        "C12" => Entry { id: "C12", run: c12::run, replay: c12::replay },
        "C13" => Entry { id: "C13", run: c13::run, replay: c13::replay },
        "C14" => Entry { id: "C14", run: c14::run, replay: c14::replay },
        "C15" => Entry { id: "C15", run: c15::run, replay: c15::replay },
        "C16" => Entry { id: "C16", run: c16::run, replay: c16::replay },
        "C17" => Entry { id: "C17", run: c17::run, replay: c17::replay },
        #[cfg(feature = "hashable")]
        "C18" => Entry { id: "C18", run: c18::run, replay: c18::replay },
        "C19" => Entry { id: "C19", run: c19::run, replay: c19::replay },
        _ => return None,
    })
}
