//! C06 — WHERE / HAVING / ON mean the conjunction of the conditions that were added (DESIGN §3.6).
//!
//! (i) every condition tree up to a depth / width / size bound (any / all, negate flags, empty
//! groups, add_option(None)) in every context; (ii) every sequence of up to 3 condition-adding
//! calls (state = the real ConditionHolder). Oracle: a three-valued evaluator over the tree under
//! all 81 TRUE/FALSE/NULL assignments of four atoms; the real SQLite engine executes the rendered
//! statement over a table holding every assignment; MySQL / Postgres text is parsed by the
//! reference parser and evaluated by the same evaluator.

use crate::exprparse::{parse_expression, PExpr};
use crate::lex::{Dialect, DIALECTS};
use crate::report::{minimize, Report, Violation};
use crate::sqlite::{Db, SqlVal};
use crate::util::{catch, par_items, Counter};
use sea_query::*;
use serde_json::json;
use std::cell::RefCell;
use std::sync::Arc;

#[derive(Clone, Debug, PartialEq)]
pub enum C {
    Atom(u8),
    /// add_option(None)
    Nothing,
    Group { any: bool, neg: bool, items: Vec<C> },
}

#[derive(Clone, Copy, PartialEq, Debug)]
pub enum T3 {
    T,
    F,
    N,
}
use T3::*;
fn and3(a: T3, b: T3) -> T3 {
    match (a, b) {
        (F, _) | (_, F) => F,
        (T, T) => T,
        _ => N,
    }
}
fn or3(a: T3, b: T3) -> T3 {
    match (a, b) {
        (T, _) | (_, T) => T,
        (F, F) => F,
        _ => N,
    }
}
fn not3(a: T3) -> T3 {
    match a {
        T => F,
        F => T,
        N => N,
    }
}

/// assignment k in 0..81 -> values of the four atoms
fn assignment(k: usize) -> [T3; 4] {
    let mut out = [N; 4];
    let mut k = k;
    for a in out.iter_mut() {
        *a = [T, F, N][k % 3];
        k /= 3;
    }
    out
}

/// Reference semantics: any = OR (empty = FALSE), all = AND (empty = TRUE), negated = NOT.
pub fn eval(c: &C, a: &[T3; 4]) -> Option<T3> {
    match c {
        C::Atom(4) => Some(T),
        C::Atom(5) => Some(F),
        C::Atom(6) => Some(N),
        C::Atom(i) => Some(a[*i as usize]),
        C::Nothing => None,
        C::Group { any, neg, items } => {
            let mut acc = if *any { F } else { T };
            for it in items {
                if let Some(v) = eval(it, a) {
                    acc = if *any { or3(acc, v) } else { and3(acc, v) };
                }
            }
            Some(if *neg { not3(acc) } else { acc })
        }
    }
}

const ATOMS: [&str; 7] = ["p", "q", "r", "s", "TRUE", "FALSE", "NULL"];
fn al(s: &str) -> Alias {
    Alias::new(s)
}
fn atom_expr(i: u8) -> SimpleExpr {
    match i {
        // boolean literal members
        4 => return Expr::value(true),
        5 => return Expr::value(false),
        6 => return SimpleExpr::Value(Value::Bool(None)),
        _ => {}
    }
    if i == 3 {
        // the fourth atom is a plain custom fragment with a top-level OR (same truth value as `"s" = 1`): a fragment must
        // keep its own grouping inside the conjunction
        return Expr::cust("s = 1 OR s = 1");
    }
    Expr::col(al(ATOMS[i as usize])).eq(1)
}

fn to_condition(any: bool, neg: bool, items: &[C]) -> Condition {
    let mut c = if any { Cond::any() } else { Cond::all() };
    for it in items {
        c = match it {
            C::Atom(i) => c.add(atom_expr(*i)),
            C::Nothing => c.add_option(None::<SimpleExpr>),
            C::Group { any, neg, items } => c.add_option(Some(to_condition(*any, *neg, items))),
        };
    }
    // `not()` toggles: in the repeated-negation pass a negated group is reached by three calls, a plain one by two
    if NOT_REPEATED.load(std::sync::atomic::Ordering::Relaxed) {
        c = c.not().not();
    }
    if neg {
        c = c.not();
    }
    c
}

/// when set, `to_condition` reaches every group's negation state through two additional `not()` calls
static NOT_REPEATED: std::sync::atomic::AtomicBool = std::sync::atomic::AtomicBool::new(false);

/// one condition-adding call
#[derive(Clone, Debug, PartialEq)]
pub enum Call {
    And(u8),
    AndOption(Option<u8>),
    Cond(C),
}
fn call_tree(c: &Call) -> C {
    match c {
        Call::And(i) | Call::AndOption(Some(i)) => C::Atom(*i),
        Call::AndOption(None) => C::Nothing,
        Call::Cond(t) => t.clone(),
    }
}

#[derive(Clone, Copy, Debug, PartialEq)]
pub enum Ctx {
    SelectWhere,
    Having,
    /// HAVING on an aggregate query without GROUP BY (the whole table is one group)
    HavingNoGroup,
    JoinOn,
    UpdateWhere,
    DeleteWhere,
    CaseWhen,
    OnConflictActionWhere,
    OnConflictTargetWhere,
    PartialIndex,
}
pub const CTXS: [Ctx; 10] = [Ctx::SelectWhere, Ctx::Having, Ctx::HavingNoGroup, Ctx::JoinOn, Ctx::UpdateWhere, Ctx::DeleteWhere, Ctx::CaseWhen, Ctx::OnConflictActionWhere, Ctx::OnConflictTargetWhere, Ctx::PartialIndex];

macro_rules! qb {
    ($d:expr, $stmt:expr) => {
        match $d {
            Dialect::Mysql => $stmt.to_string(MysqlQueryBuilder),
            Dialect::Postgres => $stmt.to_string(PostgresQueryBuilder),
            Dialect::Sqlite => $stmt.to_string(SqliteQueryBuilder),
        }
    };
}

fn apply_where<S: ConditionalStatement>(s: &mut S, calls: &[Call]) {
    for c in calls {
        match c {
            Call::And(i) => {
                s.and_where(atom_expr(*i));
            }
            Call::AndOption(o) => {
                s.and_where_option(o.map(atom_expr));
            }
            Call::Cond(C::Group { any, neg, items }) => {
                s.cond_where(to_condition(*any, *neg, items));
            }
            Call::Cond(C::Atom(i)) => {
                s.cond_where(atom_expr(*i));
            }
            Call::Cond(C::Nothing) => {}
        }
    }
}

/// a single Condition equivalent to the call list, for contexts that take one IntoCondition
fn single_condition(calls: &[Call]) -> Option<Condition> {
    match calls {
        [Call::Cond(C::Group { any, neg, items })] => Some(to_condition(*any, *neg, items)),
        [Call::Cond(C::Atom(i))] | [Call::And(i)] => Some(atom_expr(*i).into_condition()),
        _ => None,
    }
}

/// Render the statement of a context; None = this context cannot take this call list / dialect
fn render(ctx: Ctx, d: Dialect, calls: &[Call]) -> Option<Result<String, String>> {
    let r = catch(|| match ctx {
        Ctx::SelectWhere => {
            let mut s = Query::select();
            s.column(al("id")).from(al("tv"));
            apply_where(&mut s, calls);
            // the usual way to finish a builder chain: move the statement out, render the moved value
            let s = s.take();
            Some(qb!(d, s))
        }
        Ctx::Having | Ctx::HavingNoGroup => {
            let mut s = Query::select();
            if ctx == Ctx::Having {
                s.column(al("id")).from(al("tv")).group_by_columns([al("id"), al("p"), al("q"), al("r"), al("s")]);
            } else {
                s.expr(Func::count(Expr::col(Asterisk))).from(al("tv"));
            }
            for c in calls {
                match c {
                    Call::And(i) | Call::AndOption(Some(i)) => {
                        s.and_having(atom_expr(*i));
                    }
                    Call::AndOption(None) | Call::Cond(C::Nothing) => {}
                    Call::Cond(C::Group { any, neg, items }) => {
                        s.cond_having(to_condition(*any, *neg, items));
                    }
                    Call::Cond(C::Atom(i)) => {
                        s.cond_having(atom_expr(*i));
                    }
                }
            }
            let s = s.take();
            Some(qb!(d, s))
        }
        Ctx::JoinOn => {
            let c = single_condition(calls)?;
            let mut s = Query::select();
            s.column((al("tv"), al("id"))).from(al("tv")).inner_join(al("tw"), c);
            Some(qb!(d, s))
        }
        Ctx::UpdateWhere => {
            let mut s = Query::update();
            s.table(al("tv")).value(al("hit"), 1);
            apply_where(&mut s, calls);
            Some(qb!(d, s))
        }
        Ctx::DeleteWhere => {
            let mut s = Query::delete();
            s.from_table(al("tv"));
            apply_where(&mut s, calls);
            Some(qb!(d, s))
        }
        Ctx::CaseWhen => {
            let c = single_condition(calls)?;
            let mut s = Query::select();
            s.column(al("id")).from(al("tv")).and_where(Expr::expr(CaseStatement::new().case(c, 1).finally(0)).eq(1));
            Some(qb!(d, s))
        }
        Ctx::OnConflictActionWhere | Ctx::OnConflictTargetWhere => {
            if d == Dialect::Mysql {
                return None;
            }
            let mut oc = OnConflict::column(al("id"));
            oc.update_column(al("hit"));
            let action = ctx == Ctx::OnConflictActionWhere;
            for c in calls {
                match (c, action) {
                    (Call::And(i), true) => {
                        oc.action_and_where(atom_expr(*i));
                    }
                    (Call::And(i), false) => {
                        oc.target_and_where(atom_expr(*i));
                    }
                    (Call::AndOption(o), true) => {
                        oc.action_and_where_option(o.map(atom_expr));
                    }
                    (Call::AndOption(o), false) => {
                        oc.target_and_where_option(o.map(atom_expr));
                    }
                    (Call::Cond(C::Group { any, neg, items }), true) => {
                        oc.action_cond_where(to_condition(*any, *neg, items));
                    }
                    (Call::Cond(C::Group { any, neg, items }), false) => {
                        oc.target_cond_where(to_condition(*any, *neg, items));
                    }
                    (Call::Cond(C::Atom(i)), true) => {
                        oc.action_cond_where(atom_expr(*i));
                    }
                    (Call::Cond(C::Atom(i)), false) => {
                        oc.target_cond_where(atom_expr(*i));
                    }
                    (Call::Cond(C::Nothing), _) => {}
                }
            }
            let mut s = Query::insert();
            s.into_table(al("tv")).columns([al("id")]).values_panic([1.into()]).on_conflict(oc);
            Some(qb!(d, s))
        }
        Ctx::PartialIndex => {
            if d == Dialect::Mysql {
                return None;
            }
            let mut s = Index::create();
            s.name("ix").table(al("tv")).col(al("id"));
            apply_where(&mut s, calls);
            Some(qb!(d, s))
        }
    });
    match r {
        Ok(Some(s)) => Some(Ok(s)),
        Ok(None) => None,
        Err(p) => Some(Err(p)),
    }
}

/// the predicate text of a rendered statement (None = no predicate keyword present)
fn predicate_text(ctx: Ctx, sql: &str) -> Result<Option<String>, String> {
    let (kw, end): (&str, Option<&str>) = match ctx {
        Ctx::SelectWhere | Ctx::UpdateWhere | Ctx::DeleteWhere | Ctx::PartialIndex => (" WHERE ", None),
        Ctx::Having | Ctx::HavingNoGroup => (" HAVING ", None),
        Ctx::JoinOn => (" ON ", None),
        Ctx::CaseWhen => (" WHEN (", Some(") THEN ")),
        Ctx::OnConflictActionWhere => (" WHERE ", None),
        Ctx::OnConflictTargetWhere => (" WHERE ", Some(" DO UPDATE ")),
    };
    // ON CONFLICT has two predicates: the one of the conflict target (before DO UPDATE) and the one of the action (after
    // DO UPDATE SET); each context supplies one of them and the other must not appear
    if matches!(ctx, Ctx::OnConflictActionWhere | Ctx::OnConflictTargetWhere) {
        let Some(du) = sql.find(" DO UPDATE SET ") else { return Err(format!("no DO UPDATE SET in {sql:?}")) };
        let (before, after) = (&sql[..du], &sql[du + " DO UPDATE SET ".len()..]);
        let (own, other, other_name) = if ctx == Ctx::OnConflictActionWhere { (after, before, "conflict target") } else { (before, after, "action") };
        if other.contains(" WHERE ") {
            return Err(format!("the {other_name} was given no condition but has a WHERE: {sql:?}"));
        }
        return Ok(own.find(" WHERE ").map(|p| own[p + " WHERE ".len()..].to_string()));
    }
    let Some(pos) = sql.find(kw) else { return Ok(None) };
    let rest = &sql[pos + kw.len()..];
    let rest = match end {
        Some(e) => &rest[..rest.rfind(e).ok_or_else(|| format!("no {e:?} in {sql:?}"))?],
        None => rest,
    };
    Ok(Some(rest.to_string()))
}

fn eval_pexpr(e: &PExpr, a: &[T3; 4]) -> Result<T3, String> {
    Ok(match e {
        PExpr::Bin(op, l, r) if op == "AND" => and3(eval_pexpr(l, a)?, eval_pexpr(r, a)?),
        PExpr::Bin(op, l, r) if op == "OR" => or3(eval_pexpr(l, a)?, eval_pexpr(r, a)?),
        PExpr::Un(op, x) if op == "NOT" => not3(eval_pexpr(x, a)?),
        PExpr::Kw(k) if k == "TRUE" => T,
        PExpr::Kw(k) if k == "FALSE" => F,
        PExpr::Kw(k) if k == "NULL" => N,
        PExpr::Bin(op, l, r) if op == "=" => match (&**l, &**r) {
            (PExpr::Col(c), PExpr::Num(n)) if c.len() == 1 && n == "1" => {
                let i = ATOMS[..4].iter().position(|x| *x == c[0]).ok_or_else(|| format!("unknown atom {:?}", c))?;
                a[i]
            }
            // the bare word of the custom-fragment atom
            (PExpr::Kw(c), PExpr::Num(n)) if n == "1" && ATOMS[..4].contains(&c.as_str()) => a[ATOMS[..4].iter().position(|x| *x == c.as_str()).unwrap()],
            _ => return Err(format!("unexpected comparison {:?}", e)),
        },
        other => return Err(format!("unexpected predicate node {:?}", other)),
    })
}

thread_local! {
    static DB: RefCell<Option<Db>> = RefCell::new(None);
}
fn with_db<R>(f: impl FnOnce(&Db) -> R) -> R {
    DB.with(|c| {
        let mut g = c.borrow_mut();
        let db = g.get_or_insert_with(|| {
            let db = Db::open_memory();
            db.exec("CREATE TABLE tv (id INTEGER PRIMARY KEY, p, q, r, s, hit); CREATE TABLE tw (z); INSERT INTO tw VALUES (1);").unwrap();
            for k in 0..81 {
                let a = assignment(k);
                let v = |t: T3| match t {
                    T => "1",
                    F => "0",
                    N => "NULL",
                };
                db.exec(&format!("INSERT INTO tv VALUES ({k}, {}, {}, {}, {}, 0)", v(a[0]), v(a[1]), v(a[2]), v(a[3]))).unwrap();
            }
            db
        });
        f(db)
    })
}

fn ids(rows: &crate::sqlite::Rows) -> Vec<i64> {
    let mut v: Vec<i64> = rows.rows.iter().filter_map(|r| if let Some(SqlVal::Int(i)) = r.get(0) { Some(*i) } else { None }).collect();
    v.sort();
    v
}

/// ids for which the engine finds the predicate TRUE
fn engine_true_ids(ctx: Ctx, sql: &str) -> Result<Vec<i64>, String> {
    with_db(|db| match ctx {
        Ctx::SelectWhere | Ctx::Having | Ctx::JoinOn | Ctx::CaseWhen => db.query(sql, &[]).map(|r| ids(&r)),
        Ctx::UpdateWhere => {
            db.exec("BEGIN")?;
            let r = db.exec(sql).and_then(|_| db.query("SELECT id FROM tv WHERE hit = 1", &[]).map(|r| ids(&r)));
            db.exec("ROLLBACK")?;
            r
        }
        Ctx::DeleteWhere => {
            db.exec("BEGIN")?;
            let r = db.exec(sql).and_then(|_| db.query("SELECT id FROM tv", &[]).map(|r| ids(&r)));
            db.exec("ROLLBACK")?;
            r.map(|left| (0..81).filter(|i| !left.contains(i)).collect())
        }
        _ => Err("no engine context".into()),
    })
}

pub struct Stats {
    pub engine: Counter,
    pub parsed: Counter,
}

pub fn check_calls(ctx: Ctx, d: Dialect, calls: &[Call], st: Option<&Stats>) -> Result<bool, (String, String)> {
    let Some(r) = render(ctx, d, calls) else { return Ok(false) };
    let sql = r.map_err(|p| ("panic".to_string(), format!("rendering panicked: {p}")))?;
    // reference: the AND of all supplied conditions
    let trees: Vec<C> = calls.iter().map(call_tree).collect();
    let supplied = trees.iter().any(|t| *t != C::Nothing);
    let want: Vec<i64> = (0..81usize)
        .filter(|k| {
            let a = assignment(*k);
            let mut acc = T;
            for t in &trees {
                if let Some(v) = eval(t, &a) {
                    acc = and3(acc, v);
                }
            }
            acc == T
        })
        .map(|k| k as i64)
        .collect();
    let pred = predicate_text(ctx, &sql).map_err(|e| ("clause-structure".to_string(), e))?;
    if !supplied {
        if pred.is_some() {
            return Err(("predicate-without-condition".into(), format!("no condition was supplied but a predicate is rendered: {sql:?}")));
        }
        return Ok(true);
    }
    // text side: parse with the dialect's reference parser, evaluate; a statement that renders no
    // predicate selects every row (sound only if the supplied conditions are TRUE everywhere)
    let mut got = vec![];
    match &pred {
        None => got = (0..81).collect(),
        Some(pred) => {
            let parsed = parse_expression(d, pred).map_err(|e| ("unparsable".to_string(), format!("{sql:?}: {e}")))?;
            if let Some(st) = st {
                st.parsed.inc();
            }
            for k in 0..81usize {
                if eval_pexpr(&parsed, &assignment(k)).map_err(|e| ("unparsable".to_string(), format!("{sql:?}: {e}")))? == T {
                    got.push(k as i64);
                }
            }
        }
    }
    if got != want {
        let sig = if pred.is_none() { "predicate-missing" } else { "predicate-not-equivalent" };
        return Err((sig.into(), format!("{sql:?}: as parsed for {} the predicate is TRUE for assignments {:?} (only in rendering) / misses {:?}", d.name(), diff(&got, &want), diff(&want, &got))));
    }
    // engine side
    if d == Dialect::Sqlite && matches!(ctx, Ctx::SelectWhere | Ctx::Having | Ctx::JoinOn | Ctx::UpdateWhere | Ctx::DeleteWhere | Ctx::CaseWhen) {
        if let Some(st) = st {
            st.engine.inc();
        }
        match engine_true_ids(ctx, &sql) {
            Ok(e) if e == want => {}
            Ok(e) => return Err(("engine-rows-differ".into(), format!("sqlite3 on {sql:?} selects assignments {:?} (only in engine) / misses {:?}", diff(&e, &want), diff(&want, &e)))),
            Err(m) => return Err(("engine-rejects".into(), format!("sqlite3 rejects {sql:?}: {m}"))),
        }
    }
    Ok(true)
}

fn diff(a: &[i64], b: &[i64]) -> Vec<String> {
    a.iter().filter(|x| !b.contains(x)).take(4).map(|k| format!("{:?}", assignment(*k as usize))).collect()
}

/// all items (atoms / Nothing / groups) of nesting depth <= depth whose size <= budget
fn gen_items(depth: usize, width: usize, budget: usize, next_atom: &mut u8) -> Vec<(C, usize)> {
    let _ = next_atom;
    let mut out = vec![(C::Atom(0), 1), (C::Nothing, 1)];
    if depth == 0 || budget < 1 {
        return out;
    }
    for g in gen_groups(depth, width, budget) {
        out.push(g);
    }
    out
}

/// all groups with nesting depth <= depth, at most `width` members, total size <= budget (the group counts 1)
fn gen_groups(depth: usize, width: usize, budget: usize) -> Vec<(C, usize)> {
    let mut out = vec![];
    if budget == 0 {
        return out;
    }
    // member lists
    let mut lists: Vec<(Vec<C>, usize)> = vec![(vec![], 0)];
    let mut frontier = lists.clone();
    for _ in 0..width {
        let mut next = vec![];
        for (l, sz) in &frontier {
            let remaining = budget - 1 - sz;
            if remaining == 0 {
                continue;
            }
            let mut dummy = 0;
            for (it, isz) in gen_items(depth - 1, width, remaining, &mut dummy) {
                if isz <= remaining {
                    let mut l2 = l.clone();
                    l2.push(it);
                    next.push((l2, sz + isz));
                }
            }
        }
        lists.extend(next.iter().cloned());
        frontier = next;
    }
    for (l, sz) in lists {
        for any in [false, true] {
            for neg in [false, true] {
                out.push((C::Group { any, neg, items: l.clone() }, sz + 1));
            }
        }
    }
    out
}

/// number the atoms left to right (mod 4) so that sibling atoms differ
fn number_atoms(c: &mut C, next: &mut u8) {
    match c {
        C::Atom(i) if *i >= 4 => {}
        C::Atom(i) => {
            *i = *next % 4;
            *next += 1;
        }
        C::Nothing => {}
        C::Group { items, .. } => {
            for it in items {
                number_atoms(it, next);
            }
        }
    }
}

pub fn show(c: &C) -> String {
    match c {
        C::Atom(i) => ATOMS[*i as usize].to_string(),
        C::Nothing => "None".into(),
        C::Group { any, neg, items } => format!("{}{}[{}]", if *neg { "not " } else { "" }, if *any { "any" } else { "all" }, items.iter().map(show).collect::<Vec<_>>().join(", ")),
    }
}
fn show_calls(calls: &[Call]) -> String {
    calls
        .iter()
        .map(|c| match c {
            Call::And(i) => format!("and({})", ATOMS[*i as usize]),
            Call::AndOption(None) => "and_option(None)".into(),
            Call::AndOption(Some(i)) => format!("and_option(Some({}))", ATOMS[*i as usize]),
            Call::Cond(t) => format!("cond({})", show(t)),
        })
        .collect::<Vec<_>>()
        .join("; ")
}

fn tree_reductions(c: &C) -> Vec<C> {
    let mut out = vec![];
    if let C::Group { any, neg, items } = c {
        for i in 0..items.len() {
            let mut v = items.clone();
            v.remove(i);
            out.push(C::Group { any: *any, neg: *neg, items: v });
        }
        for (i, it) in items.iter().enumerate() {
            if let C::Group { .. } = it {
                let mut v = items.clone();
                v[i] = C::Atom(3);
                out.push(C::Group { any: *any, neg: *neg, items: v });
            }
            for r in tree_reductions(it) {
                let mut v = items.clone();
                v[i] = r;
                out.push(C::Group { any: *any, neg: *neg, items: v });
            }
        }
        if *neg {
            out.push(C::Group { any: *any, neg: false, items: items.clone() });
        }
    }
    out
}

fn call_reductions(calls: &Vec<Call>) -> Vec<Vec<Call>> {
    let mut out = vec![];
    for i in 0..calls.len() {
        let mut v = calls.clone();
        v.remove(i);
        out.push(v);
    }
    for (i, c) in calls.iter().enumerate() {
        if let Call::Cond(t) = c {
            for r in tree_reductions(t) {
                let mut v = calls.clone();
                v[i] = Call::Cond(r);
                out.push(v);
            }
        }
    }
    out
}

fn calls_to_json(calls: &[Call]) -> serde_json::Value {
    fn tj(c: &C) -> serde_json::Value {
        match c {
            C::Atom(i) => json!({"atom": i}),
            C::Nothing => json!("none"),
            C::Group { any, neg, items } => json!({"any": any, "neg": neg, "items": items.iter().map(tj).collect::<Vec<_>>()}),
        }
    }
    json!(calls
        .iter()
        .map(|c| match c {
            Call::And(i) => json!({"and": i}),
            Call::AndOption(o) => json!({"and_option": o}),
            Call::Cond(t) => json!({"cond": tj(t)}),
        })
        .collect::<Vec<_>>())
}
fn calls_from_json(j: &serde_json::Value) -> Vec<Call> {
    fn tf(j: &serde_json::Value) -> C {
        if let Some(i) = j["atom"].as_u64() {
            C::Atom(i as u8)
        } else if j.is_string() {
            C::Nothing
        } else {
            C::Group { any: j["any"].as_bool().unwrap_or(false), neg: j["neg"].as_bool().unwrap_or(false), items: j["items"].as_array().map(|a| a.iter().map(tf).collect()).unwrap_or_default() }
        }
    }
    j.as_array()
        .map(|a| {
            a.iter()
                .map(|c| {
                    if let Some(i) = c["and"].as_u64() {
                        Call::And(i as u8)
                    } else if c.get("and_option").is_some() {
                        Call::AndOption(c["and_option"].as_u64().map(|x| x as u8))
                    } else {
                        Call::Cond(tf(&c["cond"]))
                    }
                })
                .collect()
        })
        .unwrap_or_default()
}

fn record(rep: &Report, ctx: Ctx, d: Dialect, calls: &[Call], sig: &str) {
    rep.raw_failures.inc();
    let min = minimize(calls.to_vec(), sig, call_reductions, |c| check_calls(ctx, d, c, None).err().map(|e| e.0));
    let det = check_calls(ctx, d, &min, None).err().map(|e| e.1).unwrap_or_default();
    rep.violation(Violation {
        key: format!("{:?}|{}|{}|{}", ctx, d.name(), sig, show_calls(&min)),
        what: format!("{:?} on {}: calls [{}]: {}", ctx, d.name(), show_calls(&min), det),
        case: json!({"ctx": format!("{:?}", ctx), "dialect": d.name(), "calls": calls_to_json(&min)}),
    });
}

/// (iii) wide groups: an `any` / `all` group (plain and negated) of every width up to the bound, with the one member that
/// decides the truth value at the first, the middle and the last position (all others are a second atom), and the same
/// through that many `and_where` calls. A rendering that loses, reorders into another group or duplicates members of a wide
/// group changes the truth table.
fn wide_groups(rep: &Report, st: &Stats, max_width: usize) -> u64 {
    let mut n = 0;
    let mut cases: Vec<Vec<Call>> = vec![];
    for w in 2..=max_width {
        for pos in [0, w / 2, w - 1] {
            let items: Vec<C> = (0..w).map(|i| if i == pos { C::Atom(0) } else { C::Atom(1) }).collect();
            for any in [false, true] {
                for neg in [false, true] {
                    cases.push(vec![Call::Cond(C::Group { any, neg, items: items.clone() })]);
                }
            }
            cases.push((0..w).map(|i| Call::And(if i == pos { 0 } else { 1 })).collect());
        }
    }
    // widths ascend: the first failing width of a (context, dialect, signature, kind) is the one reported
    let mut reported: std::collections::HashSet<String> = Default::default();
    for calls in &cases {
        for ctx in [Ctx::SelectWhere, Ctx::Having] {
            for d in DIALECTS {
                n += 1;
                if let Err((sig, det)) = check_calls(ctx, d, calls, Some(st)) {
                    rep.raw_failures.inc();
                    let kind0 = match &calls[0] {
                        Call::Cond(C::Group { any, neg, .. }) => format!("{neg}{any}"),
                        _ => "calls".to_string(),
                    };
                    if !reported.insert(format!("{:?}|{}|{}|{}", ctx, d.name(), sig, kind0)) {
                        continue;
                    }
                    let (w, kind) = match &calls[0] {
                        Call::Cond(C::Group { any, neg, items }) => (items.len(), format!("{}{}", if *neg { "not " } else { "" }, if *any { "any" } else { "all" })),
                        _ => (calls.len(), "and_where calls".to_string()),
                    };
                    let det: String = det.chars().take(400).collect();
                    rep.violation(Violation {
                        key: format!("{:?}|{}|{}|wide {} of {} members", ctx, d.name(), sig, kind, w),
                        what: format!("{:?} on {}: {} with {} members: {}", ctx, d.name(), kind, w, det),
                        case: json!({"ctx": format!("{:?}", ctx), "dialect": d.name(), "calls": calls_to_json(calls)}),
                    });
                }
            }
        }
    }
    n
}

/// (iv) the ON CONFLICT builder as a state machine: every sequence of up to 4 calls over condition-adding calls (action and
/// target side) and action-setting calls (do_nothing, do_nothing_on, update_column, value). Conditions accumulate whatever
/// happens to the action in between; the action is the last do_nothing, or DO UPDATE once an update call follows it. Each
/// predicate must be the AND of the conditions given to ITS side (absent if none). DO NOTHING with action conditions is
/// out of domain (there is no such statement).
#[derive(Clone, Copy, Debug, PartialEq)]
enum OcCall {
    ActionAnd,
    ActionCond,
    ActionOption,
    TargetAnd,
    TargetCond,
    DoNothing,
    DoNothingOn,
    UpdateColumn,
    Value,
}
const OC_MENU: [OcCall; 9] = [OcCall::ActionAnd, OcCall::ActionCond, OcCall::ActionOption, OcCall::TargetAnd, OcCall::TargetCond, OcCall::DoNothing, OcCall::DoNothingOn, OcCall::UpdateColumn, OcCall::Value];

fn oc_tree(c: OcCall) -> Option<(bool, C)> {
    // (is action side, condition)
    match c {
        OcCall::ActionAnd => Some((true, C::Atom(0))),
        OcCall::ActionCond => Some((true, C::Group { any: true, neg: false, items: vec![C::Atom(1), C::Atom(2)] })),
        OcCall::ActionOption => Some((true, C::Atom(3))),
        OcCall::TargetAnd => Some((false, C::Atom(2))),
        OcCall::TargetCond => Some((false, C::Group { any: true, neg: false, items: vec![C::Atom(0), C::Atom(3)] })),
        _ => None,
    }
}

fn check_oc_sequence(d: Dialect, seq: &[OcCall], st: Option<&Stats>) -> Result<bool, (String, String)> {
    let sql = catch(|| {
        let mut oc = OnConflict::column(al("id"));
        for c in seq {
            match c {
                OcCall::ActionAnd => {
                    oc.action_and_where(atom_expr(0));
                }
                OcCall::ActionCond => {
                    oc.action_cond_where(Cond::any().add(atom_expr(1)).add(atom_expr(2)));
                }
                OcCall::ActionOption => {
                    oc.action_and_where_option(Some(atom_expr(3)));
                }
                OcCall::TargetAnd => {
                    oc.target_and_where(atom_expr(2));
                }
                OcCall::TargetCond => {
                    oc.target_cond_where(Cond::any().add(atom_expr(0)).add(atom_expr(3)));
                }
                OcCall::DoNothing => {
                    oc.do_nothing();
                }
                OcCall::DoNothingOn => {
                    oc.do_nothing_on([al("id")]);
                }
                OcCall::UpdateColumn => {
                    oc.update_column(al("hit"));
                }
                OcCall::Value => {
                    oc.value(al("hit"), Expr::col(al("hit")).add(1));
                }
            }
        }
        let mut s = Query::insert();
        s.into_table(al("tv")).columns([al("id")]).values_panic([1.into()]).on_conflict(oc);
        qb!(d, s)
    })
    .map_err(|p| ("panic".to_string(), format!("rendering panicked: {p}")))?;
    // reference state
    let mut update = false; // the action is DO UPDATE
    let mut any_action = false;
    for c in seq {
        match c {
            OcCall::DoNothing | OcCall::DoNothingOn => {
                update = false;
                any_action = true;
            }
            OcCall::UpdateColumn | OcCall::Value => {
                update = true;
                any_action = true;
            }
            _ => {}
        }
    }
    let action_conds: Vec<C> = seq.iter().filter_map(|c| oc_tree(*c)).filter(|(a, _)| *a).map(|(_, t)| t).collect();
    let target_conds: Vec<C> = seq.iter().filter_map(|c| oc_tree(*c)).filter(|(a, _)| !*a).map(|(_, t)| t).collect();
    if !any_action || (!update && !action_conds.is_empty()) {
        return Ok(false);
    }
    let Some(oc_at) = sql.find(" ON CONFLICT ") else { return Err(("clause-structure".into(), format!("no ON CONFLICT in {sql:?}"))) };
    let tail = &sql[oc_at..];
    let (before, after) = if update {
        let Some(du) = tail.find(" DO UPDATE SET ") else { return Err(("clause-structure".into(), format!("the action is an update but there is no DO UPDATE SET in {sql:?}"))) };
        (&tail[..du], &tail[du + " DO UPDATE SET ".len()..])
    } else {
        let Some(dn) = tail.find(" DO NOTHING") else { return Err(("clause-structure".into(), format!("the action is do-nothing but there is no DO NOTHING in {sql:?}"))) };
        (&tail[..dn], &tail[dn + " DO NOTHING".len()..])
    };
    for (side, text, conds) in [("conflict target", before, &target_conds), ("action", after, &action_conds)] {
        let pred = text.find(" WHERE ").map(|p| &text[p + " WHERE ".len()..]);
        match (pred, conds.is_empty()) {
            (None, true) => {}
            (Some(_), true) => return Err(("clause-structure".into(), format!("the {side} was given no condition but has a WHERE: {sql:?}"))),
            (None, false) => return Err(("predicate-missing".into(), format!("the {side} was given {} condition(s) but has no WHERE: {sql:?}", conds.len()))),
            (Some(pred), false) => {
                let parsed = parse_expression(d, pred).map_err(|e| ("unparsable".to_string(), format!("{sql:?}: {e}")))?;
                if let Some(st) = st {
                    st.parsed.inc();
                }
                for k in 0..81usize {
                    let a = assignment(k);
                    let mut want = T;
                    for t in conds.iter() {
                        if let Some(v) = eval(t, &a) {
                            want = and3(want, v);
                        }
                    }
                    let got = eval_pexpr(&parsed, &a).map_err(|e| ("unparsable".to_string(), format!("{sql:?}: {e}")))?;
                    if (got == T) != (want == T) {
                        return Err(("predicate-not-equivalent".into(), format!("the {side} predicate of {sql:?} is {:?} under {:?}, the AND of the conditions given to that side is {:?}", got, a, want)));
                    }
                }
            }
        }
    }
    Ok(true)
}

fn on_conflict_machine(rep: &Report, st: &Stats) -> (u64, u64) {
    let mut seqs: Vec<Vec<OcCall>> = vec![];
    let mut frontier: Vec<Vec<OcCall>> = vec![vec![]];
    for _ in 0..4 {
        let mut next = vec![];
        for s in &frontier {
            for c in OC_MENU {
                let mut s2 = s.clone();
                s2.push(c);
                next.push(s2);
            }
        }
        seqs.extend(next.iter().cloned());
        frontier = next;
    }
    let (mut checked, mut ood) = (0u64, 0u64);
    for s in &seqs {
        for d in [Dialect::Postgres, Dialect::Sqlite] {
            match check_oc_sequence(d, s, Some(st)) {
                Ok(true) => checked += 1,
                Ok(false) => ood += 1,
                Err((sig, _)) => {
                    checked += 1;
                    rep.raw_failures.inc();
                    let min = minimize(s.clone(), &sig, |v: &Vec<OcCall>| (0..v.len()).map(|i| { let mut w = v.clone(); w.remove(i); w }).collect(), |v| check_oc_sequence(d, v, None).err().map(|e| e.0));
                    let det = check_oc_sequence(d, &min, None).err().map(|e| e.1).unwrap_or_default();
                    rep.violation(Violation {
                        key: format!("OnConflictBuilder|{}|{}|{:?}", d.name(), sig, min),
                        what: format!("OnConflict calls {:?} on {}: {}", min, d.name(), det),
                        case: json!({"oc_sequence": min.iter().map(|c| format!("{:?}", c)).collect::<Vec<_>>(), "dialect": d.name()}),
                    });
                }
            }
        }
    }
    (checked, ood)
}

pub fn run(rep: &Arc<Report>) {
    let (depth, width, budget) = if rep.thorough() { (3, 3, 8) } else { (3, 3, 7) };
    let st = Stats { engine: Counter::new(), parsed: Counter::new() };
    let evals = Counter::new();
    // (i) single trees
    let mut trees: Vec<C> = gen_groups(depth, width, budget).into_iter().map(|(c, _)| c).collect();
    for t in trees.iter_mut() {
        let mut n = 0;
        number_atoms(t, &mut n);
    }
    let n_trees = trees.len();
    // the full tree set runs in SELECT WHERE; a smaller complete set (depth<=2,width<=2) in every other context
    let mut small: Vec<C> = gen_groups(2, 2, 5).into_iter().map(|(c, _)| c).collect();
    for t in small.iter_mut() {
        let mut n = 0;
        number_atoms(t, &mut n);
    }
    par_items(&trees, |_w, t| {
        let calls = [Call::Cond(t.clone())];
        for d in DIALECTS {
            evals.inc();
            if let Err((sig, _)) = check_calls(Ctx::SelectWhere, d, &calls, Some(&st)) {
                record(rep, Ctx::SelectWhere, d, &calls, &sig);
            }
        }
    });
    // (i-b) boolean literal members: every tree of the small set with one atom replaced, in turn, by TRUE, FALSE and the
    //       typed NULL literal, in WHERE, HAVING and CASE WHEN
    let mut with_literals: Vec<C> = vec![];
    fn atoms_in(c: &C) -> usize {
        match c {
            C::Atom(_) => 1,
            C::Nothing => 0,
            C::Group { items, .. } => items.iter().map(atoms_in).sum(),
        }
    }
    fn replace_nth(c: &C, n: &mut usize, lit: u8) -> C {
        match c {
            C::Atom(i) => {
                let r = if *n == 0 { C::Atom(lit) } else { C::Atom(*i) };
                *n = n.wrapping_sub(1);
                r
            }
            C::Nothing => C::Nothing,
            C::Group { any, neg, items } => C::Group { any: *any, neg: *neg, items: items.iter().map(|x| replace_nth(x, n, lit)).collect() },
        }
    }
    for t in &small {
        for k in 0..atoms_in(t) {
            for lit in [4u8, 5, 6] {
                let mut n = k;
                with_literals.push(replace_nth(t, &mut n, lit));
            }
        }
    }
    par_items(&with_literals, |_w, t| {
        let calls = [Call::Cond(t.clone())];
        for ctx in [Ctx::SelectWhere, Ctx::Having, Ctx::CaseWhen, Ctx::DeleteWhere] {
            for d in DIALECTS {
                match check_calls(ctx, d, &calls, Some(&st)) {
                    Ok(true) => evals.inc(),
                    Ok(false) => {}
                    Err((sig, _)) => {
                        evals.inc();
                        record(rep, ctx, d, &calls, &sig);
                    }
                }
            }
        }
    });
    rep.set("trees_with_boolean_literal_members", json!(with_literals.len()));
    // (i-c) CASE with two WHEN branches (equal and different results): the value is that of the first branch whose condition
    //       is TRUE; executed on the engine
    let branch_pool: Vec<C> = gen_groups(1, 2, 3).into_iter().map(|(mut c, _)| { let mut n = 0; number_atoms(&mut c, &mut n); c }).filter(|c| atoms_in(c) > 0).collect();
    let case_cases = Counter::new();
    par_items(&branch_pool, |_w, c1| {
        for c2 in &branch_pool {
            // shift the second branch's atoms so that the two conditions are independent
            fn shift(c: &C) -> C {
                match c {
                    C::Atom(i) if *i < 4 => C::Atom((*i + 2) % 4),
                    C::Group { any, neg, items } => C::Group { any: *any, neg: *neg, items: items.iter().map(shift).collect() },
                    other => other.clone(),
                }
            }
            let c2 = shift(c2);
            for (r1, r2) in [(1, 1), (1, 0), (0, 1)] {
                case_cases.inc();
                let cond = |c: &C| match c {
                    C::Group { any, neg, items } => to_condition(*any, *neg, items),
                    C::Atom(i) => atom_expr(*i).into_condition(),
                    C::Nothing => Cond::all(),
                };
                let sql = match catch(|| {
                    let mut s = Query::select();
                    s.column(al("id")).from(al("tv")).and_where(Expr::expr(CaseStatement::new().case(cond(c1), r1).case(cond(&c2), r2).finally(0)).eq(1));
                    s.to_string(SqliteQueryBuilder)
                }) {
                    Ok(s) => s,
                    Err(p) => {
                        rep.raw_failures.inc();
                        rep.violation(Violation { key: "case-branches|sqlite|panic".into(), what: format!("CASE WHEN {} THEN {r1} WHEN {} THEN {r2}: rendering panicked: {p}", show(c1), show(&c2)), case: json!({"case_branches": true}) });
                        continue;
                    }
                };
                let want: Vec<i64> = (0..81usize)
                    .filter(|k| {
                        let a = assignment(*k);
                        let v = if eval(c1, &a) == Some(T) { r1 } else if eval(&c2, &a) == Some(T) { r2 } else { 0 };
                        v == 1
                    })
                    .map(|k| k as i64)
                    .collect();
                st.engine.inc();
                match engine_true_ids(Ctx::CaseWhen, &sql) {
                    Ok(e) if e == want => {}
                    Ok(e) => {
                        rep.raw_failures.inc();
                        rep.violation(Violation { key: format!("case-branches|sqlite|engine-rows-differ|results {}", if r1 == r2 { "equal" } else { "different" }), what: format!("CASE WHEN {} THEN {r1} WHEN {} THEN {r2} ELSE 0: sqlite3 on {sql:?} is 1 for assignments {:?} (only in engine) / misses {:?}", show(c1), show(&c2), diff(&e, &want), diff(&want, &e)), case: json!({"case_branches": true}) });
                    }
                    Err(m) => {
                        rep.raw_failures.inc();
                        rep.violation(Violation { key: "case-branches|sqlite|engine-rejects".into(), what: format!("sqlite3 rejects {sql:?}: {m}"), case: json!({"case_branches": true}) });
                    }
                }
            }
        }
    });
    rep.set("case_two_branch_statements_executed", json!(case_cases.get()));
    par_items(&small, |_w, t| {
        let calls = [Call::Cond(t.clone())];
        for ctx in CTXS.iter().skip(1) {
            for d in DIALECTS {
                match check_calls(*ctx, d, &calls, Some(&st)) {
                    Ok(true) => evals.inc(),
                    Ok(false) => {}
                    Err((sig, _)) => {
                        evals.inc();
                        record(rep, *ctx, d, &calls, &sig)
                    }
                }
            }
        }
    });
    // (i-d) repeated negation: the small tree set once more, every group negated two more times than it needs
    NOT_REPEATED.store(true, std::sync::atomic::Ordering::Relaxed);
    par_items(&small, |_w, t| {
        let calls = [Call::Cond(t.clone())];
        for ctx in [Ctx::SelectWhere, Ctx::Having, Ctx::JoinOn, Ctx::CaseWhen, Ctx::DeleteWhere] {
            for d in DIALECTS {
                match check_calls(ctx, d, &calls, Some(&st)) {
                    Ok(true) => evals.inc(),
                    Ok(false) => {}
                    Err((sig, det)) => {
                        evals.inc();
                        rep.raw_failures.inc();
                        let det: String = det.chars().take(500).collect();
                        rep.violation(Violation { key: format!("{:?}|{}|{}|repeated-not|{}", ctx, d.name(), sig, show_calls(&calls)), what: format!("{:?} on {}: calls [{}] with every group negated two more times than needed: {}", ctx, d.name(), show_calls(&calls), det), case: json!({"ctx": format!("{:?}", ctx), "dialect": d.name(), "calls": calls_to_json(&calls), "not_repeated": true}) });
                    }
                }
            }
        }
    });
    NOT_REPEATED.store(false, std::sync::atomic::Ordering::Relaxed);
    rep.set("trees_with_repeated_negation", json!(small.len()));
    // (ii) sequences of up to 3 condition-adding calls
    let mut pool: Vec<C> = gen_groups(1, 2, 3).into_iter().map(|(c, _)| c).collect();
    // representatives of deeper shapes: nested group kinds that trigger unwrap / merge / wrap
    for any_o in [false, true] {
        for neg_i in [false, true] {
            for any_i in [false, true] {
                pool.push(C::Group { any: any_o, neg: false, items: vec![C::Group { any: any_i, neg: neg_i, items: vec![C::Atom(0)] }] });
                pool.push(C::Group { any: any_o, neg: true, items: vec![C::Atom(0), C::Group { any: any_i, neg: neg_i, items: vec![C::Atom(0), C::Atom(0)] }] });
            }
        }
    }
    let mut menu: Vec<Call> = vec![Call::And(0), Call::AndOption(None), Call::AndOption(Some(0))];
    menu.extend(pool.iter().cloned().map(Call::Cond));
    let max_calls = 3;
    let mut seqs: Vec<Vec<Call>> = vec![vec![]];
    let mut frontier: Vec<Vec<Call>> = vec![vec![]];
    for _ in 0..max_calls {
        let mut next = vec![];
        for s in &frontier {
            for c in &menu {
                let mut s2 = s.clone();
                s2.push(c.clone());
                next.push(s2);
            }
        }
        seqs.extend(next.iter().cloned());
        frontier = next;
    }
    // number atoms across the whole sequence: all different (p, q, r, s, p, ..), and - so that a later call repeats
    // members of an earlier one - alternating (p, q, p, q, ..) and all the same (p, p, ..)
    fn renumber(c: &mut C, m: u8) {
        match c {
            C::Atom(i) if *i < 4 => *i %= m,
            C::Group { items, .. } => items.iter_mut().for_each(|x| renumber(x, m)),
            _ => {}
        }
    }
    for s in seqs.iter_mut() {
        let mut n = 0u8;
        for c in s.iter_mut() {
            match c {
                Call::And(i) | Call::AndOption(Some(i)) => {
                    *i = n % 4;
                    n += 1;
                }
                Call::Cond(t) => number_atoms(t, &mut n),
                _ => {}
            }
        }
    }
    let distinct_numbered = seqs.len();
    {
        let mut seen: std::collections::HashSet<String> = seqs.iter().map(|s| show_calls(s)).collect();
        let mut extra = vec![];
        for m in [2u8, 1] {
            for s in &seqs {
                let mut s2 = s.clone();
                for c in s2.iter_mut() {
                    match c {
                        Call::And(i) | Call::AndOption(Some(i)) => *i %= m,
                        Call::Cond(t) => renumber(t, m),
                        _ => {}
                    }
                }
                if seen.insert(show_calls(&s2)) {
                    extra.push(s2);
                }
            }
        }
        seqs.extend(extra);
    }
    rep.set("call_sequences_with_repeated_atoms", json!(seqs.len() - distinct_numbered));
    let n_seqs = seqs.len();
    let seq_ctxs: &[Ctx] = if rep.thorough() { &[Ctx::SelectWhere, Ctx::Having, Ctx::UpdateWhere, Ctx::DeleteWhere, Ctx::PartialIndex, Ctx::OnConflictActionWhere, Ctx::OnConflictTargetWhere] } else { &[Ctx::SelectWhere, Ctx::Having, Ctx::DeleteWhere, Ctx::OnConflictActionWhere, Ctx::OnConflictTargetWhere] };
    par_items(&seqs, |_w, s| {
        for ctx in seq_ctxs {
            for d in DIALECTS {
                match check_calls(*ctx, d, s, Some(&st)) {
                    Ok(true) => evals.inc(),
                    Ok(false) => {}
                    Err((sig, _)) => {
                        evals.inc();
                        record(rep, *ctx, d, s, &sig)
                    }
                }
            }
        }
    });
    let max_width = if rep.thorough() { 130 } else { 70 };
    let wide = wide_groups(rep, &st, max_width);
    evals.add(wide);
    rep.set("wide_group_cases", json!(wide));
    rep.set("wide_group_max_width", json!(max_width));
    let (oc_checked, oc_ood) = on_conflict_machine(rep, &st);
    evals.add(oc_checked);
    rep.set("on_conflict_builder_sequences_checked", json!(oc_checked));
    rep.set("on_conflict_builder_sequences_out_of_domain", json!(oc_ood));
    rep.set("tree_bound", json!({"depth": depth, "width": width, "max_nodes": budget}));
    rep.set("trees", json!(n_trees));
    rep.set("trees_in_other_contexts", json!(small.len()));
    rep.set("call_menu", json!(menu.len()));
    rep.set("call_sequences_up_to_3", json!(n_seqs));
    rep.set("contexts", json!(CTXS.iter().map(|c| format!("{:?}", c)).collect::<Vec<_>>()));
    rep.set("states", json!(n_trees + small.len() + n_seqs));
    rep.set("transitions", json!(evals.get()));
    rep.set("evaluations", json!(evals.get()));
    rep.set("truth_table_rows_per_case", json!(81));
    rep.set("traces_validated_against_impl", json!(st.engine.get()));
    rep.set("sqlite_engine_executions", json!(st.engine.get()));
    rep.set("predicates_parsed_and_evaluated", json!(st.parsed.get()));
    rep.set("distinct_nontrivial", json!(n_trees + small.len() + n_seqs));
    rep.set("rule", json!("every condition tree within the bound / every call sequence is one case per (context, dialect): rendered by the real code, predicate parsed by the dialect's reference parser and evaluated under all 81 three-valued assignments; SQLite statements are also executed by the real engine over a table holding every assignment"));
    rep.set("exhaustive", json!(true));
    for t in trees.iter().filter(|t| matches!(t, C::Group { neg: true, items, .. } if items.len() == 2)).take(2) {
        let calls = [Call::Cond(t.clone())];
        rep.sample(json!({"tree": show(t), "sqlite": render(Ctx::SelectWhere, Dialect::Sqlite, &calls).and_then(|r| r.ok())}));
    }
    rep.assume("atoms are `col = 1` over columns holding 1 / 0 / NULL; the doc-hidden legacy and_or_where chain API is not part of the property");
}

pub fn replay(case: &serde_json::Value) -> Option<String> {
    if case["not_repeated"].as_bool() == Some(true) {
        NOT_REPEATED.store(true, std::sync::atomic::Ordering::Relaxed);
    }
    if let Some(seq) = case["oc_sequence"].as_array() {
        let d = Dialect::from_name(case["dialect"].as_str().unwrap_or("sqlite"));
        let calls: Vec<OcCall> = seq.iter().filter_map(|x| x.as_str().and_then(|n| OC_MENU.iter().copied().find(|c| format!("{:?}", c) == n))).collect();
        return check_oc_sequence(d, &calls, None).err().map(|(sig, det)| format!("OnConflict calls {:?} on {}: [{sig}] {det}", calls, d.name()));
    }
    let d = Dialect::from_name(case["dialect"].as_str().unwrap_or("sqlite"));
    let ctx = CTXS.iter().copied().find(|c| format!("{:?}", c) == case["ctx"].as_str().unwrap_or(""))?;
    let calls = calls_from_json(&case["calls"]);
    check_calls(ctx, d, &calls, None).err().map(|(sig, det)| format!("{:?} on {}: calls [{}]: [{}] {}", ctx, d.name(), show_calls(&calls), sig, det))
}
