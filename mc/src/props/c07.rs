//! C07 — on SQLite a built statement does what the builder calls say (DESIGN §3.7).
//!
//! BFS over builder-call histories of the real statements; in every state `to_string` and
//! `build`+bind are executed on a real SQLite engine and must return what an independently
//! written, fully explicit rendering of the same calls returns (rows, RETURNING rows, changes,
//! table contents). States whose REFERENCE rendering the engine rejects are out of domain.

use crate::dml;
use crate::explore::{explore, replay_ops, Fail};
use crate::qmodel::*;
use crate::report::Report;
use crate::smodel::*;
use crate::util::{catch, Counter};
use sea_query::*;
use serde_json::json;
use std::collections::BTreeMap;
use std::sync::{Arc, Mutex};

pub static SKIPPED: Counter = Counter::new();
pub static EXECUTED: Counter = Counter::new();
pub static SKIP_REASONS: Mutex<BTreeMap<String, u64>> = Mutex::new(BTreeMap::new());
pub static LIVE_CLASSES: Mutex<BTreeMap<String, u64>> = Mutex::new(BTreeMap::new());

pub fn note_skip(reason: &str) {
    SKIPPED.inc();
    let key: String = reason.split(|c| c == ':' || c == '"').nth(1).unwrap_or(reason).trim().chars().take(40).collect();
    let key = if reason.contains("syntax error") { "syntax error (reference)".to_string() } else { key };
    *SKIP_REASONS.lock().unwrap().entry(key).or_insert(0) += 1;
}

/// API variants that build the same statement merge into one state; they share a vacuity group
pub fn vacuity_group(class: &str) -> String {
    if class.starts_with("on_conflict-action_") {
        "on_conflict-action_where".into()
    } else if class.starts_with("on_conflict-target_") {
        "on_conflict-target_where".into()
    } else {
        class.to_string()
    }
}

pub fn note_live(classes: impl Iterator<Item = &'static str>) {
    let mut g = LIVE_CLASSES.lock().unwrap();
    for c in classes {
        *g.entry(vacuity_group(c)).or_insert(0) += 1;
    }
}

/// the C07 oracle for SELECT states
pub fn check_select(sys: &SelSys, spec: &SelSpec) -> Vec<Fail> {
    if spec.items.is_empty() && spec.from.is_empty() {
        return vec![];
    }
    let reference = spec.ref_sql();
    let want = match with_db(|db| db.query(&reference, &[])) {
        Ok(r) => r,
        Err(e) => {
            note_skip(&e);
            return vec![];
        }
    };
    EXECUTED.inc();
    note_live(spec.as_ops().iter().map(op_class));
    if spec.order_is_arbitrary() && (spec.limit.is_some() || spec.offset.is_some()) {
        // which rows survive LIMIT depends on an arbitrary order: nothing to compare
        return vec![];
    }
    let ordered = !spec.orders.is_empty() && !spec.order_is_arbitrary();
    let canon = |r: &crate::sqlite::Rows| if ordered { row_list(r) } else { row_multiset(r) };
    let want_rows = canon(&want);
    let mut fails = vec![];
    // inline form
    match catch(|| sys.q.to_string(SqliteQueryBuilder)) {
        Err(p) => fails.push(Fail::new("render-panic", format!("to_string panicked: {p}"))),
        Ok(sql) => match with_db(|db| db.query(&sql, &[])) {
            Err(e) => fails.push(Fail::new("engine-rejects-inline", format!("sqlite3 rejects {sql:?}: {e}; the reference {reference:?} is accepted"))),
            Ok(r) => {
                if canon(&r) != want_rows {
                    fails.push(Fail::new("rows-differ-inline", format!("{sql:?} returns {:?}, the reference {reference:?} returns {:?}", canon(&r), want_rows)));
                }
            }
        },
    }
    // parameterised form
    match catch(|| sys.q.build(SqliteQueryBuilder)) {
        Err(p) => fails.push(Fail::new("render-panic", format!("build panicked: {p}"))),
        Ok((sql, vals)) => {
            let binds: Option<Vec<_>> = vals.0.iter().map(bind_value).collect();
            match binds {
                None => {}
                Some(b) => match with_db(|db| db.query(&sql, &b)) {
                    Err(e) => fails.push(Fail::new("engine-rejects-build", format!("sqlite3 rejects {sql:?} with {} values: {e}; the reference {reference:?} is accepted", b.len()))),
                    Ok(r) => {
                        if canon(&r) != want_rows {
                            fails.push(Fail::new("rows-differ-build", format!("{sql:?} with values {:?} returns {:?}, the reference {reference:?} returns {:?}", vals.0, canon(&r), want_rows)));
                        }
                    }
                },
            }
        }
    }
    fails
}

/// the dialect-construct families of C08 (named WINDOW, ORDER BY forms on SELECT / window / UPDATE / DELETE, join
/// forms, CTE options, index hints / DISTINCT ON / TABLESAMPLE / locking that SQLite must drop, enum casts) executed on
/// the engine: sea-query's SQLite text against the explicit SQLite reference text of the same declaration
fn run_constructs(rep: &Arc<Report>) -> (u64, u64) {
    use crate::lex::Dialect;
    use crate::report::Violation;
    let ex = crate::props::c08::extras(rep.thorough());
    let (mut executed, mut skipped) = (0u64, 0u64);
    for e in &ex {
        let Some(reference) = (e.reference)(Dialect::Sqlite, false) else {
            skipped += 1;
            continue;
        };
        let family = crate::props::c08::family_of(&e.name);
        let mut fail = |sig: &str, detail: String| {
            rep.raw_failures.inc();
            rep.violation(Violation { key: format!("construct|sqlite|{sig}|{family}"), what: format!("{}: {detail}", e.name), case: json!({"kind": "construct", "name": e.name}) });
        };
        let real = match catch(|| (e.real)(Dialect::Sqlite, false)) {
            Ok(s) => s,
            Err(p) => {
                fail("render-panic", format!("to_string panicked: {p}"));
                continue;
            }
        };
        let is_query = reference.starts_with("SELECT") || reference.starts_with("WITH");
        if is_query {
            let want = match with_db(|db| db.query(&reference, &[])) {
                Ok(r) => r,
                Err(e) => {
                    note_skip(&e);
                    skipped += 1;
                    continue;
                }
            };
            executed += 1;
            // a trailing ORDER BY makes the row order part of the answer
            let ordered = reference.rfind(" ORDER BY ").map_or(false, |i| reference.rfind(')').map_or(true, |j| i > j));
            let canon = |r: &crate::sqlite::Rows| if ordered { row_list(r) } else { row_multiset(r) };
            match with_db(|db| db.query(&real, &[])) {
                Err(e) => fail("engine-rejects-inline", format!("sqlite3 rejects {real:?}: {e}; the reference {reference:?} is accepted")),
                Ok(r) => {
                    if canon(&r) != canon(&want) {
                        fail("rows-differ-inline", format!("{real:?} returns {:?}, the reference {reference:?} returns {:?}", canon(&r), canon(&want)));
                    }
                }
            }
        } else {
            let want = match dml::run_dml(&reference, &[]) {
                Ok(r) => r,
                Err(e) => {
                    note_skip(&e);
                    skipped += 1;
                    continue;
                }
            };
            executed += 1;
            match dml::run_dml(&real, &[]) {
                Err(e) => fail("engine-rejects-inline", format!("sqlite3 rejects {real:?}: {e}; the reference {reference:?} is accepted")),
                Ok(r) => {
                    if r != want {
                        fail("effect-differs-inline", format!("{real:?} has effect {:?}, the reference {reference:?} has {:?}", r, want));
                    }
                }
            }
        }
    }
    (executed, skipped)
}

pub fn run(rep: &Arc<Report>) {
    let depth = if rep.thorough() { 5 } else { 4 };
    let m = SelModel { name: "select", menu: select_menu(rep.thorough(), true), checks: vec![Box::new(check_select)], sqlite_only: true };
    let st = explore(&m, depth, u64::MAX, rep);
    let dst = dml::run_c07(rep);
    let (api_cmp, api_variants) = crate::props::apivar::run(rep, &[crate::lex::Dialect::Sqlite]);
    rep.set("api_variant_comparisons", json!(api_cmp));
    rep.set("api_variants", json!(api_variants));
    let (cx, cs) = run_constructs(rep);
    let (em, _) = crate::props::exprapi::run(rep, &[crate::lex::Dialect::Sqlite]);
    rep.set("expression_methods_evaluated_on_engine", json!(em));
    rep.set("construct_cases_executed_on_engine", json!(cx));
    rep.set("construct_cases_out_of_domain", json!(cs));
    let live = LIVE_CLASSES.lock().unwrap().clone();
    rep.set("select_menu_size", json!(m.menu.len()));
    rep.set("states", json!(st.states + dst.states));
    rep.set("transitions", json!(st.transitions + dst.transitions));
    rep.set("max_depth", json!({"select": st.max_depth, "dml": dst.max_depth}));
    rep.set("level_sizes_select", json!(st.level_sizes));
    rep.set("distinct_outcomes", json!(st.outcomes + dst.outcomes));
    rep.set("states_executed_on_engine", json!(EXECUTED.get()));
    rep.set("states_skipped_reference_rejected", json!(SKIPPED.get()));
    rep.set("skip_reasons", json!(*SKIP_REASONS.lock().unwrap()));
    rep.set("op_classes_in_executed_states", json!(live));
    rep.set("traces_validated_against_impl", json!(EXECUTED.get() * 3));
    rep.set("evaluations", json!(st.transitions + dst.transitions));
    rep.set("distinct_nontrivial", json!(st.outcomes + dst.outcomes));
    rep.set("rule", json!("BFS over builder-call histories (state = real statement, deduplicated on its Debug form); every state whose independent reference rendering the engine accepts is executed three times (to_string, build+bind, reference) and compared; distinct_nontrivial = distinct SQLite renderings"));
    rep.set("exhaustive", json!(st.exhaustive && dst.exhaustive));
    rep.set("sqlite_version", json!(crate::sqlite::version()));
    let (mut s, mut r) = crate::explore::Model::init(&m);
    for op in m.menu.iter().filter(|o| matches!(op_class(o), "from" | "and_where" | "order_by_nulls")).take(4) {
        let _ = crate::explore::Model::step(&m, &mut s, &mut r, op);
    }
    rep.sample(json!({"sea_query": s.q.to_string(SqliteQueryBuilder), "reference": r.ref_sql()}));
    // anti-vacuity: every op class of the menus must occur in at least one executed state
    let mut missing: Vec<String> = vec![];
    for op in &m.menu {
        let c = vacuity_group(op_class(op));
        if !live.contains_key(&c) && !missing.contains(&c) {
            missing.push(c);
        }
    }
    missing.extend(dst.missing_classes.iter().cloned());
    if !missing.is_empty() {
        eprintln!("MACHINERY FAILURE: op classes never executed on the engine: {:?}", missing);
        std::process::exit(3);
    }
    rep.assume("SQLite 3.40.1 built with ENABLE_UPDATE_DELETE_LIMIT; result order is compared only when the statement has an ORDER BY");
}

pub fn replay(case: &serde_json::Value) -> Option<String> {
    if case["kind"].as_str() == Some("api-variant") {
        return crate::props::apivar::replay(case);
    }
    if case["kind"].as_str() == Some("expr-method") {
        return crate::props::exprapi::replay(case);
    }
    if case["kind"].as_str() == Some("construct") {
        let rep = Arc::new(Report::new("C07", "thorough"));
        run_constructs(&rep);
        return rep.find_violation("construct|sqlite|").filter(|v| v.contains(case["name"].as_str().unwrap_or("")));
    }
    let ops: Vec<String> = case["ops"].as_array().map(|a| a.iter().filter_map(|x| x.as_str().map(String::from)).collect()).unwrap_or_default();
    match case["model"].as_str().unwrap_or("") {
        "select" => {
            let m = SelModel { name: "select", menu: select_menu(true, true), checks: vec![Box::new(check_select)], sqlite_only: true };
            replay_ops(&m, &ops)
        }
        other => dml::replay_c07(other, &ops),
    }
}
