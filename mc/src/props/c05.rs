//! C05 — rendered expressions re-parse to the expression tree that was built (DESIGN §3.5).
//!
//! Space: all expression trees with <= N operator nodes over the full operator alphabet of each
//! dialect (leaves = distinct columns), every leaf kind under every operator, built through the
//! public ExprTrait API. Oracle: the reference Pratt parser with the dialect's precedence table
//! must read the rendering back as exactly the tree that was built. On SQLite the real engine
//! arbitrates / conformance-checks the parser (rendering vs fully parenthesised reference).

use crate::exprparse::{parse_expression, print_full, PExpr};
use crate::lex::{Dialect, DIALECTS};
use crate::report::{minimize, Report, Violation};
use crate::sqlite::{Db, SqlVal};
use crate::util::{catch, par_items, Counter};
use sea_query::extension::postgres::PgBinOper;
use sea_query::extension::sqlite::SqliteBinOper;
use sea_query::*;
use serde_json::json;
use std::cell::RefCell;
use std::collections::BTreeMap;
use std::sync::{Arc, Mutex};

#[derive(Clone, Debug, PartialEq)]
pub enum E {
    Leaf,
    /// other leaf kinds (only in the leaf-kind sweep)
    Val,
    Func(Box<E>),
    /// COALESCE with a single argument (a function call is an atom whatever its argument looks like)
    Coalesce1(Box<E>),
    Tuple(Box<E>, Box<E>),
    SubQ,
    Case(Box<E>, Box<E>, Box<E>),
    Kw,
    Bin(usize, Box<E>, Box<E>), // index into ops(d)
    Not(Box<E>),
    IsNull(bool, Box<E>),
    In(bool, Box<E>),
    /// x [NOT] IN (y): a list of ONE element, which may itself be a sub-query (a value, not a row source)
    In1(bool, Box<E>, Box<E>),
    Between(bool, Box<E>, Box<E>, Box<E>),
    LikeEsc(bool, Box<E>),
    Cast(Box<E>),
    AsEnum(Box<E>),
}

#[derive(Clone, Copy, Debug, PartialEq)]
pub enum Class {
    Logic,
    Cmp,
    Like,
    Arith,
    Shift,
    Bit,
    PgCmp,
    Other,
}

#[derive(Clone)]
pub struct OpDef {
    pub name: &'static str,
    pub oper: BinOper,
    /// token text as lexed, or the LIKE-family keyword
    pub tok: &'static str,
    pub like_family: bool,
    pub class: Class,
}

pub fn ops(d: Dialect) -> Vec<OpDef> {
    let o = |name, oper, tok, class| OpDef { name, oper, tok, like_family: false, class };
    let l = |name, oper, tok| OpDef { name, oper, tok, like_family: true, class: Class::Like };
    let mut v = vec![
        o("And", BinOper::And, "AND", Class::Logic),
        o("Or", BinOper::Or, "OR", Class::Logic),
        o("Equal", BinOper::Equal, "=", Class::Cmp),
        o("NotEqual", BinOper::NotEqual, "<>", Class::Cmp),
        o("SmallerThan", BinOper::SmallerThan, "<", Class::Cmp),
        o("GreaterThan", BinOper::GreaterThan, ">", Class::Cmp),
        o("SmallerThanOrEqual", BinOper::SmallerThanOrEqual, "<=", Class::Cmp),
        o("GreaterThanOrEqual", BinOper::GreaterThanOrEqual, ">=", Class::Cmp),
        l("Like", BinOper::Like, "LIKE"),
        l("NotLike", BinOper::NotLike, "NOT LIKE"),
        o("Add", BinOper::Add, "+", Class::Arith),
        o("Sub", BinOper::Sub, "-", Class::Arith),
        o("Mul", BinOper::Mul, "*", Class::Arith),
        o("Div", BinOper::Div, "/", Class::Arith),
        o("Mod", BinOper::Mod, "%", Class::Arith),
        o("LShift", BinOper::LShift, "<<", Class::Shift),
        o("RShift", BinOper::RShift, ">>", Class::Shift),
        o("BitAnd", BinOper::BitAnd, "&", Class::Bit),
        o("BitOr", BinOper::BitOr, "|", Class::Bit),
    ];
    match d {
        Dialect::Mysql => {
            v.push(o("Custom(<=>)", BinOper::Custom("<=>"), "<=>", Class::Other));
            v.push(o("Custom(DIV)", BinOper::Custom("DIV"), "DIV", Class::Other));
            v.push(o("Custom(XOR)", BinOper::Custom("XOR"), "XOR", Class::Other));
        }
        Dialect::Postgres => {
            let p = |name, po: PgBinOper, tok, class| OpDef { name, oper: BinOper::PgOperator(po), tok, like_family: false, class };
            v.push(OpDef { name: "ILike", oper: BinOper::PgOperator(PgBinOper::ILike), tok: "ILIKE", like_family: true, class: Class::Other });
            v.push(OpDef { name: "NotILike", oper: BinOper::PgOperator(PgBinOper::NotILike), tok: "NOT ILIKE", like_family: true, class: Class::Other });
            v.push(p("Matches", PgBinOper::Matches, "@@", Class::PgCmp));
            v.push(p("Contains", PgBinOper::Contains, "@>", Class::PgCmp));
            v.push(p("Contained", PgBinOper::Contained, "<@", Class::PgCmp));
            v.push(p("Concatenate", PgBinOper::Concatenate, "||", Class::Other));
            v.push(p("Overlap", PgBinOper::Overlap, "&&", Class::Other));
            v.push(p("Similarity", PgBinOper::Similarity, "%", Class::PgCmp));
            v.push(p("WordSimilarity", PgBinOper::WordSimilarity, "<%", Class::PgCmp));
            v.push(p("StrictWordSimilarity", PgBinOper::StrictWordSimilarity, "<<%", Class::PgCmp));
            v.push(p("SimilarityDistance", PgBinOper::SimilarityDistance, "<->", Class::Other));
            v.push(p("WordSimilarityDistance", PgBinOper::WordSimilarityDistance, "<<->", Class::Other));
            v.push(p("StrictWordSimilarityDistance", PgBinOper::StrictWordSimilarityDistance, "<<<->", Class::Other));
            v.push(p("GetJsonField", PgBinOper::GetJsonField, "->", Class::Other));
            v.push(p("CastJsonField", PgBinOper::CastJsonField, "->>", Class::Other));
            v.push(p("Regex", PgBinOper::Regex, "~", Class::Other));
            v.push(p("RegexCaseInsensitive", PgBinOper::RegexCaseInsensitive, "~*", Class::Other));
            v.push(p("EuclideanDistance", PgBinOper::EuclideanDistance, "<->", Class::Other));
            v.push(p("NegativeInnerProduct", PgBinOper::NegativeInnerProduct, "<#>", Class::Other));
            v.push(p("CosineDistance", PgBinOper::CosineDistance, "<=>", Class::Other));
            v.push(o("Custom(~~)", BinOper::Custom("~~"), "~~", Class::Other));
            v.push(o("Custom(^)", BinOper::Custom("^"), "^", Class::Other));
        }
        Dialect::Sqlite => {
            let s = |name, so: SqliteBinOper, tok| OpDef { name, oper: BinOper::SqliteOperator(so), tok, like_family: false, class: Class::Other };
            v.push(s("Glob", SqliteBinOper::Glob, "GLOB"));
            v.push(s("Match", SqliteBinOper::Match, "MATCH"));
            v.push(s("GetJsonField", SqliteBinOper::GetJsonField, "->"));
            v.push(s("CastJsonField", SqliteBinOper::CastJsonField, "->>"));
            // IS / IS NOT with an arbitrary right operand is SQLite grammar only (same level as = and <>)
            v.push(o("Is", BinOper::Is, "IS", Class::Other));
            v.push(o("IsNot", BinOper::IsNot, "IS NOT", Class::Other));
            v.push(o("Custom(||)", BinOper::Custom("||"), "||", Class::Other));
            v.push(o("Custom(==)", BinOper::Custom("=="), "==", Class::Other));
        }
    }
    v
}

fn col(i: usize) -> SimpleExpr {
    Expr::col(Alias::new(format!("c{i}"))).into()
}

/// Build the real sea-query expression through the public API; leaves are numbered left to right.
pub fn build(e: &E, d: Dialect, ops: &[OpDef], next: &mut usize) -> SimpleExpr {
    let mut leaf = |next: &mut usize| {
        let c = col(*next);
        *next += 1;
        c
    };
    match e {
        E::Leaf => leaf(next),
        E::Val => {
            *next += 1;
            Expr::val(40 + *next as i32).into()
        }
        E::Func(x) => Func::max(build(x, d, ops, next)).into(),
        E::Coalesce1(x) => Func::coalesce([build(x, d, ops, next)]).into(),
        E::Tuple(a, b) => {
            let a = build(a, d, ops, next);
            let b = build(b, d, ops, next);
            Expr::tuple([a, b]).into()
        }
        E::SubQ => SimpleExpr::SubQuery(None, Box::new(Query::select().expr(Expr::val(1)).to_owned().into_sub_query_statement())),
        E::Case(c, a, b) => {
            let c = build(c, d, ops, next);
            let a = build(a, d, ops, next);
            let b = build(b, d, ops, next);
            CaseStatement::new().case(c, a).finally(b).into()
        }
        E::Kw => Expr::current_date().into(),
        E::Bin(i, l, r) => {
            let l = build(l, d, ops, next);
            let r = build(r, d, ops, next);
            l.binary(ops[*i].oper, r)
        }
        E::In1(neg, x, y) => {
            let x = build(x, d, ops, next);
            let y = build(y, d, ops, next);
            if *neg {
                x.is_not_in([y])
            } else {
                x.is_in([y])
            }
        }
        E::Not(x) => build(x, d, ops, next).not(),
        E::IsNull(neg, x) => {
            let x = build(x, d, ops, next);
            if *neg {
                x.is_not_null()
            } else {
                x.is_null()
            }
        }
        E::In(neg, x) => {
            let x = build(x, d, ops, next);
            let items = [leaf(next), leaf(next)];
            if *neg {
                x.is_not_in(items)
            } else {
                x.is_in(items)
            }
        }
        E::Between(neg, x, lo, hi) => {
            let x = build(x, d, ops, next);
            let lo = build(lo, d, ops, next);
            let hi = build(hi, d, ops, next);
            if *neg {
                x.not_between(lo, hi)
            } else {
                x.between(lo, hi)
            }
        }
        E::LikeEsc(neg, x) => {
            let x = build(x, d, ops, next);
            if *neg {
                x.not_like(LikeExpr::new("p%").escape('|'))
            } else {
                x.like(LikeExpr::new("p%").escape('|'))
            }
        }
        E::Cast(x) => build(x, d, ops, next).cast_as(Alias::new("integer")),
        E::AsEnum(x) => build(x, d, ops, next).as_enum(Alias::new("t")),
    }
}

/// The tree the engine must read back.
pub fn expected(e: &E, d: Dialect, ops: &[OpDef], next: &mut usize) -> PExpr {
    let mut leaf = |next: &mut usize| {
        let c = PExpr::Col(vec![format!("c{}", *next)]);
        *next += 1;
        c
    };
    let b = Box::new;
    match e {
        E::Leaf => leaf(next),
        E::Val => {
            *next += 1;
            PExpr::Num((40 + *next as i32).to_string())
        }
        E::Func(x) => PExpr::Func("MAX".into(), vec![(false, expected(x, d, ops, next))]),
        E::Coalesce1(x) => PExpr::Func("COALESCE".into(), vec![(false, expected(x, d, ops, next))]),
        E::Tuple(a, c) => {
            let a = expected(a, d, ops, next);
            let c = expected(c, d, ops, next);
            PExpr::Tuple(vec![a, c])
        }
        E::SubQ => PExpr::Sub(None, "SELECT 1".into()),
        E::Case(c, a, x) => {
            let c = expected(c, d, ops, next);
            let a = expected(a, d, ops, next);
            let x = expected(x, d, ops, next);
            PExpr::Case(vec![(c, a)], Some(b(x)))
        }
        E::Kw => PExpr::Kw("CURRENT_DATE".into()),
        E::Bin(i, l, r) => {
            let l = expected(l, d, ops, next);
            let r = expected(r, d, ops, next);
            if ops[*i].like_family {
                PExpr::Like(ops[*i].tok.into(), b(l), b(r), None)
            } else if ops[*i].tok == "IS" || ops[*i].tok == "IS NOT" {
                PExpr::Is(ops[*i].tok == "IS NOT", b(l), b(r))
            } else {
                PExpr::Bin(ops[*i].tok.into(), b(l), b(r))
            }
        }
        E::In1(neg, x, y) => {
            let x = expected(x, d, ops, next);
            let y = expected(y, d, ops, next);
            PExpr::In(*neg, b(x), vec![y])
        }
        E::Not(x) => PExpr::Un("NOT".into(), b(expected(x, d, ops, next))),
        E::IsNull(neg, x) => PExpr::Is(*neg, b(expected(x, d, ops, next)), b(PExpr::Kw("NULL".into()))),
        E::In(neg, x) => {
            let x = expected(x, d, ops, next);
            let items = vec![leaf(next), leaf(next)];
            PExpr::In(*neg, b(x), items)
        }
        E::Between(neg, x, lo, hi) => {
            let x = expected(x, d, ops, next);
            let lo = expected(lo, d, ops, next);
            let hi = expected(hi, d, ops, next);
            PExpr::Between(*neg, b(x), b(lo), b(hi))
        }
        E::LikeEsc(neg, x) => PExpr::Like(if *neg { "NOT LIKE" } else { "LIKE" }.into(), b(expected(x, d, ops, next)), b(PExpr::Str("p%".into())), Some(b(PExpr::Str("|".into())))),
        E::Cast(x) => PExpr::Cast(b(expected(x, d, ops, next)), "integer".into()),
        E::AsEnum(x) => {
            let x = expected(x, d, ops, next);
            if d == Dialect::Postgres {
                PExpr::Cast(b(x), "\"t\"".into())
            } else {
                x
            }
        }
    }
}

fn kids(e: &E) -> Vec<&E> {
    match e {
        E::Leaf | E::Val | E::SubQ | E::Kw => vec![],
        E::Func(x) | E::Coalesce1(x) | E::Not(x) | E::IsNull(_, x) | E::In(_, x) | E::LikeEsc(_, x) | E::Cast(x) | E::AsEnum(x) => vec![x],
        E::Tuple(a, b) | E::Bin(_, a, b) | E::In1(_, a, b) => vec![a, b],
        E::Case(a, b, c) | E::Between(_, a, b, c) => vec![a, b, c],
    }
}

fn is_cmp_like(e: &E, ops: &[OpDef]) -> bool {
    match e {
        E::Bin(i, ..) => matches!(ops[*i].class, Class::Cmp | Class::PgCmp) || ops[*i].like_family,
        E::IsNull(..) | E::In(..) | E::In1(..) | E::LikeEsc(..) => true,
        _ => false,
    }
}

/// MySQL / PostgreSQL operand slots whose reading the manuals and the real grammars disagree on and
/// no engine is available to arbitrate (DESIGN §1.4, Appendix A): left out, counted.
fn undecidable(e: &E, d: Dialect, ops: &[OpDef]) -> bool {
    if d != Dialect::Mysql {
        return false;
    }
    let here = match e {
        // right operand of LIKE printed bare: `bit_expr LIKE simple_expr` in the grammar vs same level as `=` in the manual
        E::Bin(i, _, r) if ops[*i].like_family => matches!(&**r, E::Bin(j, ..) if matches!(ops[*j].class, Class::Arith | Class::Shift)),
        // comparison / IS / IN / LIKE as a BETWEEN bound: manual table and grammar disagree
        E::Between(_, _, lo, hi) => is_cmp_like(lo, ops) || is_cmp_like(hi, ops) || matches!(&**lo, E::Bin(j, ..) if ops[*j].class == Class::Logic),
        _ => false,
    };
    here || kids(e).into_iter().any(|k| undecidable(k, d, ops))
}

pub fn show(e: &E, ops: &[OpDef]) -> String {
    match e {
        E::Leaf => "c".into(),
        E::Val => "val".into(),
        E::SubQ => "(subquery)".into(),
        E::Kw => "CURRENT_DATE".into(),
        E::Func(x) => format!("MAX({})", show(x, ops)),
        E::Coalesce1(x) => format!("COALESCE({})", show(x, ops)),
        E::Tuple(a, b) => format!("tuple({}, {})", show(a, ops), show(b, ops)),
        E::Case(a, b, c) => format!("case({}, {}, {})", show(a, ops), show(b, ops), show(c, ops)),
        E::Bin(i, l, r) => format!("{}({}, {})", ops[*i].name, show(l, ops), show(r, ops)),
        E::Not(x) => format!("Not({})", show(x, ops)),
        E::IsNull(n, x) => format!("{}({})", if *n { "IsNotNull" } else { "IsNull" }, show(x, ops)),
        E::In(n, x) => format!("{}({}, [c, c])", if *n { "NotIn" } else { "In" }, show(x, ops)),
        E::In1(n, x, y) => format!("{}({}, [{}])", if *n { "NotIn" } else { "In" }, show(x, ops), show(y, ops)),
        E::Between(n, x, lo, hi) => format!("{}({}, {}, {})", if *n { "NotBetween" } else { "Between" }, show(x, ops), show(lo, ops), show(hi, ops)),
        E::LikeEsc(n, x) => format!("{}({}, 'p%' ESCAPE '|')", if *n { "NotLike" } else { "Like" }, show(x, ops)),
        E::Cast(x) => format!("CastAs({}, integer)", show(x, ops)),
        E::AsEnum(x) => format!("AsEnum({})", show(x, ops)),
    }
}

pub fn render(e: &SimpleExpr, d: Dialect) -> Result<String, String> {
    let q = Query::select().expr(e.clone()).to_owned();
    catch(|| match d {
        Dialect::Mysql => q.to_string(MysqlQueryBuilder),
        Dialect::Postgres => q.to_string(PostgresQueryBuilder),
        Dialect::Sqlite => q.to_string(SqliteQueryBuilder),
    })
}

thread_local! {
    static DB: RefCell<Option<Db>> = RefCell::new(None);
}

fn value_table(db: &Db) {
    db.exec(
        "CREATE TABLE v (c0,c1,c2,c3,c4,c5,c6,c7,c8,c9);
         INSERT INTO v VALUES (1,2,3,4,5,6,7,8,9,10),(7,3,2,0,1,5,0,2,3,1),(0,0,1,1,0,1,2,2,0,3),
           (2.5,-1,4,0.5,3,-2,8,1.5,0,2),(NULL,1,NULL,2,0,NULL,1,3,NULL,0),(3,NULL,1,NULL,2,2,NULL,0,1,NULL),
           ('a','b','a','ab','b','%a','a_','B','p%','pq'),('10','9',10,9,'1',1,'p|%','pp',0,1),(-3,5,-7,2,9,-1,4,-6,8,3);",
    )
    .expect("value table");
}

/// Run a SELECT of one expression over the value table; None = the engine rejects it.
pub fn eval_sqlite(expr_sql: &str) -> Option<Vec<String>> {
    DB.with(|c| {
        let mut g = c.borrow_mut();
        let db = g.get_or_insert_with(|| {
            let db = Db::open_memory();
            value_table(&db);
            db
        });
        db.query(&format!("SELECT {expr_sql} FROM v"), &[]).ok().map(|r| r.rows.iter().map(|row| row.get(0).map(|v: &SqlVal| v.strict()).unwrap_or_default()).collect())
    })
}

pub struct Stats {
    pub engine_evals: Counter,
    pub engine_not_evaluable: Counter,
    pub excluded: Counter,
}

/// Ok(true) checked, Ok(false) excluded as undecidable
pub fn check_one(e: &E, d: Dialect, ops: &[OpDef], st: Option<&Stats>) -> Result<bool, (String, String)> {
    if undecidable(e, d, ops) {
        if let Some(s) = st {
            s.excluded.inc();
        }
        return Ok(false);
    }
    let mut n = 0;
    let built = build(e, d, ops, &mut n);
    let mut n2 = 0;
    let want = expected(e, d, ops, &mut n2);
    let sql = render(&built, d).map_err(|p| ("panic".to_string(), format!("rendering {} panicked: {p}", show(e, ops))))?;
    let Some(expr_sql) = sql.strip_prefix("SELECT ") else { return Err(("machinery".into(), format!("unexpected rendering {sql:?}"))) };
    let parsed = match parse_expression(d, expr_sql) {
        Ok(p) => p,
        Err(msg) => return Err(("unparsable".into(), format!("built {} ; rendered {:?} ; the {} grammar rejects it: {msg}", show(e, ops), expr_sql, d.name()))),
    };
    let tree_ok = parsed == want;
    if d == Dialect::Sqlite {
        // engine: rendering vs fully parenthesised rendering of the tree that was built
        let reference = print_full(&want);
        if let Some(st) = st {
            st.engine_evals.inc();
        }
        match (eval_sqlite(&reference), eval_sqlite(expr_sql)) {
            (Some(a), Some(b)) => {
                if a != b {
                    return Err((
                        if tree_ok { "MODEL-DISAGREES-WITH-ENGINE".into() } else { "tree-differs".into() },
                        format!("built {} ; rendered {:?} ; sqlite3 evaluates it differently from the fully parenthesised {:?} (rows {:?} vs {:?})", show(e, ops), expr_sql, reference, b, a),
                    ));
                }
            }
            (Some(_), None) => return Err(("engine-rejects".into(), format!("built {} ; rendered {:?} is rejected by sqlite3 although {:?} is accepted", show(e, ops), expr_sql, reference))),
            (None, _) => {
                if let Some(st) = st {
                    st.engine_not_evaluable.inc();
                }
            }
        }
    }
    if !tree_ok {
        return Err(("tree-differs".into(), format!("built {} ; rendered {:?} ; {} reads it as {}", show(e, ops), expr_sql, d.name(), print_full(&parsed))));
    }
    Ok(true)
}

/// node constructors with `k` expression slots (for enumeration)
#[derive(Clone, Debug)]
pub enum Ctor {
    Bin(usize),
    Not,
    IsNull(bool),
    In(bool),
    Between(bool),
    LikeEsc(bool),
    Cast,
    AsEnum,
    Func,
    Coalesce1,
    Tuple,
    Case,
    In1(bool),
}
fn ctor_slots(c: &Ctor) -> usize {
    match c {
        Ctor::Bin(_) | Ctor::Tuple | Ctor::In1(_) => 2,
        Ctor::Between(_) | Ctor::Case => 3,
        _ => 1,
    }
}
fn ctor_apply(c: &Ctor, mut k: Vec<E>) -> E {
    let mut p = || Box::new(k.remove(0));
    match c {
        Ctor::Bin(i) => E::Bin(*i, p(), p()),
        Ctor::Not => E::Not(p()),
        Ctor::IsNull(n) => E::IsNull(*n, p()),
        Ctor::In(n) => E::In(*n, p()),
        Ctor::Between(n) => E::Between(*n, p(), p(), p()),
        Ctor::LikeEsc(n) => E::LikeEsc(*n, p()),
        Ctor::Cast => E::Cast(p()),
        Ctor::AsEnum => E::AsEnum(p()),
        Ctor::Func => E::Func(p()),
        Ctor::Coalesce1 => E::Coalesce1(p()),
        Ctor::Tuple => E::Tuple(p(), p()),
        Ctor::Case => E::Case(p(), p(), p()),
        Ctor::In1(n) => E::In1(*n, p(), p()),
    }
}
fn ctors(ops: &[OpDef], only: Option<&[usize]>) -> Vec<Ctor> {
    let mut v: Vec<Ctor> = (0..ops.len()).filter(|i| only.map_or(true, |o| o.contains(i))).map(Ctor::Bin).collect();
    v.extend([Ctor::Not, Ctor::IsNull(false), Ctor::IsNull(true), Ctor::In(false), Ctor::In(true), Ctor::Between(false), Ctor::Between(true), Ctor::LikeEsc(false), Ctor::LikeEsc(true), Ctor::Cast, Ctor::AsEnum, Ctor::Coalesce1]);
    v
}

/// all trees with exactly n operator nodes
pub fn trees(n: usize, cs: &[Ctor], memo: &mut BTreeMap<usize, Vec<E>>) -> Vec<E> {
    if let Some(v) = memo.get(&n) {
        return v.clone();
    }
    let out = if n == 0 {
        vec![E::Leaf]
    } else {
        let mut out = vec![];
        for c in cs {
            let k = ctor_slots(c);
            // distribute n-1 operator nodes over k slots
            let mut dist = vec![vec![]];
            for _ in 0..k {
                let mut nd = vec![];
                for p in &dist {
                    let used: usize = p.iter().sum();
                    for x in 0..=(n - 1 - used) {
                        let mut q: Vec<usize> = p.clone();
                        q.push(x);
                        nd.push(q);
                    }
                }
                dist = nd;
            }
            for p in dist.into_iter().filter(|p| p.iter().sum::<usize>() == n - 1) {
                let subs: Vec<Vec<E>> = p.iter().map(|m| trees(*m, cs, memo)).collect();
                let mut combos: Vec<Vec<E>> = vec![vec![]];
                for s in &subs {
                    let mut nc = vec![];
                    for c0 in &combos {
                        for x in s {
                            let mut c1 = c0.clone();
                            c1.push(x.clone());
                            nc.push(c1);
                        }
                    }
                    combos = nc;
                }
                for kk in combos {
                    out.push(ctor_apply(c, kk));
                }
            }
        }
        out
    };
    memo.insert(n, out.clone());
    out
}

fn reductions(e: &E, ops: &[OpDef]) -> Vec<E> {
    let mut out = vec![];
    // replace the whole tree by one of its children
    for k in kids(e) {
        out.push(k.clone());
    }
    // replace one child by a leaf / reduce inside a child
    fn rebuild(e: &E, idx: usize, new: E) -> E {
        let mut ks: Vec<E> = kids(e).into_iter().cloned().collect();
        ks[idx] = new;
        let mut it = ks.into_iter();
        let mut p = || Box::new(it.next().unwrap());
        match e {
            E::Func(_) => E::Func(p()),
            E::Coalesce1(_) => E::Coalesce1(p()),
            E::Not(_) => E::Not(p()),
            E::IsNull(n, _) => E::IsNull(*n, p()),
            E::In(n, _) => E::In(*n, p()),
            E::LikeEsc(n, _) => E::LikeEsc(*n, p()),
            E::Cast(_) => E::Cast(p()),
            E::AsEnum(_) => E::AsEnum(p()),
            E::Tuple(..) => E::Tuple(p(), p()),
            E::Bin(i, ..) => E::Bin(*i, p(), p()),
            E::In1(n, ..) => E::In1(*n, p(), p()),
            E::Case(..) => E::Case(p(), p(), p()),
            E::Between(n, ..) => E::Between(*n, p(), p(), p()),
            other => other.clone(),
        }
    }
    for (i, k) in kids(e).into_iter().enumerate() {
        if *k != E::Leaf {
            out.push(rebuild(e, i, E::Leaf));
        }
        for r in reductions(k, ops) {
            out.push(rebuild(e, i, r));
        }
    }
    // canonical operator of the same class, un-negated forms
    match e {
        E::Bin(i, l, r) => {
            if let Some(j) = (0..*i).find(|j| ops[*j].class == ops[*i].class && ops[*j].like_family == ops[*i].like_family) {
                out.push(E::Bin(j, l.clone(), r.clone()));
            }
        }
        E::IsNull(true, x) => out.push(E::IsNull(false, x.clone())),
        E::In(true, x) => out.push(E::In(false, x.clone())),
        E::In1(true, x, y) => out.push(E::In1(false, x.clone(), y.clone())),
        E::LikeEsc(true, x) => out.push(E::LikeEsc(false, x.clone())),
        E::Between(true, a, b, c) => out.push(E::Between(false, a.clone(), b.clone(), c.clone())),
        _ => {}
    }
    out
}

fn record(rep: &Report, cfg: &str, e: &E, d: Dialect, ops: &[OpDef], sig: &str) {
    rep.raw_failures.inc();
    let min = minimize(e.clone(), sig, |x| reductions(x, ops), |x| check_one(x, d, ops, None).err().map(|e| e.0));
    let det = check_one(&min, d, ops, None).err().map(|e| e.1).unwrap_or_default();
    rep.violation(Violation {
        key: format!("expr|{}|{}|{}", d.name(), sig, show(&min, ops)),
        what: format!("[{cfg}] {}: {}", d.name(), det),
        case: json!({"dialect": d.name(), "tree": show(&min, ops), "config": cfg, "json": to_json(&min)}),
    });
}

pub fn run(rep: &Arc<Report>) {
    let cfg = if cfg!(feature = "moreparens") { "option-more-parentheses" } else { "default" };
    let full_n = if rep.thorough() { 3 } else { 2 };
    let rep_n = if rep.thorough() { 4 } else { 3 };
    let st = Stats { engine_evals: Counter::new(), engine_not_evaluable: Counter::new(), excluded: Counter::new() };
    let evals = Counter::new();
    let per_dialect: Mutex<BTreeMap<String, u64>> = Mutex::new(BTreeMap::new());
    let mut n_trees_total = 0u64;
    let mut transitions = 0u64;
    let mut chain_cases = 0u64;
    for d in DIALECTS {
        let o = ops(d);
        // (i) all trees with <= full_n operator nodes over the full alphabet
        let cs = ctors(&o, None);
        let mut memo = BTreeMap::new();
        let mut all: Vec<E> = vec![];
        for n in 1..=full_n {
            all.extend(trees(n, &cs, &mut memo));
        }
        // (ii) deeper trees over one representative per class
        let mut reps: Vec<usize> = vec![];
        for (i, od) in o.iter().enumerate() {
            if !reps.iter().any(|j| o[*j].class == od.class && o[*j].like_family == od.like_family) {
                reps.push(i);
            }
        }
        // same-operator chains need `Sub` and `Or` too (left-associativity rule)
        for name in ["Sub", "Or", "Mul"] {
            if let Some(i) = o.iter().position(|x| x.name == name) {
                if !reps.contains(&i) {
                    reps.push(i);
                }
            }
        }
        let cs2 = ctors(&o, Some(&reps));
        let mut memo2 = BTreeMap::new();
        for n in (full_n + 1)..=rep_n {
            all.extend(trees(n, &cs2, &mut memo2));
        }
        // (iv) every leaf kind in every slot of every 1-node constructor, and under NOT
        let leaf_kinds = [E::Val, E::Func(Box::new(E::Leaf)), E::Tuple(Box::new(E::Leaf), Box::new(E::Leaf)), E::SubQ, E::Case(Box::new(E::Leaf), Box::new(E::Leaf), Box::new(E::Leaf)), E::Kw];
        let mut cs3 = cs.clone();
        cs3.extend([Ctor::Func, Ctor::Case, Ctor::In1(false), Ctor::In1(true)]);
        for c in &cs3 {
            let k = ctor_slots(c);
            for slot in 0..k {
                for lk in &leaf_kinds {
                    // tuples as operands only where SQL allows row values on both sides: comparison-like constructors
                    let mut ks = vec![E::Leaf; k];
                    ks[slot] = lk.clone();
                    all.push(ctor_apply(c, ks));
                }
            }
        }
        // (v) long chains of one operator (class representatives): every length up to the bound, left- and right-nested,
        //     with a plain and with a compound (one node of every representative operator) operand at the deep end - a
        //     renderer that treats long chains in a way of its own (iteration instead of recursion, blocks) is driven
        //     through every length
        let max_chain = if rep.thorough() { 130 } else { 40 };
        let mut deep: Vec<E> = vec![E::Leaf];
        for j in &reps {
            deep.push(E::Bin(*j, Box::new(E::Leaf), Box::new(E::Leaf)));
        }
        let mut chains = 0u64;
        for i in &reps {
            for dp in &deep {
                let (mut l, mut r) = (dp.clone(), dp.clone());
                for len in 2..=max_chain {
                    l = E::Bin(*i, Box::new(l), Box::new(E::Leaf));
                    r = E::Bin(*i, Box::new(E::Leaf), Box::new(r));
                    if len >= 4 {
                        // shorter ones are part of (i) / (ii)
                        all.push(l.clone());
                        all.push(r.clone());
                        chains += 2;
                    }
                }
            }
        }
        chain_cases += chains;
        n_trees_total += all.len() as u64;
        transitions += all.iter().map(|e| count_nodes(e) as u64).sum::<u64>();
        par_items(&all, |_w, e| {
            evals.inc();
            match check_one(e, d, &o, Some(&st)) {
                Ok(_) => {}
                Err((sig, _)) => record(rep, cfg, e, d, &o, &sig),
            }
        });
        per_dialect.lock().unwrap().insert(d.name().into(), all.len() as u64);
    }
    rep.set("config", json!(cfg));
    rep.set("long_chain_trees", json!(chain_cases));
    rep.set("max_operator_nodes_full_alphabet", json!(full_n));
    rep.set("max_operator_nodes_class_representatives", json!(rep_n));
    rep.set("operators_per_dialect", json!(DIALECTS.iter().map(|d| (d.name(), ops(*d).iter().map(|o| o.name).collect::<Vec<_>>())).collect::<BTreeMap<_, _>>()));
    rep.set("trees_per_dialect", json!(*per_dialect.lock().unwrap()));
    rep.set("states", json!(n_trees_total));
    rep.set("transitions", json!(transitions));
    rep.set("evaluations", json!(evals.get()));
    rep.set("excluded_undecidable", json!(st.excluded.get()));
    rep.set("traces_validated_against_impl", json!(st.engine_evals.get() - st.engine_not_evaluable.get()));
    rep.set("sqlite_engine_arbitrations", json!(st.engine_evals.get()));
    rep.set("sqlite_engine_not_evaluable", json!(st.engine_not_evaluable.get()));
    rep.set("distinct_nontrivial", json!(n_trees_total));
    rep.set("rule", json!("every expression tree (distinct by construction) is built through the public ExprTrait API, rendered by the real backend and parsed back by the reference parser of that dialect; on SQLite the engine additionally evaluates the rendering and a fully parenthesised rendering of the built tree over a value table"));
    rep.set("exhaustive", json!(true));
    let o = ops(Dialect::Postgres);
    for e in [E::Bin(11, Box::new(E::Leaf), Box::new(E::Bin(11, Box::new(E::Leaf), Box::new(E::Leaf)))), E::Not(Box::new(E::Bin(0, Box::new(E::Leaf), Box::new(E::Leaf)))), E::Between(false, Box::new(E::Leaf), Box::new(E::Bin(10, Box::new(E::Leaf), Box::new(E::Leaf))), Box::new(E::Leaf))] {
        let mut n = 0;
        let b = build(&e, Dialect::Postgres, &o, &mut n);
        rep.sample(json!({"tree": show(&e, &o), "postgres": render(&b, Dialect::Postgres).unwrap_or_default()}));
    }
    rep.assume("precedence / associativity tables of MySQL 8.0 and PostgreSQL from their manuals (Appendix A); operand slots where manual and real grammar are known to disagree are excluded for MySQL and counted (excluded_undecidable); the SQLite table is checked against the engine on every run");
    if let Ok(t) = std::fs::read_to_string(format!("{}/evidence/C05.moreparens.json", crate::report::VERIF)) {
        if let Ok(j) = serde_json::from_str::<serde_json::Value>(&t) {
            if cfg == "default" {
                rep.set("option_more_parentheses_run", json!({"evaluations": j["coverage"]["evaluations"], "violations": j["violations"], "wall_s": j["wall_s"]}));
            }
        }
    }
}

fn count_nodes(e: &E) -> usize {
    1 + kids(e).into_iter().map(count_nodes).sum::<usize>()
}

fn to_json(e: &E) -> serde_json::Value {
    let kind = match e {
        E::Leaf => "Leaf".to_string(),
        E::Val => "Val".into(),
        E::SubQ => "SubQ".into(),
        E::Kw => "Kw".into(),
        E::Func(_) => "Func".into(),
        E::Coalesce1(_) => "Coalesce1".into(),
        E::Tuple(..) => "Tuple".into(),
        E::Case(..) => "Case".into(),
        E::Bin(i, ..) => format!("Bin:{i}"),
        E::Not(_) => "Not".into(),
        E::IsNull(n, _) => format!("IsNull:{n}"),
        E::In(n, _) => format!("In:{n}"),
        E::In1(n, ..) => format!("In1:{n}"),
        E::Between(n, ..) => format!("Between:{n}"),
        E::LikeEsc(n, _) => format!("LikeEsc:{n}"),
        E::Cast(_) => "Cast".into(),
        E::AsEnum(_) => "AsEnum".into(),
    };
    json!({"k": kind, "c": kids(e).into_iter().map(to_json).collect::<Vec<_>>()})
}

fn from_json(j: &serde_json::Value) -> Option<E> {
    let k = j["k"].as_str()?;
    let ks: Vec<E> = j["c"].as_array()?.iter().map(from_json).collect::<Option<Vec<_>>>()?;
    let (name, arg) = k.split_once(':').unwrap_or((k, ""));
    let flag = arg == "true";
    Some(match name {
        "Leaf" => E::Leaf,
        "Val" => E::Val,
        "SubQ" => E::SubQ,
        "Kw" => E::Kw,
        "Bin" => ctor_apply(&Ctor::Bin(arg.parse().ok()?), ks),
        "Not" => ctor_apply(&Ctor::Not, ks),
        "IsNull" => ctor_apply(&Ctor::IsNull(flag), ks),
        "In" => ctor_apply(&Ctor::In(flag), ks),
        "In1" => ctor_apply(&Ctor::In1(flag), ks),
        "Between" => ctor_apply(&Ctor::Between(flag), ks),
        "LikeEsc" => ctor_apply(&Ctor::LikeEsc(flag), ks),
        "Cast" => ctor_apply(&Ctor::Cast, ks),
        "AsEnum" => ctor_apply(&Ctor::AsEnum, ks),
        "Func" => ctor_apply(&Ctor::Func, ks),
        "Coalesce1" => ctor_apply(&Ctor::Coalesce1, ks),
        "Tuple" => ctor_apply(&Ctor::Tuple, ks),
        "Case" => ctor_apply(&Ctor::Case, ks),
        _ => return None,
    })
}

pub fn replay(case: &serde_json::Value) -> Option<String> {
    let d = Dialect::from_name(case["dialect"].as_str().unwrap_or("sqlite"));
    let Some(e) = from_json(&case["json"]) else { return Some("MACHINERY: cannot decode the tree of this replay file".into()) };
    let o = ops(d);
    check_one(&e, d, &o, None).err().map(|(sig, det)| format!("{}: [{}] {}", d.name(), sig, det))
}
