//! C14 — MySQL and Postgres schema statements are complete and well-formed (DESIGN §3.14).
//!
//! Every schema statement of an exhaustively enumerated family (all ColumnType variants and
//! parameters x specification sequences, table-level elements and options, ALTER option sequences,
//! index / foreign-key / rename / drop / truncate, PostgreSQL type and extension statements) is
//! rendered for MySQL and PostgreSQL and parsed by the dialect's reference DDL parser; the parse
//! must succeed and return exactly the declared elements, in order, with a type the dialect defines.

use crate::ddlparse::*;
use crate::enumerate::perms_of_subsets;
use crate::exprparse::PExpr;
use crate::lex::Dialect;
use crate::report::{Report, Violation};
use crate::util::{catch, par_items, Counter};
use sea_query::extension::postgres::{Extension, IntoTypeRef, Type};
use sea_query::*;
use serde_json::json;
use std::sync::Arc;

fn a(s: &str) -> Alias {
    Alias::new(s)
}

static DISTINCT_SQL: std::sync::Mutex<Option<std::collections::HashSet<u128>>> = std::sync::Mutex::new(None);
/// count distinct rendered statements (fingerprints)
fn note_sql(sql: &str) {
    DISTINCT_SQL.lock().unwrap().get_or_insert_with(Default::default).insert(crate::util::fp_str(sql));
}

#[derive(Clone, Debug, PartialEq)]
pub enum T {
    Char(Option<u32>),
    StringN(u32),
    StringNone,
    StringMax,
    Text,
    TinyInteger,
    SmallInteger,
    Integer,
    BigInteger,
    TinyUnsigned,
    SmallUnsigned,
    Unsigned,
    BigUnsigned,
    Float,
    Double,
    Decimal(Option<(u32, u32)>),
    DateTime,
    Timestamp,
    TimestampWithTimeZone,
    Time,
    Date,
    Year,
    Interval(Option<PgInterval>, Option<u32>),
    Binary(u32),
    VarBinary(u32),
    Blob,
    Bit(Option<u32>),
    VarBit(u32),
    Boolean,
    Money(Option<(u32, u32)>),
    Json,
    JsonBinary,
    Uuid,
    Custom,
    Enum,
    ArrayInt,
    ArrayArrayText,
    Vector(Option<u32>),
    Cidr,
    Inet,
    MacAddr,
    LTree,
}

pub fn all_types() -> Vec<T> {
    vec![
        T::Char(None), T::Char(Some(3)), T::StringN(1), T::StringN(4000), T::StringNone, T::StringMax, T::Text, T::TinyInteger, T::SmallInteger, T::Integer, T::BigInteger, T::TinyUnsigned, T::SmallUnsigned, T::Unsigned, T::BigUnsigned,
        T::Float, T::Double, T::Decimal(None), T::Decimal(Some((10, 2))), T::DateTime, T::Timestamp, T::TimestampWithTimeZone, T::Time, T::Date, T::Year, T::Interval(None, None), T::Interval(Some(PgInterval::YearToMonth), None), T::Interval(Some(PgInterval::Second), Some(3)), T::Interval(None, Some(6)), T::Interval(None, Some(0)), T::Interval(Some(PgInterval::Second), Some(0)), T::Interval(Some(PgInterval::MinuteToSecond), Some(1)),
        // parameters at the edge (1, 0): a renderer that treats a small number as "not given" shows here
        T::Char(Some(1)), T::Decimal(Some((1, 0))), T::Decimal(Some((38, 0))), T::Bit(Some(1)), T::VarBit(1), T::Binary(1), T::VarBinary(1), T::Vector(Some(1)), T::Money(Some((1, 0))),
        T::Binary(16), T::VarBinary(255), T::Blob, T::Bit(None), T::Bit(Some(8)), T::VarBit(9), T::Boolean, T::Money(None), T::Money(Some((19, 4))), T::Json, T::JsonBinary, T::Uuid, T::Custom, T::Enum, T::ArrayInt, T::ArrayArrayText, T::Vector(None), T::Vector(Some(3)), T::Cidr, T::Inet, T::MacAddr, T::LTree,
    ]
}

impl T {
    fn column_type(&self) -> ColumnType {
        match self {
            T::Char(n) => ColumnType::Char(*n),
            T::StringN(n) => ColumnType::String(StringLen::N(*n)),
            T::StringNone => ColumnType::String(StringLen::None),
            T::StringMax => ColumnType::String(StringLen::Max),
            T::Text => ColumnType::Text,
            T::TinyInteger => ColumnType::TinyInteger,
            T::SmallInteger => ColumnType::SmallInteger,
            T::Integer => ColumnType::Integer,
            T::BigInteger => ColumnType::BigInteger,
            T::TinyUnsigned => ColumnType::TinyUnsigned,
            T::SmallUnsigned => ColumnType::SmallUnsigned,
            T::Unsigned => ColumnType::Unsigned,
            T::BigUnsigned => ColumnType::BigUnsigned,
            T::Float => ColumnType::Float,
            T::Double => ColumnType::Double,
            T::Decimal(p) => ColumnType::Decimal(*p),
            T::DateTime => ColumnType::DateTime,
            T::Timestamp => ColumnType::Timestamp,
            T::TimestampWithTimeZone => ColumnType::TimestampWithTimeZone,
            T::Time => ColumnType::Time,
            T::Date => ColumnType::Date,
            T::Year => ColumnType::Year,
            T::Interval(f, p) => ColumnType::Interval(f.clone(), *p),
            T::Binary(n) => ColumnType::Binary(*n),
            T::VarBinary(n) => ColumnType::VarBinary(StringLen::N(*n)),
            T::Blob => ColumnType::Blob,
            T::Bit(n) => ColumnType::Bit(*n),
            T::VarBit(n) => ColumnType::VarBit(*n),
            T::Boolean => ColumnType::Boolean,
            T::Money(p) => ColumnType::Money(*p),
            T::Json => ColumnType::Json,
            T::JsonBinary => ColumnType::JsonBinary,
            T::Uuid => ColumnType::Uuid,
            T::Custom => ColumnType::custom("citext"),
            T::Enum => ColumnType::Enum { name: a("mood").into_iden(), variants: vec![a("sad").into_iden(), a("ok").into_iden()] },
            T::ArrayInt => ColumnType::Array(RcOrArc::new(ColumnType::Integer)),
            T::ArrayArrayText => ColumnType::Array(RcOrArc::new(ColumnType::Array(RcOrArc::new(ColumnType::Text)))),
            T::Vector(n) => ColumnType::Vector(*n),
            T::Cidr => ColumnType::Cidr,
            T::Inet => ColumnType::Inet,
            T::MacAddr => ColumnType::MacAddr,
            T::LTree => ColumnType::LTree,
        }
    }

    /// Is the parsed type one the dialect defines for this abstract type, with lengths / precisions /
    /// unsigned-ness preserved? None = the backend documents the type as unsupported (out of domain).
    fn accepts(&self, d: Dialect, auto_increment: bool, p: &PType) -> Option<Result<(), String>> {
        let args = |want: &[u32]| p.args == want.iter().map(|x| x.to_string()).collect::<Vec<_>>();
        let no_args = p.args.is_empty();
        let name = p.name.as_str();
        let plain = !p.unsigned && p.array_dims == 0 && p.labels.is_empty();
        let ok = |b: bool| Some(if b { Ok(()) } else { Err(format!("{:?} rendered as {:?}", self, p)) });
        match d {
            Dialect::Mysql => {
                let nm = |names: &[&str]| names.contains(&name);
                match self {
                    T::Char(None) => ok(nm(&["CHAR"]) && no_args && plain),
                    T::Char(Some(n)) => ok(nm(&["CHAR"]) && args(&[*n]) && plain),
                    T::StringN(n) => ok(nm(&["VARCHAR"]) && args(&[*n]) && plain),
                    T::StringNone | T::StringMax => ok(nm(&["VARCHAR"]) && p.args.len() == 1 && plain),
                    T::Text => ok(nm(&["TEXT"]) && no_args && plain),
                    T::TinyInteger => ok(nm(&["TINYINT"]) && no_args && plain),
                    T::SmallInteger => ok(nm(&["SMALLINT"]) && no_args && plain),
                    T::Integer => ok(nm(&["INT", "INTEGER"]) && no_args && plain),
                    T::BigInteger => ok(nm(&["BIGINT"]) && no_args && plain),
                    T::TinyUnsigned => ok(nm(&["TINYINT"]) && no_args && p.unsigned),
                    T::SmallUnsigned => ok(nm(&["SMALLINT"]) && no_args && p.unsigned),
                    T::Unsigned => ok(nm(&["INT", "INTEGER"]) && no_args && p.unsigned),
                    T::BigUnsigned => ok(nm(&["BIGINT"]) && no_args && p.unsigned),
                    T::Float => ok(nm(&["FLOAT"]) && no_args && plain),
                    T::Double => ok(nm(&["DOUBLE", "DOUBLE PRECISION"]) && no_args && plain),
                    T::Decimal(None) | T::Money(None) => ok(nm(&["DECIMAL", "NUMERIC"]) && no_args && plain),
                    T::Decimal(Some((x, y))) | T::Money(Some((x, y))) => ok(nm(&["DECIMAL", "NUMERIC"]) && args(&[*x, *y]) && plain),
                    T::DateTime => ok(nm(&["DATETIME"]) && no_args && plain),
                    T::Timestamp | T::TimestampWithTimeZone => ok(nm(&["TIMESTAMP"]) && no_args && plain),
                    T::Time => ok(nm(&["TIME"]) && no_args && plain),
                    T::Date => ok(nm(&["DATE"]) && no_args && plain),
                    T::Year => ok(nm(&["YEAR"]) && no_args && plain),
                    T::Interval(..) => None,
                    T::Binary(n) => ok(nm(&["BINARY"]) && args(&[*n]) && plain),
                    T::VarBinary(n) => ok(nm(&["VARBINARY"]) && args(&[*n]) && plain),
                    T::Blob => ok(nm(&["BLOB"]) && no_args && plain),
                    T::Bit(None) => ok(nm(&["BIT"]) && no_args && plain),
                    T::Bit(Some(n)) | T::VarBit(n) => ok(nm(&["BIT"]) && args(&[*n]) && plain),
                    T::Boolean => ok((nm(&["BOOL", "BOOLEAN"]) && no_args || nm(&["TINYINT"]) && args(&[1])) && plain),
                    T::Json | T::JsonBinary => ok(nm(&["JSON"]) && no_args && plain),
                    T::Uuid => ok(nm(&["BINARY"]) && args(&[16]) && plain),
                    T::Custom => ok(name == "CITEXT" && no_args),
                    T::Enum => ok(name == "ENUM" && p.labels == vec!["sad".to_string(), "ok".to_string()]),
                    T::ArrayInt | T::ArrayArrayText | T::Vector(_) | T::Cidr | T::Inet | T::MacAddr | T::LTree => None,
                }
            }
            Dialect::Postgres => {
                let nm = |names: &[&str]| names.contains(&name);
                if auto_increment {
                    return match self {
                        T::SmallInteger => ok(nm(&["SMALLSERIAL", "SERIAL2"]) && no_args && plain),
                        T::Integer => ok(nm(&["SERIAL", "SERIAL4"]) && no_args && plain),
                        T::BigInteger => ok(nm(&["BIGSERIAL", "SERIAL8"]) && no_args && plain),
                        _ => None, // documented: unimplemented for other types
                    };
                }
                match self {
                    T::Char(None) => ok(nm(&["CHAR", "CHARACTER"]) && no_args && plain),
                    T::Char(Some(n)) => ok(nm(&["CHAR", "CHARACTER"]) && args(&[*n]) && plain),
                    T::StringN(n) => ok(nm(&["VARCHAR", "CHARACTER VARYING"]) && args(&[*n]) && plain),
                    T::StringNone | T::StringMax => ok(nm(&["VARCHAR", "CHARACTER VARYING", "TEXT"]) && no_args && plain),
                    T::Text => ok(nm(&["TEXT"]) && no_args && plain),
                    T::TinyInteger | T::SmallInteger | T::TinyUnsigned | T::SmallUnsigned => ok(nm(&["SMALLINT", "INT2"]) && no_args && plain),
                    T::Integer | T::Unsigned => ok(nm(&["INTEGER", "INT", "INT4"]) && no_args && plain),
                    T::BigInteger | T::BigUnsigned => ok(nm(&["BIGINT", "INT8"]) && no_args && plain),
                    T::Float => ok(nm(&["REAL", "FLOAT4"]) && no_args && plain),
                    T::Double => ok(nm(&["DOUBLE PRECISION", "FLOAT8"]) && no_args && plain),
                    T::Decimal(None) => ok(nm(&["DECIMAL", "NUMERIC"]) && no_args && plain),
                    T::Decimal(Some((x, y))) => ok(nm(&["DECIMAL", "NUMERIC"]) && args(&[*x, *y]) && plain),
                    T::DateTime => ok(nm(&["TIMESTAMP", "TIMESTAMP WITHOUT TIME ZONE"]) && no_args && plain),
                    T::Timestamp => ok(nm(&["TIMESTAMP", "TIMESTAMP WITHOUT TIME ZONE"]) && no_args && plain),
                    T::TimestampWithTimeZone => ok(nm(&["TIMESTAMP WITH TIME ZONE", "TIMESTAMPTZ"]) && no_args && plain),
                    T::Time => ok(nm(&["TIME", "TIME WITHOUT TIME ZONE"]) && no_args && plain),
                    T::Date => ok(nm(&["DATE"]) && no_args && plain),
                    T::Year => None,
                    T::Interval(f, pr) => {
                        let want = match f {
                            Some(f) => format!("INTERVAL {}", f),
                            None => "INTERVAL".to_string(),
                        };
                        ok(name == want && (match pr { Some(x) => args(&[*x]), None => no_args }) && plain)
                    }
                    T::Binary(_) | T::VarBinary(_) | T::Blob => ok(nm(&["BYTEA"]) && no_args && plain),
                    T::Bit(None) => ok(nm(&["BIT"]) && no_args && plain),
                    T::Bit(Some(n)) => ok(nm(&["BIT"]) && args(&[*n]) && plain),
                    T::VarBit(n) => ok(nm(&["VARBIT", "BIT VARYING"]) && args(&[*n]) && plain),
                    T::Boolean => ok(nm(&["BOOL", "BOOLEAN"]) && no_args && plain),
                    // PostgreSQL's money type takes no parameters
                    T::Money(_) => ok(nm(&["MONEY"]) && no_args && plain),
                    T::Json => ok(nm(&["JSON"]) && no_args && plain),
                    T::JsonBinary => ok(nm(&["JSONB"]) && no_args && plain),
                    T::Uuid => ok(nm(&["UUID"]) && no_args && plain),
                    T::Custom => ok(name == "CITEXT" && no_args),
                    // the name of the enumeration type is an identifier: one quoted-identifier token (C04)
                    T::Enum => ok(name == "\"mood\"" && no_args && plain),
                    T::ArrayInt => ok(nm(&["INTEGER", "INT", "INT4"]) && no_args && p.array_dims == 1),
                    T::ArrayArrayText => ok(nm(&["TEXT"]) && no_args && p.array_dims == 2),
                    T::Vector(None) => ok(nm(&["VECTOR"]) && no_args && plain),
                    T::Vector(Some(n)) => ok(nm(&["VECTOR"]) && args(&[*n]) && plain),
                    T::Cidr => ok(nm(&["CIDR"]) && no_args && plain),
                    T::Inet => ok(nm(&["INET"]) && no_args && plain),
                    T::MacAddr => ok(nm(&["MACADDR"]) && no_args && plain),
                    T::LTree => ok(nm(&["LTREE"]) && no_args && plain),
                }
            }
            Dialect::Sqlite => None,
        }
    }
}

#[derive(Clone, Copy, Debug, PartialEq)]
pub enum CS {
    Null,
    NotNull,
    DefaultInt,
    DefaultStr,
    AutoIncrement,
    UniqueKey,
    PrimaryKey,
    Check,
    GeneratedStored,
    Extra,
    Comment,
}
pub const ALL_SPECS: [CS; 11] = [CS::Null, CS::NotNull, CS::DefaultInt, CS::DefaultStr, CS::AutoIncrement, CS::UniqueKey, CS::PrimaryKey, CS::Check, CS::GeneratedStored, CS::Extra, CS::Comment];

/// a quote, a backslash in the middle and a backslash at the very end
const COMMENT_TEXT: &str = "a 'c' \\x\\";

fn apply_spec(c: &mut ColumnDef, s: CS, d: Dialect) {
    match s {
        CS::Null => c.null(),
        CS::NotNull => c.not_null(),
        CS::DefaultInt => c.default(7),
        CS::DefaultStr => c.default("it's"),
        CS::AutoIncrement => c.auto_increment(),
        CS::UniqueKey => c.unique_key(),
        CS::PrimaryKey => c.primary_key(),
        CS::Check => c.check(Expr::col(a("c")).ne(13)),
        CS::GeneratedStored => c.generated(Expr::col(a("k")).add(1), true),
        CS::Extra => c.extra(if d == Dialect::Mysql { "COLLATE utf8mb4_bin" } else { "COLLATE \"C\"" }),
        CS::Comment => c.comment(COMMENT_TEXT),
    };
}

fn col_ref(c: &str) -> PExpr {
    PExpr::Col(vec![c.to_string()])
}

fn expect_spec(s: CS, d: Dialect) -> Option<PSpec> {
    Some(match s {
        CS::Null => PSpec::Null,
        CS::NotNull => PSpec::NotNull,
        CS::DefaultInt => PSpec::Default(PExpr::Num("7".into())),
        CS::DefaultStr => PSpec::Default(PExpr::Str("it's".into())),
        CS::AutoIncrement => {
            if d == Dialect::Mysql {
                PSpec::AutoIncrement
            } else {
                return None; // expressed by the serial type
            }
        }
        CS::UniqueKey => PSpec::Unique,
        CS::PrimaryKey => PSpec::PrimaryKey,
        CS::Check => PSpec::Check(PExpr::Bin("<>".into(), Box::new(col_ref("c")), Box::new(PExpr::Num("13".into())))),
        CS::GeneratedStored => PSpec::Generated(PExpr::Bin("+".into(), Box::new(col_ref("k")), Box::new(PExpr::Num("1".into()))), true),
        CS::Extra => PSpec::Collate(if d == Dialect::Mysql { "utf8mb4_bin".into() } else { "C".into() }),
        CS::Comment => {
            if d == Dialect::Mysql {
                PSpec::Comment(COMMENT_TEXT.into())
            } else {
                return None; // PostgreSQL has no inline column comment
            }
        }
    })
}

fn build_col(t: &T, specs: &[CS], d: Dialect) -> ColumnDef {
    let mut c = ColumnDef::new_with_type(a("c"), t.column_type());
    for s in specs {
        apply_spec(&mut c, *s, d);
    }
    c
}

macro_rules! render {
    ($d:expr, $s:expr) => {
        catch(|| match $d {
            Dialect::Mysql => $s.to_string(MysqlQueryBuilder),
            _ => $s.to_string(PostgresQueryBuilder),
        })
    };
}

/// Ok(false) = out of domain
fn check_col(d: Dialect, col: &PCol, t: &T, specs: &[CS]) -> Result<bool, (String, String)> {
    let auto = specs.contains(&CS::AutoIncrement);
    if col.name != "c" {
        return Err(("column-name".into(), format!("column parsed as {:?}", col.name)));
    }
    let Some(ty) = &col.ty else { return Err(("type-missing".into(), "the column has no data type".to_string())) };
    match t.accepts(d, auto, ty) {
        None => return Ok(false),
        Some(Err(m)) => return Err(("type-not-defined-or-changed".into(), m)),
        Some(Ok(())) => {}
    }
    let want: Vec<PSpec> = specs.iter().filter_map(|s| expect_spec(*s, d)).collect();
    if col.specs != want {
        return Err(("specifications-differ".into(), format!("parsed specifications {:?}, declared {:?}", col.specs, want)));
    }
    Ok(true)
}

fn dup_or_contradiction(specs: &[CS]) -> bool {
    (specs.contains(&CS::Null) && specs.contains(&CS::NotNull)) || (specs.contains(&CS::DefaultInt) && specs.contains(&CS::DefaultStr))
}

/// (1) one column in CREATE TABLE and in ALTER TABLE ADD COLUMN
fn check_column_case(d: Dialect, t: &T, specs: &[CS]) -> Result<bool, (String, String)> {
    if dup_or_contradiction(specs) {
        return Ok(false);
    }
    let col = build_col(t, specs, d);
    let sql = match render!(d, Table::create().table(a("t")).col(ColumnDef::new(a("k")).integer()).col(col.clone())) {
        Ok(s) => s,
        Err(p) => {
            // documented `unimplemented!` for types the backend does not have
            return if t.accepts(d, specs.contains(&CS::AutoIncrement), &PType::default()).is_none() { Ok(false) } else { Err(("render-panic".into(), format!("rendering panicked: {p}"))) };
        }
    };
    note_sql(&sql);
    let st = parse_ddl(d, &sql).map_err(|e| ("does-not-parse".to_string(), format!("{sql:?}: {e}")))?;
    let PStmt::CreateTable(ct) = st else { return Err(("wrong-statement".into(), format!("{sql:?} parsed as another statement"))) };
    if ct.cols.len() != 2 || !ct.elems.is_empty() {
        return Err(("elements-differ".into(), format!("{sql:?}: parsed {} columns and {} table elements, declared 2 and 0", ct.cols.len(), ct.elems.len())));
    }
    let r = check_col(d, &ct.cols[1], t, specs).map_err(|(s, m)| (s, format!("{sql:?}: {m}")))?;
    // the same definition through ALTER TABLE ADD COLUMN
    if let Ok(sql2) = render!(d, Table::alter().table(a("t")).add_column(col)) {
        note_sql(&sql2);
        let st = parse_ddl(d, &sql2).map_err(|e| ("does-not-parse".to_string(), format!("{sql2:?}: {e}")))?;
        match st {
            PStmt::AlterTable { actions, .. } if actions.len() == 1 => match &actions[0] {
                PAlter::AddColumn { col, if_not_exists: false } => {
                    check_col(d, col, t, specs).map_err(|(s, m)| (s, format!("{sql2:?}: {m}")))?;
                }
                other => return Err(("elements-differ".into(), format!("{sql2:?} parsed as {:?}", other))),
            },
            other => return Err(("elements-differ".into(), format!("{sql2:?} parsed as {:?}", other))),
        }
    }
    Ok(r)
}

// ---------------------------------------------------------------------------------------------
// (2) table-level elements and options

#[derive(Clone, Debug)]
pub struct TableS {
    temporary: bool,
    if_not_exists: bool,
    pk: u8,
    unique: bool,
    plain_index: bool,
    fulltext: bool,
    fk: Option<(Option<ForeignKeyAction>, Option<ForeignKeyAction>)>,
    fk_named: bool,
    check: bool,
    options: u8, // bit 0 engine, bit 1 collate, bit 2 charset (MySQL)
    comment: bool,
}

fn act(x: ForeignKeyAction) -> String {
    match x {
        ForeignKeyAction::Restrict => "RESTRICT",
        ForeignKeyAction::Cascade => "CASCADE",
        ForeignKeyAction::SetNull => "SET NULL",
        ForeignKeyAction::NoAction => "NO ACTION",
        ForeignKeyAction::SetDefault => "SET DEFAULT",
    }
    .to_string()
}

fn kp(c: &str) -> PKeyPart {
    PKeyPart { col: c.into(), prefix: None, desc: None }
}

fn check_table(d: Dialect, t: &TableS) -> Result<bool, (String, String)> {
    if d == Dialect::Postgres && (t.plain_index || t.fulltext || t.options != 0 || t.comment) {
        return Ok(false); // documented MySQL-only
    }
    let sql = render!(d, {
        let mut s = Table::create();
        s.table(a("t"));
        if t.temporary {
            s.temporary();
        }
        if t.if_not_exists {
            s.if_not_exists();
        }
        s.col(ColumnDef::new(a("id")).integer().not_null()).col(ColumnDef::new(a("a")).integer()).col(ColumnDef::new(a("b")).string_len(20));
        match t.pk {
            1 => {
                s.primary_key(Index::create().col(a("id")));
            }
            2 => {
                s.primary_key(Index::create().name("pk_t").col(a("id")).col(a("a")));
            }
            _ => {}
        }
        if t.unique {
            s.index(Index::create().unique().name("u1").col(a("a")).col(a("b")));
        }
        if t.plain_index {
            s.index(Index::create().name("i1").col(a("a")).index_type(IndexType::BTree));
        }
        if t.fulltext {
            s.index(Index::create().name("ft").col(a("b")).full_text());
        }
        if let Some((od, ou)) = &t.fk {
            let mut f = ForeignKey::create();
            if t.fk_named {
                f.name("fk1");
            }
            f.from(a("t"), a("a")).to(a("p"), a("id"));
            if let Some(x) = od {
                f.on_delete(*x);
            }
            if let Some(x) = ou {
                f.on_update(*x);
            }
            s.foreign_key(&mut f);
        }
        if t.check {
            s.check(Expr::col(a("a")).gt(0));
        }
        if t.options & 1 != 0 {
            s.engine("InnoDB");
        }
        if t.options & 2 != 0 {
            s.collate("utf8mb4_unicode_ci");
        }
        if t.options & 4 != 0 {
            s.character_set("utf8mb4");
        }
        if t.comment {
            s.comment(COMMENT_TEXT);
        }
        // the usual way to finish a builder chain: move the statement out, render the moved value
        s.take()
    })
    .map_err(|p| ("render-panic".to_string(), format!("rendering panicked: {p}")))?;
    note_sql(&sql);
    let st = parse_ddl(d, &sql).map_err(|e| ("does-not-parse".to_string(), format!("{sql:?}: {e}")))?;
    let PStmt::CreateTable(ct) = st else { return Err(("wrong-statement".into(), format!("{sql:?} parsed as another statement"))) };
    let mut want_elems: Vec<PElem> = vec![];
    match t.pk {
        1 => want_elems.push(PElem::PrimaryKey { name: None, cols: vec![kp("id")] }),
        2 => want_elems.push(PElem::PrimaryKey { name: Some("pk_t".into()), cols: vec![kp("id"), kp("a")] }),
        _ => {}
    }
    if t.unique {
        want_elems.push(PElem::Unique { name: Some("u1".into()), cols: vec![kp("a"), kp("b")], nulls_not_distinct: false, include: vec![] });
    }
    if t.plain_index {
        want_elems.push(PElem::Index { name: Some("i1".into()), cols: vec![kp("a")], fulltext: false, using: Some("BTREE".into()) });
    }
    if t.fulltext {
        want_elems.push(PElem::Index { name: Some("ft".into()), cols: vec![kp("b")], fulltext: true, using: None });
    }
    if let Some((od, ou)) = &t.fk {
        want_elems.push(PElem::ForeignKey(PFk { name: if t.fk_named { Some("fk1".into()) } else { None }, cols: vec!["a".into()], ref_table: vec!["p".into()], ref_cols: vec!["id".into()], on_delete: od.map(act), on_update: ou.map(act) }));
    }
    if t.check {
        want_elems.push(PElem::Check(PExpr::Bin(">".into(), Box::new(col_ref("a")), Box::new(PExpr::Num("0".into())))));
    }
    // a primary key name is not part of MySQL's / PostgreSQL's table-constraint form `PRIMARY KEY (..)` unless given as CONSTRAINT name
    let norm = |e: &PElem| match e {
        PElem::PrimaryKey { cols, .. } => PElem::PrimaryKey { name: None, cols: cols.clone() },
        other => other.clone(),
    };
    let got: Vec<PElem> = ct.elems.iter().map(norm).collect();
    let want: Vec<PElem> = want_elems.iter().map(norm).collect();
    if got != want {
        return Err(("elements-differ".into(), format!("{sql:?}: parsed table elements {:?}, declared {:?}", got, want)));
    }
    let cols: Vec<&str> = ct.cols.iter().map(|c| c.name.as_str()).collect();
    if cols != ["id", "a", "b"] {
        return Err(("elements-differ".into(), format!("{sql:?}: parsed columns {:?}", cols)));
    }
    if ct.temporary != t.temporary || ct.if_not_exists != t.if_not_exists {
        return Err(("flags-differ".into(), format!("{sql:?}: TEMPORARY={} IF NOT EXISTS={}, declared {} {}", ct.temporary, ct.if_not_exists, t.temporary, t.if_not_exists)));
    }
    let mut want_opts: Vec<(String, String)> = vec![];
    if t.comment {
        want_opts.push(("COMMENT".into(), COMMENT_TEXT.into()));
    }
    if t.options & 1 != 0 {
        want_opts.push(("ENGINE".into(), "InnoDB".into()));
    }
    if t.options & 2 != 0 {
        want_opts.push(("COLLATE".into(), "utf8mb4_unicode_ci".into()));
    }
    if t.options & 4 != 0 {
        want_opts.push(("CHARSET".into(), "utf8mb4".into()));
    }
    let mut g = ct.options.clone();
    g.sort();
    want_opts.sort();
    if g != want_opts {
        return Err(("options-differ".into(), format!("{sql:?}: parsed table options {:?}, declared {:?}", ct.options, want_opts)));
    }
    Ok(true)
}

// ---------------------------------------------------------------------------------------------
// (3) ALTER TABLE option sequences

#[derive(Clone, Debug, PartialEq)]
pub enum AOp {
    AddColumn,
    AddColumnIfNotExists,
    /// modify_column with a type and the given specs
    Modify(bool, Vec<CS>),
    RenameColumn,
    DropColumn,
    AddForeignKey,
    AddForeignKeyUnnamed,
    DropForeignKey,
}

fn expected_actions(d: Dialect, op: &AOp) -> Option<Vec<PAlter>> {
    let int_col = |name: &str, specs: Vec<PSpec>| PCol { name: name.into(), ty: Some(PType { name: if d == Dialect::Mysql { "INT".into() } else { "INTEGER".into() }, ..Default::default() }), specs };
    Some(match op {
        AOp::AddColumn => vec![PAlter::AddColumn { if_not_exists: false, col: int_col("n1", vec![PSpec::NotNull]) }],
        AOp::AddColumnIfNotExists => {
            if d == Dialect::Mysql {
                return None; // MySQL has no ADD COLUMN IF NOT EXISTS: out of domain
            }
            vec![PAlter::AddColumn { if_not_exists: true, col: int_col("n2", vec![]) }]
        }
        AOp::Modify(with_type, specs) => {
            if d == Dialect::Mysql {
                if !with_type {
                    return None;
                }
                vec![PAlter::ModifyColumn(int_col("m", specs.iter().filter_map(|s| expect_spec(*s, d)).collect()))]
            } else {
                let mut v = vec![];
                if *with_type {
                    v.push(PAlter::AlterType { col: "m".into(), ty: PType { name: "INTEGER".into(), ..Default::default() }, using: None });
                }
                for s in specs {
                    match s {
                        CS::Null => v.push(PAlter::DropNotNull("m".into())),
                        CS::NotNull => v.push(PAlter::SetNotNull("m".into())),
                        CS::DefaultInt => v.push(PAlter::SetDefault("m".into(), PExpr::Num("7".into()))),
                        CS::DefaultStr => v.push(PAlter::SetDefault("m".into(), PExpr::Str("it's".into()))),
                        CS::UniqueKey => v.push(PAlter::AddUnique(vec!["m".into()])),
                        CS::PrimaryKey => v.push(PAlter::AddPrimaryKey(vec!["m".into()])),
                        CS::Check => v.push(PAlter::AddCheck(PExpr::Bin("<>".into(), Box::new(col_ref("c")), Box::new(PExpr::Num("13".into()))))),
                        // not expressible as an ALTER COLUMN action: nothing is rendered for them
                        CS::AutoIncrement | CS::GeneratedStored | CS::Comment => {}
                        CS::Extra => return None,
                    }
                }
                if v.is_empty() {
                    return None;
                }
                v
            }
        }
        AOp::RenameColumn => vec![PAlter::RenameColumn("r1".into(), "r2".into())],
        AOp::DropColumn => vec![PAlter::DropColumn("d1".into())],
        AOp::AddForeignKey => vec![PAlter::AddForeignKey(PFk { name: Some("fk2".into()), cols: vec!["a".into()], ref_table: vec!["p".into()], ref_cols: vec!["id".into()], on_delete: Some("CASCADE".into()), on_update: None })],
        AOp::AddForeignKeyUnnamed => vec![PAlter::AddForeignKey(PFk { name: None, cols: vec!["a".into()], ref_table: vec!["p".into()], ref_cols: vec!["id".into()], on_delete: None, on_update: Some("SET NULL".into()) })],
        AOp::DropForeignKey => vec![if d == Dialect::Mysql { PAlter::DropForeignKey("fk3".into()) } else { PAlter::DropConstraint("fk3".into()) }],
    })
}

fn apply_aop(s: &mut TableAlterStatement, op: &AOp, d: Dialect) {
    match op {
        AOp::AddColumn => {
            s.add_column(ColumnDef::new(a("n1")).integer().not_null());
        }
        AOp::AddColumnIfNotExists => {
            s.add_column_if_not_exists(ColumnDef::new(a("n2")).integer());
        }
        AOp::Modify(with_type, specs) => {
            let mut c = ColumnDef::new(a("m"));
            if *with_type {
                c.integer();
            }
            for sp in specs {
                apply_spec(&mut c, *sp, d);
            }
            s.modify_column(c);
        }
        AOp::RenameColumn => {
            s.rename_column(a("r1"), a("r2"));
        }
        AOp::DropColumn => {
            s.drop_column(a("d1"));
        }
        AOp::AddForeignKey => {
            s.add_foreign_key(TableForeignKey::new().name("fk2").from_tbl(a("t")).from_col(a("a")).to_tbl(a("p")).to_col(a("id")).on_delete(ForeignKeyAction::Cascade));
        }
        AOp::AddForeignKeyUnnamed => {
            s.add_foreign_key(TableForeignKey::new().from_tbl(a("t")).from_col(a("a")).to_tbl(a("p")).to_col(a("id")).on_update(ForeignKeyAction::SetNull));
        }
        AOp::DropForeignKey => {
            s.drop_foreign_key(a("fk3"));
        }
    }
}

fn check_alter(d: Dialect, ops: &[AOp]) -> Result<bool, (String, String)> {
    let mut want = vec![];
    for op in ops {
        match expected_actions(d, op) {
            Some(v) => want.extend(v),
            None => return Ok(false),
        }
    }
    if d == Dialect::Postgres && ops.len() > 1 && ops.contains(&AOp::RenameColumn) {
        return Ok(false); // PostgreSQL: RENAME COLUMN is a statement of its own
    }
    let sql = render!(d, {
        let mut s = Table::alter();
        s.table(a("t"));
        for op in ops {
            apply_aop(&mut s, op, d);
        }
        s
    })
    .map_err(|p| ("render-panic".to_string(), format!("rendering panicked: {p}")))?;
    note_sql(&sql);
    let st = parse_ddl(d, &sql).map_err(|e| ("does-not-parse".to_string(), format!("{sql:?}: {e}")))?;
    match st {
        PStmt::AlterTable { name, actions } => {
            if name != vec!["t".to_string()] {
                return Err(("elements-differ".into(), format!("{sql:?}: table {:?}", name)));
            }
            if actions != want {
                return Err(("alter-actions-differ".into(), format!("{sql:?}: parsed actions {:?}, declared {:?}", actions, want)));
            }
        }
        other => return Err(("wrong-statement".into(), format!("{sql:?} parsed as {:?}", other))),
    }
    Ok(true)
}

// ---------------------------------------------------------------------------------------------
// (4) the other statements: each a (name, render, expected) triple per dialect

fn other_cases(d: Dialect) -> Vec<(String, Result<String, String>, Option<PStmt>)> {
    let mut v: Vec<(String, Result<String, String>, Option<PStmt>)> = vec![];
    let pg = d == Dialect::Postgres;
    let t = || vec!["t".to_string()];
    // index create: all subsets of the flags
    for mask in 0u32..(1 << 7) {
        let (unique, ine, desc, prefix, using_hash, include, nnd) = (mask & 1 != 0, mask & 2 != 0, mask & 4 != 0, mask & 8 != 0, mask & 16 != 0, mask & 32 != 0, mask & 64 != 0);
        if !pg && (ine || include || nnd) {
            continue;
        }
        if pg && prefix {
            continue; // column prefix lengths are MySQL syntax
        }
        let sql = render!(d, {
            let mut s = Index::create();
            s.name("ix").table(a("t"));
            if unique {
                s.unique();
            }
            if ine {
                s.if_not_exists();
            }
            match (desc, prefix) {
                (true, true) => s.col((a("a"), 5, IndexOrder::Desc)),
                (true, false) => s.col((a("a"), IndexOrder::Desc)),
                (false, true) => s.col((a("a"), 5)),
                (false, false) => s.col(a("a")),
            };
            s.col(a("b"));
            if using_hash {
                s.index_type(IndexType::Hash);
            }
            if include {
                s.include(a("c"));
            }
            if nnd {
                s.nulls_not_distinct();
            }
            s
        });
        let want = PStmt::CreateIndex {
            unique,
            fulltext: false,
            if_not_exists: ine,
            name: "ix".into(),
            table: t(),
            using: if using_hash { Some("HASH".into()) } else { None },
            cols: vec![PKeyPart { col: "a".into(), prefix: if prefix { Some("5".into()) } else { None }, desc: if desc { Some(true) } else { None } }, kp("b")],
            include: if include { vec!["c".into()] } else { vec![] },
            nulls_not_distinct: nnd,
            filter: None,
        };
        v.push((format!("create-index mask={mask}"), sql, Some(want)));
    }
    if pg {
        v.push(("create-index partial".into(), render!(d, Index::create().name("ix").table(a("t")).col(a("a")).and_where(Expr::col(a("a")).gt(5))), Some(PStmt::CreateIndex { unique: false, fulltext: false, if_not_exists: false, name: "ix".into(), table: t(), using: None, cols: vec![kp("a")], include: vec![], nulls_not_distinct: false, filter: Some(PExpr::Bin(">".into(), Box::new(col_ref("a")), Box::new(PExpr::Num("5".into())))) })));
        v.push(("create-index schema table".into(), render!(d, Index::create().name("ix").table((a("s"), a("t"))).col(a("a"))), Some(PStmt::CreateIndex { unique: false, fulltext: false, if_not_exists: false, name: "ix".into(), table: vec!["s".into(), "t".into()], using: None, cols: vec![kp("a")], include: vec![], nulls_not_distinct: false, filter: None })));
        v.push(("create-index full_text".into(), render!(d, Index::create().name("ix").table(a("t")).col(a("a")).full_text()), Some(PStmt::CreateIndex { unique: false, fulltext: false, if_not_exists: false, name: "ix".into(), table: t(), using: Some("GIN".into()), cols: vec![kp("a")], include: vec![], nulls_not_distinct: false, filter: None })));
        v.push(("drop-index".into(), render!(d, Index::drop().name("ix")), Some(PStmt::DropIndex { if_exists: false, name: vec!["ix".into()], table: None })));
        v.push(("drop-index if exists, schema".into(), render!(d, Index::drop().name("ix").table((a("s"), a("t"))).if_exists()), Some(PStmt::DropIndex { if_exists: true, name: vec!["s".into(), "ix".into()], table: None })));
    } else {
        v.push(("create-index full_text".into(), render!(d, Index::create().name("ix").table(a("t")).col(a("a")).full_text()), Some(PStmt::CreateIndex { unique: false, fulltext: true, if_not_exists: false, name: "ix".into(), table: t(), using: None, cols: vec![kp("a")], include: vec![], nulls_not_distinct: false, filter: None })));
        v.push(("drop-index".into(), render!(d, Index::drop().name("ix").table(a("t"))), Some(PStmt::DropIndex { if_exists: false, name: vec!["ix".into()], table: Some(t()) })));
    }
    // foreign keys: all 36 action pairs
    let acts = [None, Some(ForeignKeyAction::Restrict), Some(ForeignKeyAction::Cascade), Some(ForeignKeyAction::SetNull), Some(ForeignKeyAction::NoAction), Some(ForeignKeyAction::SetDefault)];
    for od in acts {
        for ou in acts {
            let sql = render!(d, {
                let mut f = ForeignKey::create();
                f.name("fk").from(a("t"), (a("a"), a("b"))).to(a("p"), (a("x"), a("y")));
                if let Some(x) = od {
                    f.on_delete(x);
                }
                if let Some(x) = ou {
                    f.on_update(x);
                }
                f
            });
            v.push((format!("create-foreign-key {:?}/{:?}", od, ou), sql, Some(PStmt::AlterTable { name: t(), actions: vec![PAlter::AddForeignKey(PFk { name: Some("fk".into()), cols: vec!["a".into(), "b".into()], ref_table: vec!["p".into()], ref_cols: vec!["x".into(), "y".into()], on_delete: od.map(act), on_update: ou.map(act) })] })));
        }
    }
    v.push(("create-foreign-key unnamed".into(), render!(d, ForeignKey::create().from(a("t"), a("a")).to(a("p"), a("x")).on_delete(ForeignKeyAction::Cascade)), Some(PStmt::AlterTable { name: t(), actions: vec![PAlter::AddForeignKey(PFk { name: None, cols: vec!["a".into()], ref_table: vec!["p".into()], ref_cols: vec!["x".into()], on_delete: Some("CASCADE".into()), on_update: None })] })));
    v.push((
        "create-table two unnamed foreign keys".into(),
        render!(d, Table::create().table(a("t")).col(ColumnDef::new(a("a")).integer()).col(ColumnDef::new(a("b")).integer()).foreign_key(ForeignKey::create().from(a("t"), a("a")).to(a("p"), a("x"))).foreign_key(ForeignKey::create().from(a("t"), a("b")).to(a("q"), a("y")).on_delete(ForeignKeyAction::Cascade))),
        Some(PStmt::CreateTable(PCreateTable {
            temporary: false,
            if_not_exists: false,
            name: t(),
            cols: vec![
                PCol { name: "a".into(), ty: Some(PType { name: if pg { "INTEGER".into() } else { "INT".into() }, ..Default::default() }), specs: vec![] },
                PCol { name: "b".into(), ty: Some(PType { name: if pg { "INTEGER".into() } else { "INT".into() }, ..Default::default() }), specs: vec![] },
            ],
            elems: vec![
                PElem::ForeignKey(PFk { name: None, cols: vec!["a".into()], ref_table: vec!["p".into()], ref_cols: vec!["x".into()], on_delete: None, on_update: None }),
                PElem::ForeignKey(PFk { name: None, cols: vec!["b".into()], ref_table: vec!["q".into()], ref_cols: vec!["y".into()], on_delete: Some("CASCADE".into()), on_update: None }),
            ],
            options: vec![],
        })),
    ));
    v.push((
        "create-table index builder reused after primary_key".into(),
        render!(d, {
            let mut key = Index::create();
            let mut s = Table::create();
            s.table(a("t")).col(ColumnDef::new(a("a")).integer().not_null()).col(ColumnDef::new(a("b")).integer());
            s.primary_key(key.col(a("a")));
            s.index(key.name("uq").col(a("b")).unique());
            s
        }),
        Some(PStmt::CreateTable(PCreateTable {
            temporary: false,
            if_not_exists: false,
            name: t(),
            cols: vec![
                PCol { name: "a".into(), ty: Some(PType { name: if pg { "INTEGER".into() } else { "INT".into() }, ..Default::default() }), specs: vec![PSpec::NotNull] },
                PCol { name: "b".into(), ty: Some(PType { name: if pg { "INTEGER".into() } else { "INT".into() }, ..Default::default() }), specs: vec![] },
            ],
            elems: vec![PElem::PrimaryKey { name: None, cols: vec![kp("a")] }, PElem::Unique { name: Some("uq".into()), cols: vec![kp("b")], nulls_not_distinct: false, include: vec![] }],
            options: vec![],
        })),
    ));
    v.push(("drop-foreign-key".into(), render!(d, ForeignKey::drop().name("fk").table(a("t"))), Some(PStmt::AlterTable { name: t(), actions: vec![if pg { PAlter::DropConstraint("fk".into()) } else { PAlter::DropForeignKey("fk".into()) }] })));
    // rename / drop / truncate
    v.push(("rename-table".into(), render!(d, Table::rename().table(a("t"), a("u"))), Some(PStmt::RenameTable { from: t(), to: vec!["u".into()] })));
    for mask in 0u32..8 {
        let (ie, two, opt) = (mask & 1 != 0, mask & 2 != 0, mask & 4 != 0);
        let sql = render!(d, {
            let mut s = Table::drop();
            s.table(a("t"));
            if two {
                s.table(a("u"));
            }
            if ie {
                s.if_exists();
            }
            if opt {
                s.cascade();
            }
            s
        });
        let mut names = vec![t()];
        if two {
            names.push(vec!["u".into()]);
        }
        v.push((format!("drop-table mask={mask}"), sql, Some(PStmt::DropTable { if_exists: ie, names, opt: if opt { Some("CASCADE".into()) } else { None } })));
    }
    v.push(("drop-table restrict".into(), render!(d, Table::drop().table(a("t")).restrict()), Some(PStmt::DropTable { if_exists: false, names: vec![t()], opt: Some("RESTRICT".into()) })));
    v.push(("truncate-table".into(), render!(d, Table::truncate().table(a("t"))), Some(PStmt::TruncateTable(t()))));
    if pg {
        let e = || vec!["mood".to_string()];
        v.push(("create-type".into(), catch(|| Type::create().as_enum(a("mood")).values([a("sad"), a("o'k")]).to_string(PostgresQueryBuilder)), Some(PStmt::CreateType { name: e(), labels: vec!["sad".into(), "o'k".into()] })));
        v.push(("create-type schema".into(), catch(|| Type::create().as_enum((a("s"), a("mood"))).values([a("sad")]).to_string(PostgresQueryBuilder)), Some(PStmt::CreateType { name: vec!["s".into(), "mood".into()], labels: vec!["sad".into()] })));
        for mask in 0u32..8 {
            let (ie, two, casc) = (mask & 1 != 0, mask & 2 != 0, mask & 4 != 0);
            let sql = catch(|| {
                let mut s = Type::drop();
                s.name(a("mood"));
                if two {
                    s.names([a("m2").into_type_ref()]);
                }
                if ie {
                    s.if_exists();
                }
                if casc {
                    s.cascade();
                }
                s.to_string(PostgresQueryBuilder)
            });
            let mut names = vec![e()];
            if two {
                names.push(vec!["m2".to_string()]);
            }
            v.push((format!("drop-type mask={mask}"), sql, Some(PStmt::DropType { if_exists: ie, names, opt: if casc { Some("CASCADE".into()) } else { None } })));
        }
        v.push(("drop-type restrict".into(), catch(|| Type::drop().name(a("mood")).restrict().to_string(PostgresQueryBuilder)), Some(PStmt::DropType { if_exists: false, names: vec![e()], opt: Some("RESTRICT".into()) })));
        v.push(("alter-type add value".into(), catch(|| Type::alter().name(a("mood")).add_value(a("new")).to_string(PostgresQueryBuilder)), Some(PStmt::AlterTypeAddValue { name: e(), if_not_exists: false, value: "new".into(), before: None, after: None })));
        v.push(("alter-type add value if not exists before".into(), catch(|| Type::alter().name(a("mood")).add_value(a("new")).if_not_exists().before(a("sad")).to_string(PostgresQueryBuilder)), Some(PStmt::AlterTypeAddValue { name: e(), if_not_exists: true, value: "new".into(), before: Some("sad".into()), after: None })));
        v.push(("alter-type add value after".into(), catch(|| Type::alter().name(a("mood")).add_value(a("new")).after(a("sad")).to_string(PostgresQueryBuilder)), Some(PStmt::AlterTypeAddValue { name: e(), if_not_exists: false, value: "new".into(), before: None, after: Some("sad".into()) })));
        v.push(("alter-type rename to".into(), catch(|| Type::alter().name(a("mood")).rename_to(a("feeling")).to_string(PostgresQueryBuilder)), Some(PStmt::AlterTypeRename { name: e(), to: "feeling".into() })));
        v.push(("alter-type rename value".into(), catch(|| Type::alter().name(a("mood")).rename_value(a("sad"), a("blue")).to_string(PostgresQueryBuilder)), Some(PStmt::AlterTypeRenameValue { name: e(), from: "sad".into(), to: "blue".into() })));
        for mask in 0u32..16 {
            let (ine, schema, version, cascade) = (mask & 1 != 0, mask & 2 != 0, mask & 4 != 0, mask & 8 != 0);
            let sql = catch(|| {
                let mut s = Extension::create();
                s.name("ltree");
                if ine {
                    s.if_not_exists();
                }
                if schema {
                    s.schema("public");
                }
                if version {
                    s.version("v1");
                }
                if cascade {
                    s.cascade();
                }
                s.to_string(PostgresQueryBuilder)
            });
            v.push((format!("create-extension mask={mask}"), sql, Some(PStmt::CreateExtension { if_not_exists: ine, name: "ltree".into(), schema: if schema { Some("public".into()) } else { None }, version: if version { Some("v1".into()) } else { None }, cascade })));
        }
        for mask in 0u32..4 {
            let (ie, casc) = (mask & 1 != 0, mask & 2 != 0);
            let sql = catch(|| {
                let mut s = Extension::drop();
                s.name("ltree");
                if ie {
                    s.if_exists();
                }
                if casc {
                    s.cascade();
                }
                s.to_string(PostgresQueryBuilder)
            });
            v.push((format!("drop-extension mask={mask}"), sql, Some(PStmt::DropExtension { if_exists: ie, name: "ltree".into(), cascade: casc, restrict: false })));
        }
        v.push(("drop-extension restrict".into(), catch(|| Extension::drop().name("ltree").restrict().to_string(PostgresQueryBuilder)), Some(PStmt::DropExtension { if_exists: false, name: "ltree".into(), cascade: false, restrict: true })));
    }
    v
}

// ---------------------------------------------------------------------------------------------
// (5) builder-method variants: the families above declare types through `ColumnDef::new_with_type` and keys through
//     one spelling; every convenience method must build the same declaration

fn api_variants() -> Vec<(&'static str, Box<dyn Fn() -> TableCreateStatement>, Box<dyn Fn() -> TableCreateStatement>)> {
    fn tbl(c: ColumnDef) -> TableCreateStatement {
        Table::create().table(a("t")).col(c).to_owned()
    }
    let mut v: Vec<(&'static str, Box<dyn Fn() -> TableCreateStatement>, Box<dyn Fn() -> TableCreateStatement>)> = vec![];
    macro_rules! ty {
        ($name:expr, $via:expr, $ct:expr) => {
            v.push(($name, Box::new(|| { let mut c = ColumnDef::new(a("c")); let f: fn(&mut ColumnDef) = $via; f(&mut c); tbl(c) }), Box::new(|| tbl(ColumnDef::new_with_type(a("c"), $ct)))));
        };
    }
    ty!("char", |c| { c.char(); }, ColumnType::Char(None));
    ty!("char_len", |c| { c.char_len(7); }, ColumnType::Char(Some(7)));
    ty!("string", |c| { c.string(); }, ColumnType::String(StringLen::None));
    ty!("string_len", |c| { c.string_len(31); }, ColumnType::String(StringLen::N(31)));
    ty!("text", |c| { c.text(); }, ColumnType::Text);
    ty!("tiny_integer", |c| { c.tiny_integer(); }, ColumnType::TinyInteger);
    ty!("small_integer", |c| { c.small_integer(); }, ColumnType::SmallInteger);
    ty!("integer", |c| { c.integer(); }, ColumnType::Integer);
    ty!("big_integer", |c| { c.big_integer(); }, ColumnType::BigInteger);
    ty!("tiny_unsigned", |c| { c.tiny_unsigned(); }, ColumnType::TinyUnsigned);
    ty!("small_unsigned", |c| { c.small_unsigned(); }, ColumnType::SmallUnsigned);
    ty!("unsigned", |c| { c.unsigned(); }, ColumnType::Unsigned);
    ty!("big_unsigned", |c| { c.big_unsigned(); }, ColumnType::BigUnsigned);
    ty!("float", |c| { c.float(); }, ColumnType::Float);
    ty!("double", |c| { c.double(); }, ColumnType::Double);
    ty!("decimal", |c| { c.decimal(); }, ColumnType::Decimal(None));
    ty!("decimal_len", |c| { c.decimal_len(12, 3); }, ColumnType::Decimal(Some((12, 3))));
    ty!("date_time", |c| { c.date_time(); }, ColumnType::DateTime);
    ty!("timestamp", |c| { c.timestamp(); }, ColumnType::Timestamp);
    ty!("timestamp_with_time_zone", |c| { c.timestamp_with_time_zone(); }, ColumnType::TimestampWithTimeZone);
    ty!("time", |c| { c.time(); }, ColumnType::Time);
    ty!("date", |c| { c.date(); }, ColumnType::Date);
    ty!("year", |c| { c.year(); }, ColumnType::Year);
    ty!("interval", |c| { c.interval(Some(PgInterval::DayToHour), Some(2)); }, ColumnType::Interval(Some(PgInterval::DayToHour), Some(2)));
    ty!("binary", |c| { c.binary(); }, ColumnType::Binary(1));
    ty!("binary_len", |c| { c.binary_len(9); }, ColumnType::Binary(9));
    ty!("var_binary", |c| { c.var_binary(33); }, ColumnType::VarBinary(StringLen::N(33)));
    ty!("bit", |c| { c.bit(Some(5)); }, ColumnType::Bit(Some(5)));
    ty!("varbit", |c| { c.varbit(6); }, ColumnType::VarBit(6));
    ty!("blob", |c| { c.blob(); }, ColumnType::Blob);
    ty!("boolean", |c| { c.boolean(); }, ColumnType::Boolean);
    ty!("money", |c| { c.money(); }, ColumnType::Money(None));
    ty!("money_len", |c| { c.money_len(11, 2); }, ColumnType::Money(Some((11, 2))));
    ty!("json", |c| { c.json(); }, ColumnType::Json);
    ty!("json_binary", |c| { c.json_binary(); }, ColumnType::JsonBinary);
    ty!("uuid", |c| { c.uuid(); }, ColumnType::Uuid);
    ty!("custom", |c| { c.custom(a("citext")); }, ColumnType::Custom(a("citext").into_iden()));
    ty!("enumeration", |c| { c.enumeration(a("mood"), [a("sad"), a("ok")]); }, ColumnType::Enum { name: a("mood").into_iden(), variants: vec![a("sad").into_iden(), a("ok").into_iden()] });
    ty!("array", |c| { c.array(ColumnType::Integer); }, ColumnType::Array(RcOrArc::new(ColumnType::Integer)));
    ty!("vector", |c| { c.vector(Some(3)); }, ColumnType::Vector(Some(3)));
    ty!("cidr", |c| { c.cidr(); }, ColumnType::Cidr);
    ty!("inet", |c| { c.inet(); }, ColumnType::Inet);
    ty!("mac_address", |c| { c.mac_address(); }, ColumnType::MacAddr);
    ty!("ltree", |c| { c.ltree(); }, ColumnType::LTree);
    // a second type method replaces the first
    ty!("type-set-twice", |c| { c.string().big_integer(); }, ColumnType::BigInteger);
    // keys and foreign keys
    let base = || Table::create().table(a("t")).col(ColumnDef::new(a("id")).integer().not_null()).col(ColumnDef::new(a("a")).integer()).to_owned();
    v.push(("TableCreateStatement::primary_key", Box::new(move || base().primary_key(Index::create().col(a("id")).col(a("a"))).to_owned()), Box::new(move || base().index(Index::create().primary().col(a("id")).col(a("a"))).to_owned())));
    v.push(("ForeignKeyCreateStatement::from/to", Box::new(move || base().foreign_key(ForeignKey::create().name("fk").from(a("t"), a("a")).to(a("p"), a("id"))).to_owned()), Box::new(move || base().foreign_key(ForeignKey::create().name("fk").from_tbl(a("t")).from_col(a("a")).to_tbl(a("p")).to_col(a("id"))).to_owned())));
    v.push(("ForeignKeyCreateStatement::from/to-2-columns", Box::new(move || base().foreign_key(ForeignKey::create().name("fk").from(a("t"), (a("a"), a("id"))).to(a("p"), (a("x"), a("y")))).to_owned()), Box::new(move || base().foreign_key(ForeignKey::create().name("fk").from_tbl(a("t")).from_col(a("a")).from_col(a("id")).to_tbl(a("p")).to_col(a("x")).to_col(a("y"))).to_owned())));
    v
}

fn run_api_variants(rep: &Arc<Report>) -> u64 {
    let mut n = 0;
    // a composite foreign key spelled call by call, in every order of from_tbl / from_col x 2 / to_tbl / to_col x 2, as a
    // table element, as an ALTER TABLE action and as a statement of its own: the calls commute
    let fk = |order: &[u8]| {
        let mut f = ForeignKey::create();
        f.name("fkc");
        for c in order {
            match c {
                0 => f.from_tbl(a("t")),
                1 => f.from_col(a("a")),
                2 => f.from_col(a("b")),
                3 => f.to_tbl(a("p")),
                4 => f.to_col(a("x")),
                _ => f.to_col(a("y")),
            };
        }
        f.on_delete(ForeignKeyAction::Cascade);
        f
    };
    let tfk = |order: &[u8]| {
        let mut f = TableForeignKey::new();
        f.name("fkc");
        for c in order {
            match c {
                0 => f.from_tbl(a("t")),
                1 => f.from_col(a("a")),
                2 => f.from_col(a("b")),
                3 => f.to_tbl(a("p")),
                4 => f.to_col(a("x")),
                _ => f.to_col(a("y")),
            };
        }
        f
    };
    let canon_order: Vec<u8> = vec![0, 1, 2, 3, 4, 5];
    for d in [Dialect::Mysql, Dialect::Postgres, Dialect::Sqlite] {
        let render3 = |order: &[u8]| -> Vec<String> {
            let r = catch(|| {
                let mut f1 = fk(order);
                let t = Table::create().table(a("t")).col(ColumnDef::new(a("a")).integer()).col(ColumnDef::new(a("b")).integer()).foreign_key(&mut f1).to_owned();
                let f2 = fk(order);
                let al = Table::alter().table(a("t")).add_foreign_key(&tfk(order)).to_owned();
                match d {
                    Dialect::Mysql => vec![t.to_string(MysqlQueryBuilder), f2.to_string(MysqlQueryBuilder), al.to_string(MysqlQueryBuilder)],
                    Dialect::Postgres => vec![t.to_string(PostgresQueryBuilder), f2.to_string(PostgresQueryBuilder), al.to_string(PostgresQueryBuilder)],
                    Dialect::Sqlite => vec![t.to_string(SqliteQueryBuilder)],
                }
            });
            r.unwrap_or_else(|p| vec![format!("PANIC {p}")])
        };
        let want = render3(&canon_order);
        for o in crate::props::c13::fk_call_orders() {
            n += 1;
            let got = render3(&o);
            if got != want {
                rep.raw_failures.inc();
                rep.violation(Violation { key: format!("api-variant|{}|fk-call-order {:?}", d.name(), o), what: format!("{} foreign key built by the calls {:?} (0 from_tbl, 1 from_col a, 2 from_col b, 3 to_tbl, 4 to_col x, 5 to_col y) renders {:?}, in canonical order {:?}", d.name(), o, got, want), case: json!({"kind": "api-variant", "dialect": d.name(), "name": "fk-call-order"}) });
            }
        }
    }
    for (name, via, canon) in api_variants() {
        for d in [Dialect::Mysql, Dialect::Postgres, Dialect::Sqlite] {
            n += 1;
            let r = |f: &dyn Fn() -> TableCreateStatement| match catch(|| { let s = f(); match d { Dialect::Mysql => s.to_string(MysqlQueryBuilder), Dialect::Postgres => s.to_string(PostgresQueryBuilder), Dialect::Sqlite => s.to_string(SqliteQueryBuilder) } }) {
                Ok(s) => s,
                Err(_) => "PANIC".to_string(),
            };
            let (x, y) = (r(&*via), r(&*canon));
            if x != y {
                rep.raw_failures.inc();
                rep.violation(Violation { key: format!("api-variant|{}|{name}", d.name()), what: format!("{} `{name}` renders {x:?} but the canonical spelling of the same declaration renders {y:?}", d.name()), case: json!({"kind": "api-variant", "dialect": d.name(), "name": name}) });
            }
        }
    }
    n
}

pub fn run(rep: &Arc<Report>) {
    let evals = Counter::new();
    let ood = Counter::new();
    let record = |site: &str, d: Dialect, sig: &str, key: String, what: String, case: serde_json::Value| {
        rep.raw_failures.inc();
        rep.violation(Violation { key: format!("{site}|{}|{sig}|{key}", d.name()), what: format!("{} {}", d.name(), what), case });
    };
    let k = if rep.thorough() { 4 } else { 3 };
    let perms = perms_of_subsets(ALL_SPECS.len(), k);
    let types = all_types();
    let mut cases: Vec<(Dialect, T, Vec<CS>)> = vec![];
    for d in [Dialect::Mysql, Dialect::Postgres] {
        for t in &types {
            for p in &perms {
                cases.push((d, t.clone(), p.iter().map(|i| ALL_SPECS[*i]).collect()));
            }
        }
    }
    par_items(&cases, |_w, (d, t, specs)| {
        evals.inc();
        match check_column_case(*d, t, specs) {
            Ok(true) => {}
            Ok(false) => ood.inc(),
            Err((sig, det)) => {
                // minimise the specification list
                let mut min = specs.clone();
                'outer: loop {
                    for i in 0..min.len() {
                        let mut x = min.clone();
                        x.remove(i);
                        if check_column_case(*d, t, &x).err().map(|e| e.0).as_deref() == Some(&sig) {
                            min = x;
                            continue 'outer;
                        }
                    }
                    break;
                }
                let det = check_column_case(*d, t, &min).err().map(|e| e.1).unwrap_or(det);
                // one defect of a specification shows for every type: key by type only when no spec is involved
                let key = if min.is_empty() { format!("{:?}", t) } else { min.iter().map(|s| format!("{:?}", s)).collect::<Vec<_>>().join(";") };
                record("column", *d, &sig, key, format!("column {:?} {:?}: {}", t, min, det), json!({"kind": "column", "dialect": d.name(), "type": format!("{:?}", t), "specs": min.iter().map(|s| format!("{:?}", s)).collect::<Vec<_>>()}));
            }
        }
    });
    // (2)
    let acts = [None, Some(ForeignKeyAction::Cascade), Some(ForeignKeyAction::SetNull)];
    let mut tables: Vec<(Dialect, TableS)> = vec![];
    for d in [Dialect::Mysql, Dialect::Postgres] {
        for mask in 0u32..(1 << 8) {
            for pk in 0..3u8 {
                let base = TableS { temporary: mask & 1 != 0, if_not_exists: mask & 2 != 0, pk, unique: mask & 4 != 0, plain_index: mask & 8 != 0, fulltext: mask & 16 != 0, fk: None, fk_named: true, check: mask & 32 != 0, options: 0, comment: mask & 64 != 0 };
                if mask & 128 == 0 {
                    tables.push((d, base.clone()));
                } else {
                    for od in acts {
                        for ou in acts {
                            for named in [true, false] {
                                let mut t = base.clone();
                                t.fk = Some((od, ou));
                                t.fk_named = named;
                                tables.push((d, t));
                            }
                        }
                    }
                }
            }
        }
        for options in 1..8u8 {
            tables.push((d, TableS { temporary: false, if_not_exists: false, pk: 1, unique: false, plain_index: false, fulltext: false, fk: None, fk_named: true, check: false, options, comment: options % 2 == 0 }));
        }
    }
    par_items(&tables, |_w, (d, t)| {
        evals.inc();
        match check_table(*d, t) {
            Ok(true) => {}
            Ok(false) => ood.inc(),
            Err((sig, det)) => {
                // minimise: switch features off one at a time while the same failure persists
                let mut t = t.clone();
                let same = |x: &TableS| check_table(*d, x).err().map(|e| e.0).as_deref() == Some(sig.as_str());
                loop {
                    let mut cands: Vec<TableS> = vec![];
                    macro_rules! off {
                        ($f:ident, $on:expr, $offv:expr) => {
                            if $on(&t) {
                                let mut x = t.clone();
                                x.$f = $offv;
                                cands.push(x);
                            }
                        };
                    }
                    off!(temporary, |t: &TableS| t.temporary, false);
                    off!(if_not_exists, |t: &TableS| t.if_not_exists, false);
                    off!(pk, |t: &TableS| t.pk > 0, 0);
                    off!(unique, |t: &TableS| t.unique, false);
                    off!(plain_index, |t: &TableS| t.plain_index, false);
                    off!(fulltext, |t: &TableS| t.fulltext, false);
                    off!(fk, |t: &TableS| t.fk.is_some(), None);
                    off!(check, |t: &TableS| t.check, false);
                    off!(options, |t: &TableS| t.options != 0, 0);
                    off!(comment, |t: &TableS| t.comment, false);
                    match cands.into_iter().find(|x| same(x)) {
                        Some(x) => t = x,
                        None => break,
                    }
                }
                let det = check_table(*d, &t).err().map(|e| e.1).unwrap_or(det);
                let t = &t;
                let mut feats = vec![];
                if t.temporary { feats.push("temporary"); }
                if t.if_not_exists { feats.push("if_not_exists"); }
                if t.pk > 0 { feats.push("primary_key"); }
                if t.unique { feats.push("unique"); }
                if t.plain_index { feats.push("index"); }
                if t.fulltext { feats.push("fulltext"); }
                if t.fk.is_some() { feats.push("foreign_key"); }
                if t.check { feats.push("check"); }
                if t.options != 0 { feats.push("options"); }
                if t.comment { feats.push("comment"); }
                record("table", *d, &sig, feats.join(";"), format!("table {:?}: {}", t, det), json!({"kind": "table", "dialect": d.name(), "spec": format!("{:?}", t)}));
            }
        }
    });
    // (3) ALTER sequences
    let mut menu = vec![AOp::AddColumn, AOp::AddColumnIfNotExists, AOp::RenameColumn, AOp::DropColumn, AOp::AddForeignKey, AOp::AddForeignKeyUnnamed, AOp::DropForeignKey];
    let mperms = perms_of_subsets(ALL_SPECS.len(), 2);
    for p in &mperms {
        let specs: Vec<CS> = p.iter().map(|i| ALL_SPECS[*i]).collect();
        if dup_or_contradiction(&specs) {
            continue;
        }
        menu.push(AOp::Modify(true, specs.clone()));
        if !specs.is_empty() {
            menu.push(AOp::Modify(false, specs));
        }
    }
    let plain: Vec<AOp> = menu.iter().filter(|o| !matches!(o, AOp::Modify(..))).cloned().collect();
    let mods: Vec<AOp> = menu.iter().filter(|o| matches!(o, AOp::Modify(..))).cloned().collect();
    let mut seqs: Vec<Vec<AOp>> = vec![];
    for m in &menu {
        seqs.push(vec![m.clone()]);
    }
    // sequences of 2 and 3: every modify op in every position among the plain ops, and all plain sequences
    for x in &plain {
        for y in &plain {
            seqs.push(vec![x.clone(), y.clone()]);
            if rep.thorough() {
                for z in &plain {
                    seqs.push(vec![x.clone(), y.clone(), z.clone()]);
                }
            }
        }
        for m in &mods {
            seqs.push(vec![x.clone(), m.clone()]);
            seqs.push(vec![m.clone(), x.clone()]);
            for y in &plain {
                seqs.push(vec![x.clone(), m.clone(), y.clone()]);
            }
        }
    }
    for m in mods.iter().take(if rep.thorough() { mods.len() } else { 40 }) {
        for m2 in mods.iter().take(12) {
            seqs.push(vec![m.clone(), m2.clone()]);
        }
    }
    let alter_cases: Vec<(Dialect, Vec<AOp>)> = [Dialect::Mysql, Dialect::Postgres].into_iter().flat_map(|d| seqs.iter().map(move |s| (d, s.clone()))).collect();
    par_items(&alter_cases, |_w, (d, ops)| {
        evals.inc();
        match check_alter(*d, ops) {
            Ok(true) => {}
            Ok(false) => ood.inc(),
            Err((sig, det)) => {
                let mut min = ops.clone();
                'outer: loop {
                    for i in 0..min.len() {
                        let mut x = min.clone();
                        x.remove(i);
                        if !x.is_empty() && check_alter(*d, &x).err().map(|e| e.0).as_deref() == Some(&sig) {
                            min = x;
                            continue 'outer;
                        }
                    }
                    // shrink the specification list of a modify op
                    for i in 0..min.len() {
                        if let AOp::Modify(wt, specs) = &min[i] {
                            for j in 0..specs.len() {
                                let mut sp = specs.clone();
                                sp.remove(j);
                                let mut x = min.clone();
                                x[i] = AOp::Modify(*wt, sp);
                                if check_alter(*d, &x).err().map(|e| e.0).as_deref() == Some(&sig) {
                                    min = x;
                                    continue 'outer;
                                }
                            }
                        }
                    }
                    break;
                }
                let det = check_alter(*d, &min).err().map(|e| e.1).unwrap_or(det);
                record("alter", *d, &sig, min.iter().map(|o| format!("{:?}", o)).collect::<Vec<_>>().join(";"), format!("ALTER TABLE {:?}: {}", min, det), json!({"kind": "alter", "dialect": d.name(), "ops": min.iter().map(|o| format!("{:?}", o)).collect::<Vec<_>>()}));
            }
        }
    });
    // (4)
    let mut other = 0u64;
    for d in [Dialect::Mysql, Dialect::Postgres] {
        for (name, sql, want) in other_cases(d) {
            evals.inc();
            other += 1;
            let sql = match sql {
                Ok(s) => s,
                Err(p) => {
                    record("statement", d, "render-panic", name.clone(), format!("{name}: rendering panicked: {p}"), json!({"kind": "statement", "dialect": d.name(), "name": name}));
                    continue;
                }
            };
            note_sql(&sql);
            match parse_ddl(d, &sql) {
                Err(e) => record("statement", d, "does-not-parse", name.split(' ').next().unwrap_or("").to_string() + " " + &name.split(' ').skip(1).collect::<Vec<_>>().join(" "), format!("{name}: {sql:?}: {e}"), json!({"kind": "statement", "dialect": d.name(), "name": name})),
                Ok(got) => {
                    if Some(&got) != want.as_ref() {
                        record("statement", d, "elements-differ", name.clone(), format!("{name}: {sql:?} parsed as {:?}, declared {:?}", got, want), json!({"kind": "statement", "dialect": d.name(), "name": name}));
                    }
                }
            }
        }
    }
    let api_n = run_api_variants(rep);
    rep.set("api_variant_comparisons", json!(api_n));
    rep.set("column_types", json!(types.len()));
    rep.set("spec_permutations", json!(perms.len()));
    rep.set("column_cases", json!(cases.len()));
    rep.set("table_cases", json!(tables.len()));
    rep.set("alter_sequences", json!(alter_cases.len()));
    rep.set("other_statements", json!(other));
    rep.set("states", json!(evals.get()));
    rep.set("transitions", json!(evals.get()));
    rep.set("evaluations", json!(evals.get()));
    rep.set("out_of_domain_documented_unsupported", json!(ood.get()));
    rep.set("traces_validated_against_impl", json!(evals.get() - ood.get()));
    let distinct = DISTINCT_SQL.lock().unwrap().as_ref().map(|s| s.len()).unwrap_or(0);
    rep.set("distinct_nontrivial", json!(distinct));
    rep.set("rule", json!("each enumerated declaration is rendered by the real backend and parsed by the dialect's reference DDL parser; distinct_nontrivial = distinct rendered statement texts (fingerprints); out-of-domain = combinations the backend documents as unsupported"));
    rep.set("exhaustive", json!(true));
    rep.sample(json!({"postgres": Table::create().table(a("t")).col(ColumnDef::new(a("c")).big_integer().auto_increment().primary_key()).to_string(PostgresQueryBuilder), "mysql": Table::create().table(a("t")).col(ColumnDef::new(a("c")).small_unsigned().not_null().default(7)).to_string(MysqlQueryBuilder)}));
    rep.assume("MySQL 8.0 and PostgreSQL DDL grammar and type names transcribed from the manuals' statement synopses (no engine offline); features documented as MySQL-only (table options, comments, plain / fulltext inline indexes) are out of domain on PostgreSQL");
}

pub fn replay(case: &serde_json::Value) -> Option<String> {
    let d = Dialect::from_name(case["dialect"].as_str().unwrap_or("mysql"));
    let cs = |s: &str| ALL_SPECS.iter().copied().find(|c| format!("{:?}", c) == s);
    match case["kind"].as_str().unwrap_or("") {
        "column" => {
            let t = all_types().into_iter().find(|t| format!("{:?}", t) == case["type"].as_str().unwrap_or(""))?;
            let specs: Vec<CS> = case["specs"].as_array()?.iter().filter_map(|s| s.as_str().and_then(cs)).collect();
            check_column_case(d, &t, &specs).err().map(|(sig, det)| format!("{} column {:?} {:?}: [{sig}] {det}", d.name(), t, specs))
        }
        "api-variant" => {
            let rep = Arc::new(Report::new("C14", "quick"));
            run_api_variants(&rep);
            rep.find_violation(&format!("api-variant|{}|{}", d.name(), case["name"].as_str().unwrap_or("")))
        }
        _ => {
            // tables, alter sequences and single statements: re-run the (cheap) quick sweep and look the finding up
            let rep = Arc::new(Report::new("C14", "quick"));
            run(&rep);
            rep.find_violation(&format!("{}|{}|", case["kind"].as_str().unwrap_or(""), d.name()))
        }
    }
}
