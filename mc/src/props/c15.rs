//! C15 — take / clone / clear behave as value operations on builders (DESIGN §3.15).
//!
//! (a) SelectStatement: BFS over builder-call histories (QModel menu + named window, table sample,
//!     index hints, DISTINCT ON); in EVERY reached state: take, clone independence under every
//!     enabled op, and each clear_* / reset_* compared with the statement REBUILT FROM SCRATCH
//!     from the history without that clause's ops.
//! (b) Update / Delete / WindowStatement clear_order_by and Clone; Insert Clone.
//! (c) every other type with take(): all subsets (in order) of its builder calls.

use crate::explore::{explore, replay_ops, Fail, Model};
use crate::lex::Dialect;
use crate::qmodel::*;
use crate::report::{Report, Violation};
use crate::smodel::select_menu;
use crate::util::{catch, fp_str, Counter};
use sea_query::extension::mysql::{IndexHintScope, MySqlSelectStatementExt};
use sea_query::extension::postgres::{PostgresSelectStatementExt, SampleMethod};
use sea_query::*;
use serde_json::json;
use std::fmt::Debug;
use std::sync::Arc;

fn a(s: &str) -> Alias {
    Alias::new(s)
}

#[derive(Clone, Debug, PartialEq)]
pub enum Op15 {
    Q(SelOp),
    NamedWindow,
    TableSample,
    IndexHint,
    DistinctOn,
    ExprWindowName,
    /// a UNION member that carries an ORDER BY / LIMIT of its own (clearing the outer ORDER BY must not reach into it)
    UnionOrderedMember,
}

fn class15(op: &Op15) -> &'static str {
    match op {
        Op15::Q(o) => op_class(o),
        Op15::NamedWindow => "window",
        Op15::TableSample => "table_sample",
        Op15::IndexHint => "index_hint",
        Op15::DistinctOn => "distinct_on",
        Op15::ExprWindowName => "item-window-name",
        Op15::UnionOrderedMember => "union-ordered-member",
    }
}

fn apply15(s: &mut SelectStatement, op: &Op15) {
    match op {
        Op15::Q(o) => apply_sel(s, o, Dialect::Sqlite),
        Op15::NamedWindow => {
            s.window(a("w"), WindowStatement::partition_by(a("a")).order_by(a("id"), Order::Desc).to_owned());
        }
        Op15::TableSample => {
            s.table_sample(SampleMethod::SYSTEM, 50.0, Some(3.0));
        }
        Op15::IndexHint => {
            s.use_index(a("ix"), IndexHintScope::Join);
        }
        Op15::DistinctOn => {
            s.distinct_on([a("a")]);
        }
        Op15::ExprWindowName => {
            s.expr_window_name_as(Expr::col(a("b")), a("w"), a("wn"));
        }
        Op15::UnionOrderedMember => {
            s.union(UnionType::All, Query::select().column(a("b")).from(a("t1")).order_by(a("id"), Order::Desc).limit(3).offset(1).to_owned());
        }
    }
}

fn render3(s: &SelectStatement) -> Vec<Result<String, String>> {
    vec![catch(|| s.to_string(MysqlQueryBuilder)), catch(|| s.to_string(PostgresQueryBuilder)), catch(|| s.to_string(SqliteQueryBuilder))]
}

/// which clause a clear_* method removes
fn clears() -> Vec<(&'static str, fn(&mut SelectStatement), fn(&Op15) -> bool)> {
    vec![
        ("clear_selects", |s| { s.clear_selects(); }, |o| matches!(class15(o), "item" | "window-item" | "item-window-name")),
        ("from_clear", |s| { s.from_clear(); }, |o| matches!(class15(o), "from" | "from-subquery" | "from-values")),
        ("reset_limit", |s| { s.reset_limit(); }, |o| class15(o) == "limit"),
        ("reset_offset", |s| { s.reset_offset(); }, |o| class15(o) == "offset"),
        ("clear_order_by", |s| { s.clear_order_by(); }, |o| matches!(class15(o), "order_by" | "order_by_nulls" | "order_by_field")),
    ]
}

pub struct Sel15 {
    menu: Vec<Op15>,
    probes: &'static Counter,
}

fn rebuild(hist: &[Op15]) -> SelectStatement {
    let mut s = Query::select();
    for o in hist {
        apply15(&mut s, o);
    }
    s
}

impl Model for Sel15 {
    type Sys = SelectStatement;
    /// the history itself is the reference state
    type Ref = Vec<Op15>;
    type Op = Op15;
    fn name(&self) -> &'static str {
        "select"
    }
    fn init(&self) -> (SelectStatement, Vec<Op15>) {
        (Query::select(), vec![])
    }
    fn enabled(&self, r: &Vec<Op15>, _depth: usize) -> Vec<Op15> {
        // at most two ops of one class
        self.menu.iter().filter(|o| r.iter().filter(|x| class15(x) == class15(o)).count() < 2).cloned().collect()
    }
    fn step(&self, s: &mut SelectStatement, r: &mut Vec<Op15>, op: &Op15) -> Result<(), Fail> {
        match catch(|| {
            let mut t = s.clone();
            apply15(&mut t, op);
            t
        }) {
            Ok(t) => *s = t,
            Err(p) => return Err(Fail::new("builder-panic", format!("{:?} panicked: {p}", op))),
        }
        r.push(op.clone());
        Ok(())
    }
    fn canon(&self, s: &SelectStatement, _r: &Vec<Op15>) -> u128 {
        fp_str(&format!("{:?}", s))
    }
    fn outcome(&self, s: &SelectStatement, _r: &Vec<Op15>) -> u64 {
        fp_str(&format!("{:?}", s)) as u64
    }
    fn op_class(&self, op: &Op15) -> String {
        class15(op).to_string()
    }
    fn op_label(&self, op: &Op15) -> String {
        class15(op).to_string()
    }
    fn history_key(&self, hist: &[Op15]) -> String {
        let mut c: Vec<String> = hist.iter().map(|o| class15(o).to_string()).collect();
        c.sort();
        c.join(";")
    }
    fn check(&self, s: &SelectStatement, hist: &Vec<Op15>) -> Vec<Fail> {
        let mut fails = vec![];
        // the state reached incrementally equals the state rebuilt from scratch
        let scratch = rebuild(hist);
        if format!("{:?}", scratch) != format!("{:?}", s) {
            fails.push(Fail::new("MACHINERY-rebuild", "incremental state differs from the rebuilt state".to_string()));
            return fails;
        }
        // ---- take
        self.probes.inc();
        let before = s.clone();
        let mut src = s.clone();
        let taken = src.take();
        if taken != before || format!("{:?}", taken) != format!("{:?}", before) {
            fails.push(Fail::new("take-loses-state", format!("take() returned {:?}\n but the statement was {:?}", taken, before)));
        }
        if render3(&taken) != render3(&before) {
            fails.push(Fail::new("take-renders-differently", format!("taken renders {:?}, before {:?}", render3(&taken), render3(&before))));
        }
        if src != SelectStatement::new() || format!("{:?}", src) != format!("{:?}", SelectStatement::new()) {
            fails.push(Fail::new("take-leaves-residue", format!("after take() the builder is {:?}, a new statement is {:?}", src, SelectStatement::new())));
        }
        // ---- clone: equal, renders identically, independent under every enabled op
        let c = s.clone();
        if c != *s || render3(&c) != render3(s) {
            fails.push(Fail::new("clone-differs", "clone is not equal to its source".to_string()));
        }
        for op in self.enabled(hist, hist.len()) {
            self.probes.inc();
            let mut c2 = s.clone();
            if catch(|| apply15(&mut c2, &op)).is_err() {
                continue;
            }
            if format!("{:?}", s) != format!("{:?}", before) {
                fails.push(Fail::new("clone-shares-state", format!("applying {:?} to a clone changed the source", op)));
            }
            let keep = s.clone();
            let mut s2 = s.clone();
            let _ = catch(|| apply15(&mut s2, &op));
            if format!("{:?}", keep) != format!("{:?}", before) {
                fails.push(Fail::new("clone-shares-state", format!("applying {:?} to the source changed a clone", op)));
            }
        }
        // ---- clear_* / reset_*: exactly that clause, nothing else
        for (name, clear, is_clause) in clears() {
            self.probes.inc();
            let mut x = s.clone();
            clear(&mut x);
            let expect: Vec<Op15> = hist.iter().filter(|o| !is_clause(o)).cloned().collect();
            let want = rebuild(&expect);
            if x != want || format!("{:?}", x) != format!("{:?}", want) {
                fails.push(Fail::new(format!("{name}-not-exact"), format!("{name}() gave {:?}\n rebuilt without that clause: {:?}", x, want)));
            }
        }
        fails
    }
}

static PROBES: Counter = Counter::new();

// ---------------------------------------------------------------------------------------------
// (c) subset enumeration for the other builder types

struct TypeProbe<T> {
    name: &'static str,
    new: fn() -> T,
    take: Option<fn(&mut T) -> T>,
    render: fn(&T) -> Vec<Result<String, String>>,
    ops: Vec<(&'static str, fn(&mut T))>,
}

const QUERY_TYPES: [&str; 1] = ["WindowStatement"];

fn probe_type<T: Clone + Debug>(rep: &Report, tp: &TypeProbe<T>, max_subset: usize) -> u64 {
    let n = tp.ops.len();
    let mut cases = 0u64;
    // all ordered selections: subsets in menu order (builder state is order-insensitive across fields;
    // list-valued fields get two ops each so that their relative order is exercised)
    for mask in 0u32..(1u32 << n) {
        if (mask.count_ones() as usize) > max_subset {
            continue;
        }
        cases += 1;
        let mut s = (tp.new)();
        let mut names = vec![];
        let mut ok = true;
        for (i, (nm, op)) in tp.ops.iter().enumerate() {
            if mask & (1 << i) != 0 {
                names.push(*nm);
                if catch(|| op(&mut s)).is_err() {
                    ok = false;
                }
            }
        }
        if !ok {
            continue;
        }
        let before = s.clone();
        let report = |sig: &str, what: String| {
            rep.raw_failures.inc();
            // minimise: the fewest ops that still show the signature
            rep.violation(Violation { key: format!("{}|{}|{}", tp.name, sig, names.join(";")), what: format!("{} after [{}]: {}", tp.name, names.join(", "), what), case: json!({"type": tp.name, "ops": names, "sig": sig}) });
        };
        if let Some(take) = tp.take {
            let mut src = s.clone();
            let taken = take(&mut src);
            if format!("{:?}", taken) != format!("{:?}", before) {
                report("take-loses-state", format!("take() returned {:?}\n but the value was {:?}", taken, before));
            } else if (tp.render)(&taken) != (tp.render)(&before) {
                report("take-renders-differently", format!("{:?} vs {:?}", (tp.render)(&taken), (tp.render)(&before)));
            }
            // query statements (src/query: SelectStatement - explored as a state machine - and WindowStatement): what is
            // left behind equals a newly constructed value, also after every further call
            if QUERY_TYPES.contains(&tp.name) {
                let fresh = (tp.new)();
                if format!("{:?}", src) != format!("{:?}", fresh) {
                    report("take-leaves-state-behind", format!("after take() the builder is {:?}\n a new one is {:?}", src, fresh));
                } else {
                    for (nm, op) in &tp.ops {
                        let (mut l, mut f) = (src.clone(), (tp.new)());
                        let _ = catch(|| op(&mut l));
                        let _ = catch(|| op(&mut f));
                        if format!("{:?}", l) != format!("{:?}", f) || (tp.render)(&l) != (tp.render)(&f) {
                            report("take-leaves-state-behind", format!("after take() and {nm} the builder is {:?}\n a new one after {nm} is {:?}", l, f));
                        }
                    }
                }
            }
        }
        // clone independence under every op
        for (nm, op) in &tp.ops {
            let mut c = s.clone();
            let _ = catch(|| op(&mut c));
            if format!("{:?}", s) != format!("{:?}", before) {
                report("clone-shares-state", format!("applying {nm} to a clone changed the source"));
            }
        }
        if (tp.render)(&s.clone()) != (tp.render)(&before) {
            report("clone-renders-differently", "clone renders differently".into());
        }
    }
    cases
}

macro_rules! r3 {
    ($s:expr) => {
        vec![catch(|| $s.to_string(MysqlQueryBuilder)), catch(|| $s.to_string(PostgresQueryBuilder)), catch(|| $s.to_string(SqliteQueryBuilder))]
    };
}

fn col_id() -> ColumnDef {
    ColumnDef::new(a("id")).integer().not_null().auto_increment().primary_key().to_owned()
}
fn col_name() -> ColumnDef {
    ColumnDef::new(a("name")).string_len(20).default("x").comment("c").to_owned()
}

fn other_types(rep: &Report) -> (u64, Vec<&'static str>) {
    let mut cases = 0;
    let mut types = vec![];
    let tc = TypeProbe::<TableCreateStatement> {
        name: "TableCreateStatement",
        new: Table::create,
        take: Some(|s| s.take()),
        render: |s| r3!(s),
        ops: vec![
            ("table", |s| { s.table(a("t")); }),
            ("if_not_exists", |s| { s.if_not_exists(); }),
            ("temporary", |s| { s.temporary(); }),
            ("col-id", |s| { s.col(col_id()); }),
            ("col-name", |s| { s.col(col_name()); }),
            ("index", |s| { s.index(Index::create().unique().name("ux").col(a("name"))); }),
            ("primary_key", |s| { s.primary_key(Index::create().col(a("id"))); }),
            ("foreign_key", |s| { s.foreign_key(ForeignKey::create().name("fk").from(a("t"), a("id")).to(a("u"), a("k")).on_delete(ForeignKeyAction::Cascade)); }),
            ("engine", |s| { s.engine("InnoDB"); }),
            ("collate", |s| { s.collate("utf8mb4_unicode_ci"); }),
            ("character_set", |s| { s.character_set("utf8mb4"); }),
            ("comment", |s| { s.comment("cm"); }),
            ("check", |s| { s.check(Expr::col(a("id")).gt(0)); }),
            ("extra", |s| { s.extra("WITHOUT ROWID"); }),
        ],
    };
    cases += probe_type(rep, &tc, 14);
    types.push(tc.name);
    let ta = TypeProbe::<TableAlterStatement> {
        name: "TableAlterStatement",
        new: Table::alter,
        take: Some(|s| s.take()),
        render: |s| r3!(s),
        ops: vec![
            ("table", |s| { s.table(a("t")); }),
            ("add_column", |s| { s.add_column(col_name()); }),
            ("add_column_if_not_exists", |s| { s.add_column_if_not_exists(col_id()); }),
            ("modify_column", |s| { s.modify_column(col_name()); }),
            ("rename_column", |s| { s.rename_column(a("x"), a("y")); }),
            ("drop_column", |s| { s.drop_column(a("z")); }),
            ("add_foreign_key", |s| { s.add_foreign_key(TableForeignKey::new().name("fk").from_tbl(a("t")).from_col(a("id")).to_tbl(a("u")).to_col(a("k"))); }),
            ("drop_foreign_key", |s| { s.drop_foreign_key(a("fk")); }),
        ],
    };
    cases += probe_type(rep, &ta, 8);
    types.push(ta.name);
    let td = TypeProbe::<TableDropStatement> {
        name: "TableDropStatement",
        new: Table::drop,
        take: Some(|s| s.take()),
        render: |s| r3!(s),
        ops: vec![("table-t", |s| { s.table(a("t")); }), ("table-u", |s| { s.table(a("u")); }), ("if_exists", |s| { s.if_exists(); }), ("restrict", |s| { s.restrict(); }), ("cascade", |s| { s.cascade(); })],
    };
    cases += probe_type(rep, &td, 5);
    types.push(td.name);
    let tr = TypeProbe::<TableRenameStatement> { name: "TableRenameStatement", new: Table::rename, take: Some(|s| s.take()), render: |s| r3!(s), ops: vec![("table", |s| { s.table(a("t"), a("u")); })] };
    cases += probe_type(rep, &tr, 1);
    types.push(tr.name);
    let tt = TypeProbe::<TableTruncateStatement> { name: "TableTruncateStatement", new: Table::truncate, take: Some(|s| s.take()), render: |s| r3!(s), ops: vec![("table", |s| { s.table(a("t")); })] };
    cases += probe_type(rep, &tt, 1);
    types.push(tt.name);
    let ic = TypeProbe::<IndexCreateStatement> {
        name: "IndexCreateStatement",
        new: Index::create,
        take: Some(|s| s.take()),
        render: |s| r3!(s),
        ops: vec![
            ("name", |s| { s.name("ix"); }),
            ("table", |s| { s.table(a("t")); }),
            ("col", |s| { s.col(a("c")); }),
            ("col-desc-prefix", |s| { s.col((a("d"), 5, IndexOrder::Desc)); }),
            ("primary", |s| { s.primary(); }),
            ("unique", |s| { s.unique(); }),
            ("nulls_not_distinct", |s| { s.nulls_not_distinct(); }),
            ("full_text", |s| { s.full_text(); }),
            ("index_type", |s| { s.index_type(IndexType::Hash); }),
            ("include", |s| { s.include(a("e")); }),
            ("if_not_exists", |s| { s.if_not_exists(); }),
            ("and_where", |s| { s.and_where(Expr::col(a("c")).gt(1)); }),
        ],
    };
    cases += probe_type(rep, &ic, 12);
    types.push(ic.name);
    let fk = TypeProbe::<ForeignKeyCreateStatement> {
        name: "ForeignKeyCreateStatement",
        new: ForeignKey::create,
        take: Some(|s| s.take()),
        render: |s| r3!(s),
        ops: vec![
            ("name", |s| { s.name("fk"); }),
            ("from", |s| { s.from(a("t"), a("c")); }),
            ("to", |s| { s.to(a("u"), a("k")); }),
            ("from_col", |s| { s.from_col(a("c2")); }),
            ("to_col", |s| { s.to_col(a("k2")); }),
            ("on_delete", |s| { s.on_delete(ForeignKeyAction::SetNull); }),
            ("on_update", |s| { s.on_update(ForeignKeyAction::Restrict); }),
        ],
    };
    cases += probe_type(rep, &fk, 7);
    types.push(fk.name);
    let tfk = TypeProbe::<TableForeignKey> {
        name: "TableForeignKey",
        new: TableForeignKey::new,
        take: Some(|s| s.take()),
        render: |s| vec![Ok(format!("{:?}", s))],
        ops: vec![
            ("name", |s| { s.name("fk"); }),
            ("from_tbl", |s| { s.from_tbl(a("t")); }),
            ("to_tbl", |s| { s.to_tbl(a("u")); }),
            ("from_col", |s| { s.from_col(a("c")); }),
            ("to_col", |s| { s.to_col(a("k")); }),
            ("on_delete", |s| { s.on_delete(ForeignKeyAction::Cascade); }),
            ("on_update", |s| { s.on_update(ForeignKeyAction::NoAction); }),
        ],
    };
    cases += probe_type(rep, &tfk, 7);
    types.push(tfk.name);
    let ti = TypeProbe::<TableIndex> {
        name: "TableIndex",
        new: TableIndex::new,
        take: Some(|s| s.take()),
        render: |s| vec![Ok(format!("{:?}", s))],
        ops: vec![("name", |s| { s.name("ix"); }), ("col", |s| { s.col(a("c").into_index_column()); }), ("col2", |s| { s.col((a("d"), IndexOrder::Asc).into_index_column()); })],
    };
    cases += probe_type(rep, &ti, 3);
    types.push(ti.name);
    let cd = TypeProbe::<ColumnDef> {
        name: "ColumnDef",
        new: || ColumnDef::new(a("c")),
        take: Some(|s| s.take()),
        render: |s| r3!(Table::create().table(a("t")).col(s.clone())),
        ops: vec![
            ("integer", |s| { s.integer(); }),
            ("not_null", |s| { s.not_null(); }),
            ("null", |s| { s.null(); }),
            ("default", |s| { s.default(5); }),
            ("auto_increment", |s| { s.auto_increment(); }),
            ("unique_key", |s| { s.unique_key(); }),
            ("primary_key", |s| { s.primary_key(); }),
            ("check", |s| { s.check(Expr::col(a("c")).gt(0)); }),
            ("check-again", |s| { s.check(Expr::col(a("c")).lt(10)); }),
            ("generated", |s| { s.generated(Expr::col(a("d")).add(1), true); }),
            ("extra", |s| { s.extra("COLLATE NOCASE"); }),
            ("extra-again", |s| { s.extra("CHECK (c <> 7)"); }),
            ("comment", |s| { s.comment("cm"); }),
            ("using", |s| { s.using(Expr::cust("c::int")); }),
        ],
    };
    cases += probe_type(rep, &cd, 14);
    types.push(cd.name);
    let ws = TypeProbe::<WindowStatement> {
        name: "WindowStatement",
        new: WindowStatement::new,
        take: Some(|s| s.take()),
        render: |s| r3!(Query::select().expr_window(Expr::col(a("c")), s.clone())),
        ops: vec![
            ("partition_by", |s| { s.partition_by(a("p")); }),
            ("partition_by2", |s| { s.partition_by(a("q")); }),
            ("order_by", |s| { s.order_by(a("o"), Order::Asc); }),
            ("order_by_nulls", |s| { s.order_by_with_nulls(a("n"), Order::Desc, NullOrdering::Last); }),
            ("frame_start", |s| { s.frame_start(FrameType::Rows, Frame::UnboundedPreceding); }),
            ("frame_between", |s| { s.frame_between(FrameType::Range, Frame::Preceding(1), Frame::Following(2)); }),
        ],
    };
    cases += probe_type(rep, &ws, 6);
    types.push(ws.name);
    // Clone-only query statements, and clear_order_by on Update / Delete / Window
    let ins = TypeProbe::<InsertStatement> {
        name: "InsertStatement",
        new: Query::insert,
        take: None,
        render: |s| r3!(s),
        ops: vec![
            ("into_table", |s| { s.into_table(a("t")); }),
            ("columns", |s| { s.columns([a("c"), a("d")]); }),
            ("values", |s| { s.values_panic([1.into(), "x".into()]); }),
            ("replace", |s| { s.replace(); }),
            ("on_conflict", |s| { s.on_conflict(OnConflict::column(a("c")).update_column(a("d")).to_owned()); }),
            ("returning", |s| { s.returning_col(a("c")); }),
            ("or_default_values", |s| { s.or_default_values(); }),
            ("with_cte", |s| { s.with_cte(WithClause::new().cte(CommonTableExpression::new().query(Query::select().expr(Expr::val(1)).to_owned()).table_name(a("w")).to_owned()).to_owned()); }),
        ],
    };
    cases += probe_type(rep, &ins, 8);
    types.push(ins.name);
    (cases, types)
}

/// clear_order_by on UPDATE / DELETE / WINDOW: all histories of a small menu
fn clear_order_by_others(rep: &Report) -> u64 {
    let mut cases = 0;
    // ops as (class, apply)
    type U = UpdateStatement;
    let uops: Vec<(&str, fn(&mut U))> = vec![
        ("table", |s| { s.table(a("t")); }),
        ("value", |s| { s.value(a("c"), 1); }),
        ("from", |s| { s.from(a("u")); }),
        ("where", |s| { s.and_where(Expr::col(a("c")).gt(1)); }),
        ("order", |s| { s.order_by(a("c"), Order::Asc); }),
        ("order", |s| { s.order_by_with_nulls(a("d"), Order::Desc, NullOrdering::First); }),
        ("limit", |s| { s.limit(3); }),
        ("returning", |s| { s.returning_all(); }),
    ];
    for mask in 0u32..(1 << uops.len()) {
        cases += 1;
        let mut s = Query::update();
        let mut want = Query::update();
        for (i, (c, op)) in uops.iter().enumerate() {
            if mask & (1 << i) != 0 {
                op(&mut s);
                if *c != "order" {
                    op(&mut want);
                }
            }
        }
        s.clear_order_by();
        if s != want || format!("{:?}", s) != format!("{:?}", want) {
            rep.raw_failures.inc();
            rep.violation(Violation { key: "UpdateStatement|clear_order_by-not-exact".into(), what: format!("UpdateStatement::clear_order_by gave {:?}\n rebuilt without ORDER BY: {:?}", s, want), case: json!({"type": "UpdateStatement", "mask": mask}) });
        }
    }
    type D = DeleteStatement;
    let dops: Vec<(&str, fn(&mut D))> = vec![
        ("table", |s| { s.from_table(a("t")); }),
        ("where", |s| { s.and_where(Expr::col(a("c")).gt(1)); }),
        ("order", |s| { s.order_by(a("c"), Order::Asc); }),
        ("order", |s| { s.order_by_with_nulls(a("d"), Order::Desc, NullOrdering::First); }),
        ("limit", |s| { s.limit(3); }),
        ("returning", |s| { s.returning_all(); }),
    ];
    for mask in 0u32..(1 << dops.len()) {
        cases += 1;
        let mut s = Query::delete();
        let mut want = Query::delete();
        for (i, (c, op)) in dops.iter().enumerate() {
            if mask & (1 << i) != 0 {
                op(&mut s);
                if *c != "order" {
                    op(&mut want);
                }
            }
        }
        s.clear_order_by();
        if s != want || format!("{:?}", s) != format!("{:?}", want) {
            rep.raw_failures.inc();
            rep.violation(Violation { key: "DeleteStatement|clear_order_by-not-exact".into(), what: format!("DeleteStatement::clear_order_by gave {:?}\n rebuilt without ORDER BY: {:?}", s, want), case: json!({"type": "DeleteStatement", "mask": mask}) });
        }
    }
    type W = WindowStatement;
    let wops: Vec<(&str, fn(&mut W))> = vec![
        ("partition", |s| { s.partition_by(a("p")); }),
        ("order", |s| { s.order_by(a("c"), Order::Asc); }),
        ("order", |s| { s.order_by(a("d"), Order::Desc); }),
        ("frame", |s| { s.frame_start(FrameType::Rows, Frame::CurrentRow); }),
        ("frame", |s| { s.frame_between(FrameType::Range, Frame::UnboundedPreceding, Frame::CurrentRow); }),
        ("frame", |s| { s.frame_between(FrameType::Rows, Frame::Preceding(1), Frame::Following(1)); }),
        ("partition", |s| { s.partition_by(a("q")); }),
    ];
    for mask in 0u32..(1 << wops.len()) {
        cases += 1;
        let mut s = WindowStatement::new();
        let mut want = WindowStatement::new();
        for (i, (c, op)) in wops.iter().enumerate() {
            if mask & (1 << i) != 0 {
                op(&mut s);
                if *c != "order" {
                    op(&mut want);
                }
            }
        }
        s.clear_order_by();
        if s != want || format!("{:?}", s) != format!("{:?}", want) {
            rep.raw_failures.inc();
            rep.violation(Violation { key: "WindowStatement|clear_order_by-not-exact".into(), what: format!("WindowStatement::clear_order_by gave {:?}\n rebuilt without ORDER BY: {:?}", s, want), case: json!({"type": "WindowStatement", "mask": mask}) });
        }
    }
    cases
}

fn model(thorough: bool) -> Sel15 {
    let mut menu: Vec<Op15> = select_menu(thorough, false).into_iter().map(Op15::Q).collect();
    // one representative per op class is enough for take / clear probes in the quick tier
    if !thorough {
        let mut seen = std::collections::HashSet::new();
        let mut counts = std::collections::HashMap::new();
        menu.retain(|o| {
            let c = class15(o);
            let n = counts.entry(c).or_insert(0);
            *n += 1;
            *n <= 2 || seen.insert(c)
        });
    }
    menu.extend([Op15::NamedWindow, Op15::TableSample, Op15::IndexHint, Op15::DistinctOn, Op15::ExprWindowName, Op15::UnionOrderedMember]);
    Sel15 { menu, probes: &PROBES }
}

pub fn run(rep: &Arc<Report>) {
    let depth = if rep.thorough() { 4 } else { 3 };
    let m = model(rep.thorough());
    let st = explore(&m, depth, u64::MAX, rep);
    let (cases, types) = other_types(rep);
    let cob = clear_order_by_others(rep);
    rep.set("select_menu_size", json!(m.menu.len()));
    rep.set("select_op_classes", json!(m.menu.iter().map(class15).collect::<std::collections::BTreeSet<_>>()));
    rep.set("states", json!(st.states + cases + cob));
    rep.set("transitions", json!(st.transitions + cases + cob));
    rep.set("max_depth", json!(st.max_depth));
    rep.set("level_sizes", json!(st.level_sizes));
    rep.set("probes_on_select_states", json!(PROBES.get()));
    rep.set("other_types", json!(types));
    rep.set("other_type_subset_cases", json!(cases));
    rep.set("clear_order_by_cases_update_delete_window", json!(cob));
    rep.set("traces_validated_against_impl", json!(PROBES.get() + cases + cob));
    rep.set("evaluations", json!(PROBES.get() + cases + cob));
    rep.set("distinct_nontrivial", json!(st.states + cases + cob));
    rep.set("rule", json!("every reachable SelectStatement state (distinct Debug form) is probed with take / clone / 5 clear operations; every subset of the builder calls of each other type is probed with take / clone"));
    rep.set("exhaustive", json!(st.exhaustive));
    rep.sample(json!({"history": "from(t1); column(a); order_by(a); limit(3)", "probe": "clear_order_by == rebuilt(from(t1); column(a); limit(3))"}));
    rep.assume("NaN values are not part of the alphabets (derived PartialEq is not reflexive on them)");
}

pub fn replay(case: &serde_json::Value) -> Option<String> {
    if case["model"].as_str() == Some("select") {
        let ops: Vec<String> = case["ops"].as_array().map(|a| a.iter().filter_map(|x| x.as_str().map(String::from)).collect()).unwrap_or_default();
        return replay_ops(&model(true), &ops);
    }
    // subset probes: re-run them all (cheap) and report this type's finding
    let ty = case["type"].as_str().unwrap_or("").to_string();
    let rep = Arc::new(Report::new("C15", "quick"));
    other_types(&rep);
    clear_order_by_others(&rep);
    rep.find_violation(&format!("{ty}|"))
}
