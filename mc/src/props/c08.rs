//! C08 — MySQL / PostgreSQL statements carry every clause given, in grammar order (DESIGN §3.8).
//!
//! Every state of the SELECT / INSERT / UPDATE / DELETE state machines (QModel) and every member of
//! the exhaustively enumerated families of dialect-specific constructs is rendered for MySQL and
//! PostgreSQL in both modes (`to_string`, `build`). The text must be accepted by that dialect's
//! reference clause parser (clauses once, in grammar position, no construct of the other dialect)
//! and its normalised clause structure must equal that of an independently written, fully explicit
//! reference rendering of the specification in the dialect's own forms.

use crate::cparse::*;
use crate::dml::{dml_menu, DSpec, DSys, DmlModel, Kind, OcSpec, RetSpec};
use crate::explore::{explore, replay_ops, Fail};
use crate::lex::Dialect;
use crate::qmodel::*;
use crate::report::{Report, Violation};
use crate::smodel::{select_menu, SelModel, SelSys};
use crate::util::{catch, Counter};
use sea_query::extension::mysql::{IndexHintScope, MySqlSelectStatementExt};
use sea_query::extension::postgres::{PgBinOper, PgFunc, PostgresSelectStatementExt, SampleMethod};
use sea_query::*;
use serde_json::json;
use std::sync::Arc;

pub static CHECKED: Counter = Counter::new();
pub static OOD: Counter = Counter::new();

fn a(s: &str) -> Alias {
    Alias::new(s)
}

// ---------------------------------------------------------------------------------------------
// the reference renderer: explicit text in the dialect's own forms

pub struct RefR {
    pub d: Dialect,
    pub params: bool,
    pub n: u32,
}

impl RefR {
    pub fn new(d: Dialect, params: bool) -> Self {
        RefR { d, params, n: 0 }
    }
    pub fn q(&self, name: &str) -> String {
        match self.d {
            Dialect::Mysql => format!("`{}`", name.replace('`', "``")),
            _ => format!("\"{}\"", name.replace('"', "\"\"")),
        }
    }
    pub fn lit(&self, v: &V) -> String {
        match v {
            V::Int(i) => i.to_string(),
            V::Str(s) => match self.d {
                Dialect::Mysql => format!("'{}'", s.replace('\\', "\\\\").replace('\'', "''")),
                _ => {
                    if s.contains('\\') {
                        format!("E'{}'", s.replace('\\', "\\\\").replace('\'', "''"))
                    } else {
                        format!("'{}'", s.replace('\'', "''"))
                    }
                }
            },
        }
    }
    /// a bound value: a placeholder in `build` mode, the literal in `to_string` mode
    pub fn val(&mut self, v: &V) -> String {
        if self.params {
            self.n += 1;
            match self.d {
                Dialect::Postgres => format!("${}", self.n),
                _ => "?".to_string(),
            }
        } else {
            self.lit(v)
        }
    }

    pub fn xs(&mut self, x: &XS) -> String {
        match x {
            XS::Col(c) => self.q(c),
            XS::TCol(t, c) => format!("{}.{}", self.q(t), self.q(c)),
            XS::Val(v) => self.val(v),
            XS::Constant(v) => self.lit(v),
            XS::Bin(op, l, r) => {
                let l = self.xs(l);
                let r = self.xs(r);
                let o = match op {
                    BOp::Add => "+",
                    BOp::Sub => "-",
                    BOp::Mul => "*",
                    BOp::Eq => "=",
                    BOp::Ne => "<>",
                    BOp::Lt => "<",
                    BOp::Gt => ">",
                    BOp::And => "AND",
                    BOp::Or => "OR",
                };
                format!("({l} {o} {r})")
            }
            XS::Not(x) => format!("(NOT {})", self.xs(x)),
            XS::IsNull(x, neg) => format!("({} IS {}NULL)", self.xs(x), if *neg { "NOT " } else { "" }),
            XS::In(x, vs, neg) => {
                let x = self.xs(x);
                let vs: Vec<String> = vs.iter().map(|v| self.val(v)).collect();
                format!("({} {}IN ({}))", x, if *neg { "NOT " } else { "" }, vs.join(", "))
            }
            XS::EmptyIn(_, neg) => {
                let one = self.val(&V::Int(1));
                let two = self.val(&V::Int(if *neg { 1 } else { 2 }));
                format!("({one} = {two})")
            }
            XS::Between(x, lo, hi) => {
                let x = self.xs(x);
                let lo = self.val(lo);
                let hi = self.val(hi);
                format!("({x} BETWEEN {lo} AND {hi})")
            }
            XS::Like(x, p, e) => {
                let x = self.xs(x);
                let p = self.val(&V::Str(p.clone()));
                let e = e.map(|c| format!(" ESCAPE {}", self.lit(&V::Str(c.to_string())))).unwrap_or_default();
                format!("({x} LIKE {p}{e})")
            }
            XS::Case(c, t, e) => {
                let c = self.xs(c);
                let t = self.xs(t);
                let e = self.xs(e);
                format!("(CASE WHEN {c} THEN {t} ELSE {e} END)")
            }
            XS::Func(k, args) => {
                let name = match k {
                    FuncK::Max => "MAX",
                    FuncK::Min => "MIN",
                    FuncK::Sum => "SUM",
                    FuncK::Count => "COUNT",
                    FuncK::Abs => "ABS",
                    FuncK::Coalesce => "COALESCE",
                    FuncK::IfNull => {
                        if self.d == Dialect::Mysql {
                            "IFNULL"
                        } else {
                            "COALESCE"
                        }
                    }
                    FuncK::Lower => "LOWER",
                    FuncK::Upper => "UPPER",
                    FuncK::CharLength => "CHAR_LENGTH",
                    FuncK::Greatest => "GREATEST",
                    FuncK::Least => "LEAST",
                };
                let args: Vec<String> = args.iter().map(|x| self.xs(x)).collect();
                format!("{}({})", name, args.join(", "))
            }
            XS::CountStar => "COUNT(*)".into(),
            XS::CustAdd(x, y) => {
                let x = self.val(x);
                let y = self.val(y);
                format!("({x} + {y})")
            }
            XS::CustReorder(x, y) => {
                // text order is `y - x` on every dialect; placeholders are numbered in text order
                let y = self.val(y);
                let x = self.val(x);
                format!("({y} - {x})")
            }
            XS::CustQuoted(x) => {
                let v = self.val(x);
                match self.d {
                    // the statement given to the `?` backends carries the SQLite spelling of this template
                    Dialect::Postgres => format!("('q''$1' || {v})"),
                    _ => format!("('q''?' || {v})"),
                }
            }
            XS::Scalar(s) => format!("({})", self.sel(s)),
            XS::Exists(s) => format!("(EXISTS ({}))", self.sel(s)),
            XS::InSub(x, s) => {
                let x = self.xs(x);
                format!("({x} IN ({}))", self.sel(s))
            }
        }
    }

    pub fn cond(&mut self, c: &CondS) -> String {
        match c {
            CondS::One(x) => self.xs(x),
            CondS::Any(v) if v.is_empty() => "FALSE".into(),
            CondS::All(v) if v.is_empty() => "TRUE".into(),
            CondS::Any(v) => format!("({})", v.iter().map(|x| self.xs(x)).collect::<Vec<_>>().join(" OR ")),
            CondS::All(v) => format!("({})", v.iter().map(|x| self.xs(x)).collect::<Vec<_>>().join(" AND ")),
        }
    }
    /// conditions added one after another are a conjunction; an empty `all` group adds nothing, an empty `any`
    /// group is FALSE
    pub fn conds(&mut self, kw: &str, cs: &[CondS]) -> String {
        let parts: Vec<String> = cs.iter().filter(|c| !matches!(c, CondS::All(v) if v.is_empty())).map(|c| format!("({})", self.cond(c))).collect();
        if parts.is_empty() {
            String::new()
        } else {
            format!(" {} {}", kw, parts.join(" AND "))
        }
    }

    pub fn order(&mut self, x: &XS, k: &OrderK) -> String {
        match k {
            OrderK::Plain(desc) => format!("{} {}", self.xs(x), if *desc { "DESC" } else { "ASC" }),
            OrderK::Nulls(desc, first) => {
                let dir = if *desc { "DESC" } else { "ASC" };
                if self.d == Dialect::Mysql {
                    // no NULLS FIRST / LAST in MySQL: order by nullness first
                    let e1 = self.xs(x);
                    let e2 = self.xs(x);
                    format!("{e1} IS NULL {}, {e2} {dir}", if *first { "DESC" } else { "ASC" })
                } else {
                    format!("{} {dir} NULLS {}", self.xs(x), if *first { "FIRST" } else { "LAST" })
                }
            }
            OrderK::Field(vs) => {
                let mut s = String::from("CASE");
                for (i, v) in vs.iter().enumerate() {
                    let e = self.xs(x);
                    s.push_str(&format!(" WHEN {} = {} THEN {}", e, self.lit(v), i));
                }
                s.push_str(&format!(" ELSE {} END", vs.len()));
                s
            }
        }
    }
    pub fn orders(&mut self, orders: &[(XS, OrderK)]) -> String {
        if orders.is_empty() {
            return String::new();
        }
        let v: Vec<String> = orders.iter().map(|(x, k)| self.order(x, k)).collect();
        format!(" ORDER BY {}", v.join(", "))
    }

    pub fn sel(&mut self, s: &SelSpec) -> String {
        let mut out = String::new();
        if !s.ctes.is_empty() {
            let rec = s.ctes.iter().any(|c| c.1);
            out.push_str(if rec { "WITH RECURSIVE " } else { "WITH " });
            let v: Vec<String> = s.ctes.iter().map(|(n, _, q)| format!("{} AS ({})", self.q(n), self.sel(q))).collect();
            out.push_str(&v.join(", "));
            out.push(' ');
        }
        out.push_str("SELECT ");
        if s.distinct {
            out.push_str("DISTINCT ");
        }
        let items: Vec<String> = s
            .items
            .iter()
            .map(|it| match it {
                Item::Expr(x, None) => self.xs(x),
                Item::Expr(x, Some(al)) => format!("{} AS {}", self.xs(x), self.q(al)),
                Item::Window(x, part, ord, fr, al) => {
                    let e = self.xs(x);
                    let frame = match fr {
                        WinFrame::None => String::new(),
                        WinFrame::RowsBetweenPrecedingCurrent(n) => format!(" ROWS BETWEEN {} PRECEDING AND CURRENT ROW", self.val(&V::Int(*n as i64))),
                        WinFrame::RowsUnboundedFollowing(n) => format!(" ROWS BETWEEN UNBOUNDED PRECEDING AND {} FOLLOWING", self.val(&V::Int(*n as i64))),
                        WinFrame::RowsUnboundedCurrent => " ROWS BETWEEN UNBOUNDED PRECEDING AND CURRENT ROW".to_string(),
                    };
                    format!("{e} OVER (PARTITION BY {} ORDER BY {} ASC{frame}) AS {}", self.q(part), self.q(ord), self.q(al))
                }
            })
            .collect();
        out.push_str(&items.join(", "));
        if !s.from.is_empty() {
            out.push_str(" FROM ");
            let v: Vec<String> = s
                .from
                .iter()
                .map(|f| match f {
                    FromItem::Table(t) => self.q(t),
                    FromItem::TableAs(t, al) => format!("{} AS {}", self.q(t), self.q(al)),
                    FromItem::Sub(q, al) => format!("({}) AS {}", self.sel(q), self.q(al)),
                    FromItem::Values(rows, al) => {
                        let row = if self.d == Dialect::Mysql { "ROW" } else { "" };
                        let rows: Vec<String> = rows.iter().map(|(x, y)| format!("{row}({}, {})", self.val(x), self.val(y))).collect();
                        format!("(VALUES {}) AS {}", rows.join(", "), self.q(al))
                    }
                })
                .collect();
            out.push_str(&v.join(", "));
        }
        for (k, t, on) in &s.joins {
            let kw = match k {
                JoinK::Inner => "INNER JOIN",
                JoinK::Left => "LEFT JOIN",
                JoinK::Cross => "CROSS JOIN",
                JoinK::Right => "RIGHT JOIN",
                JoinK::FullOuter => "FULL OUTER JOIN",
                JoinK::Plain => "JOIN",
            };
            out.push_str(&format!(" {} {} ON ({})", kw, self.q(t), self.xs(on)));
        }
        out.push_str(&self.conds("WHERE", &s.wheres));
        if !s.groups.is_empty() {
            out.push_str(" GROUP BY ");
            let v: Vec<String> = s.groups.iter().map(|x| self.xs(x)).collect();
            out.push_str(&v.join(", "));
        }
        out.push_str(&self.conds("HAVING", &s.havings));
        for (k, q) in &s.unions {
            out.push_str(match k {
                UK::All => " UNION ALL ",
                UK::Distinct => " UNION ",
                UK::Intersect => " INTERSECT ",
                UK::Except => " EXCEPT ",
            });
            out.push_str(&format!("({})", self.sel(q)));
        }
        out.push_str(&self.orders(&s.orders));
        if let Some(l) = s.limit {
            out.push_str(&format!(" LIMIT {}", self.val(&V::Int(l as i64))));
        }
        if let Some(o) = s.offset {
            out.push_str(&format!(" OFFSET {}", self.val(&V::Int(o as i64))));
        }
        match s.lock {
            None => {}
            Some("update") => out.push_str(" FOR UPDATE"),
            Some("share") => out.push_str(" FOR SHARE"),
            Some("update-nowait") => out.push_str(" FOR UPDATE NOWAIT"),
            Some(_) => out.push_str(" FOR UPDATE SKIP LOCKED"),
        }
        out
    }

    fn ret(&mut self, r: &Option<RetSpec>) -> String {
        if self.d == Dialect::Mysql {
            return String::new(); // MySQL has no RETURNING
        }
        match r {
            None => String::new(),
            Some(RetSpec::All) => " RETURNING *".into(),
            Some(RetSpec::Cols(c)) => format!(" RETURNING {}", c.iter().map(|c| self.q(c)).collect::<Vec<_>>().join(", ")),
            Some(RetSpec::Exprs(x)) => format!(" RETURNING {}", x.iter().map(|x| self.xs(x)).collect::<Vec<_>>().join(", ")),
        }
    }

    /// None = the combination is outside what the dialect can express
    pub fn dml(&mut self, kind: Kind, s: &DSpec) -> Option<String> {
        let my = self.d == Dialect::Mysql;
        match kind {
            Kind::Insert => {
                if s.replace && !my {
                    return None; // REPLACE is MySQL / SQLite only
                }
                if s.replace && s.on_conflict.is_some() {
                    return None; // REPLACE has no ON DUPLICATE KEY clause
                }
                let ignore = my && matches!(s.on_conflict, Some(OcSpec::BareDoNothing) | Some(OcSpec::DoNothing(_)));
                let mut out = format!("{}{} INTO {}", if s.replace { "REPLACE" } else { "INSERT" }, if ignore { " IGNORE" } else { "" }, self.q("t1"));
                let default_form = s.default_values && s.cols.is_empty() && s.rows.is_empty() && s.select.is_none();
                if default_form {
                    out.push_str(if my { " VALUES ()" } else { " DEFAULT VALUES" });
                } else if s.rows.is_empty() && s.select.is_none() {
                    // no source at all (or_default_values only stands in when there are no columns either): not a statement
                    return None;
                } else {
                    out.push_str(&format!(" ({})", s.cols.iter().map(|c| self.q(c)).collect::<Vec<_>>().join(", ")));
                    if !s.rows.is_empty() {
                        out.push_str(" VALUES ");
                        let rows: Vec<String> = s.rows.iter().map(|r| format!("({})", r.iter().map(|x| self.xs(x)).collect::<Vec<_>>().join(", "))).collect();
                        out.push_str(&rows.join(", "));
                    } else if let Some(q) = &s.select {
                        out.push(' ');
                        out.push_str(&self.sel(q));
                    }
                }
                let excl = |me: &Self, c: &str| if my { format!("{} = VALUES({})", me.q(c), me.q(c)) } else { format!("{} = {}.{}", me.q(c), me.q("excluded"), me.q(c)) };
                match &s.on_conflict {
                    None => {}
                    Some(OcSpec::BareDoNothing) => {
                        if !my {
                            out.push_str(" ON CONFLICT DO NOTHING")
                        }
                    }
                    Some(OcSpec::DoNothing(t)) => {
                        if !my {
                            out.push_str(&format!(" ON CONFLICT ({}) DO NOTHING", self.q(t)))
                        }
                    }
                    Some(OcSpec::UpdateCols(t, cols)) => {
                        let sets = cols.iter().map(|c| excl(self, c)).collect::<Vec<_>>().join(", ");
                        if my {
                            out.push_str(&format!(" ON DUPLICATE KEY UPDATE {sets}"));
                        } else {
                            out.push_str(&format!(" ON CONFLICT ({}) DO UPDATE SET {sets}", self.q(t)));
                        }
                    }
                    Some(OcSpec::UpdateVal(t, c, x)) => {
                        let e = self.xs(x);
                        if my {
                            out.push_str(&format!(" ON DUPLICATE KEY UPDATE {} = {e}", self.q(c)));
                        } else {
                            out.push_str(&format!(" ON CONFLICT ({}) DO UPDATE SET {} = {e}", self.q(t), self.q(c)));
                        }
                    }
                    Some(OcSpec::UpdateColsWhere(t, cols, x, _)) => {
                        let sets = cols.iter().map(|c| excl(self, c)).collect::<Vec<_>>().join(", ");
                        if my {
                            out.push_str(&format!(" ON DUPLICATE KEY UPDATE {sets}"));
                        } else {
                            let e = self.xs(x);
                            out.push_str(&format!(" ON CONFLICT ({}) DO UPDATE SET {sets} WHERE {e}", self.q(t)));
                        }
                    }
                    Some(OcSpec::TargetWhere(t, cols, x, _)) => {
                        let sets = cols.iter().map(|c| excl(self, c)).collect::<Vec<_>>().join(", ");
                        if my {
                            out.push_str(&format!(" ON DUPLICATE KEY UPDATE {sets}"));
                        } else {
                            let e = self.xs(x);
                            out.push_str(&format!(" ON CONFLICT ({}) WHERE {e} DO UPDATE SET {sets}", self.q(t)));
                        }
                    }
                }
                out.push_str(&self.ret(&s.returning));
                Some(out)
            }
            Kind::Update => {
                if !my && (!s.orders.is_empty() || s.limit.is_some()) {
                    return None; // PostgreSQL's UPDATE has no ORDER BY / LIMIT
                }
                if my && !s.from.is_empty() && (!s.orders.is_empty() || s.limit.is_some()) {
                    return None; // nor has MySQL's multi-table UPDATE
                }
                if s.sets.is_empty() {
                    return None;
                }
                let mut out = format!("UPDATE {}", self.q("t1"));
                if my {
                    for t in &s.from {
                        out.push_str(&format!(", {}", self.q(t)));
                    }
                }
                // MySQL's multi-table form reads the conditions (JOIN .. ON) before SET: keep placeholders in text order
                let multi = my && !s.from.is_empty();
                let conds_first = if multi { Some(self.conds("WHERE", &s.wheres)) } else { None };
                let sets: Vec<String> = s.sets.iter().map(|(c, x)| format!("{} = {}", if multi { format!("{}.{}", self.q("t1"), self.q(c)) } else { self.q(c) }, self.xs(x))).collect();
                out.push_str(&format!(" SET {}", sets.join(", ")));
                if !my && !s.from.is_empty() {
                    out.push_str(&format!(" FROM {}", s.from.iter().map(|t| self.q(t)).collect::<Vec<_>>().join(", ")));
                }
                match conds_first {
                    Some(c) => out.push_str(&c),
                    None => out.push_str(&self.conds("WHERE", &s.wheres)),
                }
                out.push_str(&self.ret(&s.returning));
                out.push_str(&self.orders(&s.orders));
                if let Some(l) = s.limit {
                    out.push_str(&format!(" LIMIT {}", self.val(&V::Int(l as i64))));
                }
                Some(out)
            }
            Kind::Delete => {
                if !my && (!s.orders.is_empty() || s.limit.is_some()) {
                    return None;
                }
                let mut out = format!("DELETE FROM {}", self.q("t1"));
                out.push_str(&self.conds("WHERE", &s.wheres));
                out.push_str(&self.ret(&s.returning));
                out.push_str(&self.orders(&s.orders));
                if let Some(l) = s.limit {
                    out.push_str(&format!(" LIMIT {}", self.val(&V::Int(l as i64))));
                }
                Some(out)
            }
        }
    }
}

// ---------------------------------------------------------------------------------------------
// the comparison

/// placeholders of PostgreSQL text are compared by number; MySQL's `?` by position (the parse keeps text order)
pub fn compare(d: Dialect, mode: &str, real: &str, reference: &str) -> Option<Fail> {
    let want = match parse_statement(d, reference).and_then(|s| normalise(d, s)) {
        Ok(s) => s,
        Err(e) => return Some(Fail::new("MACHINERY-reference-does-not-parse", format!("{} reference {reference:?}: {e}", d.name()))),
    };
    let got = match parse_statement(d, real).and_then(|s| normalise(d, s)) {
        Ok(s) => s,
        Err(e) => {
            let f = Fail::new("not-in-dialect-grammar", format!("{} {mode}: {real:?} is not accepted by the {} grammar: {e}", d.name(), d.name()));
            // one construct the oracle can name exactly
            if d == Dialect::Mysql && real.contains(" ON DUPLICATE KEY IGNORE") {
                return Some(f.keyed("on-duplicate-key-ignore"));
            }
            return Some(f);
        }
    };
    if got != want {
        let diff = diff_clauses(&got, &want);
        return Some(Fail::new(&format!("clause-differs:{}", diff.join("+")), format!("{} {mode}: {real:?} parses to a statement whose {} differ(s) from the declaration (reference {reference:?})", d.name(), diff.join(", "))));
    }
    None
}

fn sel_unsupported(d: Dialect, spec: &SelSpec) -> bool {
    let nested = |q: &SelSpec| sel_unsupported(d, q);
    let here = match d {
        Dialect::Mysql => spec.joins.iter().any(|j| j.0 == JoinK::FullOuter) || spec.items.is_empty() || (spec.offset.is_some() && spec.limit.is_none()),
        // a CROSS JOIN takes no ON clause in PostgreSQL: asking for one is outside the dialect
        Dialect::Postgres => spec.joins.iter().any(|j| j.0 == JoinK::Cross),
        Dialect::Sqlite => true,
    };
    here || spec.unions.iter().any(|u| nested(&u.1)) || spec.from.iter().any(|f| matches!(f, FromItem::Sub(q, _) if nested(q))) || spec.ctes.iter().any(|c| nested(&c.2))
}

pub fn check_select(sys: &SelSys, spec: &SelSpec) -> Vec<Fail> {
    let mut fails = vec![];
    for d in [Dialect::Mysql, Dialect::Postgres] {
        if sel_unsupported(d, spec) {
            OOD.inc();
            continue;
        }
        for mode in ["to_string", "build"] {
            let real = catch(|| match (d, mode) {
                (Dialect::Mysql, "to_string") => sys.stmt(d).to_string(MysqlQueryBuilder),
                (Dialect::Mysql, _) => sys.stmt(d).build(MysqlQueryBuilder).0,
                (_, "to_string") => sys.stmt(d).to_string(PostgresQueryBuilder),
                _ => sys.stmt(d).build(PostgresQueryBuilder).0,
            });
            let real = match real {
                Ok(s) => s,
                Err(p) => {
                    fails.push(Fail::new("render-panic", format!("{} {mode}: rendering panicked: {p}", d.name())));
                    continue;
                }
            };
            CHECKED.inc();
            let reference = RefR::new(d, mode == "build").sel(spec);
            if let Some(f) = compare(d, mode, &real, &reference) {
                fails.push(Fail { sig: format!("{}|{}", d.name(), f.sig), ..f });
            }
        }
    }
    fails
}

pub fn check_dml(kind: Kind, sys: &DSys, spec: &DSpec) -> Vec<Fail> {
    let mut fails = vec![];
    for d in [Dialect::Mysql, Dialect::Postgres] {
        if let Some(q) = &spec.select {
            if sel_unsupported(d, q) {
                OOD.inc();
                continue;
            }
        }
        for mode in ["to_string", "build"] {
            let Some(reference) = RefR::new(d, mode == "build").dml(kind, spec) else {
                OOD.inc();
                continue;
            };
            let real = catch(|| if mode == "build" { sys.stmt(d).build_d(d).0 } else { sys.stmt(d).to_string_d(d) });
            let real = match real {
                Ok(s) => s,
                Err(p) => {
                    fails.push(Fail::new("render-panic", format!("{} {mode}: rendering panicked: {p}", d.name())));
                    continue;
                }
            };
            CHECKED.inc();
            if let Some(f) = compare(d, mode, &real, &reference) {
                fails.push(Fail { sig: format!("{}|{}", d.name(), f.sig), ..f });
            }
        }
    }
    fails
}

// ---------------------------------------------------------------------------------------------
// dialect-specific constructs: exhaustively enumerated families outside the QModel alphabet

pub struct Extra {
    pub name: String,
    /// builds the real statement text per (dialect, build-mode?)
    pub real: Box<dyn Fn(Dialect, bool) -> String + Sync + Send>,
    /// reference text; None = the dialect cannot express the request (out of domain)
    pub reference: Box<dyn Fn(Dialect, bool) -> Option<String> + Sync + Send>,
}

pub fn render_any<S: QueryStatementWriter>(s: &S, d: Dialect, build: bool) -> String {
    match (d, build) {
        (Dialect::Mysql, false) => s.to_string(MysqlQueryBuilder),
        (Dialect::Mysql, true) => s.build(MysqlQueryBuilder).0,
        (Dialect::Postgres, false) => s.to_string(PostgresQueryBuilder),
        (Dialect::Postgres, true) => s.build(PostgresQueryBuilder).0,
        (Dialect::Sqlite, false) => s.to_string(SqliteQueryBuilder),
        (Dialect::Sqlite, true) => s.build(SqliteQueryBuilder).0,
    }
}
fn render_sel(s: &SelectStatement, d: Dialect, build: bool) -> String {
    render_any(s, d, build)
}

fn qd(d: Dialect, n: &str) -> String {
    RefR::new(d, false).q(n)
}
fn ph(d: Dialect, build: bool, n: u32, lit: &str) -> String {
    if build {
        if d == Dialect::Postgres {
            format!("${n}")
        } else {
            "?".into()
        }
    } else {
        lit.to_string()
    }
}

fn base_select() -> SelectStatement {
    Query::select().column(a("a")).from(a("t1")).to_owned()
}

pub fn extras(thorough: bool) -> Vec<Extra> {
    let mut v: Vec<Extra> = vec![];
    // (a) MySQL index hints: every sequence of up to 2 (quick) / 3 (thorough) hints over kind x scope, with and without
    //     the clauses that must follow them
    let kinds = ["USE", "IGNORE", "FORCE"];
    let scopes = ["", "JOIN", "ORDER BY", "GROUP BY"];
    let mut hint_menu: Vec<(usize, usize)> = vec![];
    for k in 0..3 {
        for s in 0..4 {
            hint_menu.push((k, s));
        }
    }
    let mut seqs: Vec<Vec<(usize, usize)>> = hint_menu.iter().map(|h| vec![*h]).collect();
    for x in &hint_menu {
        for y in &hint_menu {
            seqs.push(vec![*x, *y]);
            if thorough {
                for z in &hint_menu {
                    seqs.push(vec![*x, *y, *z]);
                }
            }
        }
    }
    for seq in seqs {
        for tail in [false, true] {
            let seq2 = seq.clone();
            let seq = seq.clone();
            let name = format!("index-hints {:?} tail={tail}", seq.iter().map(|(k, s)| format!("{} {}", kinds[*k], scopes[*s])).collect::<Vec<_>>());
            v.push(Extra {
                name,
                real: Box::new(move |d, build| {
                    let mut s = base_select();
                    for (i, (k, sc)) in seq2.iter().enumerate() {
                        let scope = match sc {
                            0 => IndexHintScope::All,
                            1 => IndexHintScope::Join,
                            2 => IndexHintScope::OrderBy,
                            _ => IndexHintScope::GroupBy,
                        };
                        let ix = a(&format!("ix{i}"));
                        match k {
                            0 => s.use_index(ix, scope),
                            1 => s.ignore_index(ix, scope),
                            _ => s.force_index(ix, scope),
                        };
                    }
                    if tail {
                        s.inner_join(a("t2"), Expr::col((a("t2"), a("t1_id"))).equals((a("t1"), a("id")))).and_where(Expr::col(a("a")).gt(5)).order_by(a("a"), Order::Asc);
                    }
                    render_sel(&s, d, build)
                }),
                reference: Box::new(move |d, build| {
                    let q = |n: &str| qd(d, n);
                    let mut s = format!("SELECT {} FROM {}", q("a"), q("t1"));
                    if d == Dialect::Mysql {
                        for (i, (k, sc)) in seq.iter().enumerate() {
                            s.push_str(&format!(" {} INDEX {}({})", kinds[*k], if scopes[*sc].is_empty() { String::new() } else { format!("FOR {} ", scopes[*sc]) }, q(&format!("ix{i}"))));
                        }
                    }
                    if tail {
                        s.push_str(&format!(" INNER JOIN {} ON {}.{} = {}.{} WHERE {} > {} ORDER BY {} ASC", q("t2"), q("t2"), q("t1_id"), q("t1"), q("id"), q("a"), ph(d, build, 1, "5"), q("a")));
                    }
                    Some(s)
                }),
            });
        }
    }
    // (b) PostgreSQL DISTINCT ON x select items x following clauses; MySQL: the request is dropped
    for n_on in 1..=2usize {
        for n_items in 1..=2usize {
            for tail in [false, true] {
                v.push(Extra {
                    name: format!("distinct-on {n_on} cols, {n_items} items, tail={tail}"),
                    real: Box::new(move |d, build| {
                        let mut s = Query::select();
                        s.from(a("t1"));
                        for c in ["a", "b"].iter().take(n_items) {
                            s.column(a(c));
                        }
                        s.distinct_on(["s", "id"].iter().take(n_on).map(|c| a(c)).collect::<Vec<_>>());
                        if tail {
                            s.and_where(Expr::col(a("a")).gt(5)).order_by(a("s"), Order::Desc).limit(3);
                        }
                        render_sel(&s, d, build)
                    }),
                    reference: Box::new(move |d, build| {
                        let q = |n: &str| qd(d, n);
                        let on = if d == Dialect::Postgres { format!("DISTINCT ON ({}) ", ["s", "id"].iter().take(n_on).map(|c| q(c)).collect::<Vec<_>>().join(", ")) } else { String::new() };
                        let mut s = format!("SELECT {on}{} FROM {}", ["a", "b"].iter().take(n_items).map(|c| q(c)).collect::<Vec<_>>().join(", "), q("t1"));
                        if tail {
                            s.push_str(&format!(" WHERE {} > {} ORDER BY {} DESC LIMIT {}", q("a"), ph(d, build, 1, "5"), q("s"), ph(d, build, 2, "3")));
                        }
                        Some(s)
                    }),
                });
            }
        }
    }
    // (c) PostgreSQL TABLESAMPLE: method x repeatable x following clauses; MySQL: dropped
    for method in ["BERNOULLI", "SYSTEM"] {
        for rep in [false, true] {
            for tail in [false, true] {
                v.push(Extra {
                    name: format!("tablesample {method} repeatable={rep} tail={tail}"),
                    real: Box::new(move |d, build| {
                        let mut s = base_select();
                        s.table_sample(if method == "BERNOULLI" { SampleMethod::BERNOULLI } else { SampleMethod::SYSTEM }, 25.0, if rep { Some(3.0) } else { None });
                        if tail {
                            s.left_join(a("t2"), Expr::col((a("t2"), a("t1_id"))).equals((a("t1"), a("id")))).and_where(Expr::col(a("a")).gt(5));
                        }
                        render_sel(&s, d, build)
                    }),
                    reference: Box::new(move |d, build| {
                        let q = |n: &str| qd(d, n);
                        let mut s = format!("SELECT {} FROM {}", q("a"), q("t1"));
                        if d == Dialect::Postgres {
                            s.push_str(&format!(" TABLESAMPLE {method} (25)"));
                            if rep {
                                s.push_str(" REPEATABLE (3)");
                            }
                        }
                        if tail {
                            s.push_str(&format!(" LEFT JOIN {} ON {}.{} = {}.{} WHERE {} > {}", q("t2"), q("t2"), q("t1_id"), q("t1"), q("id"), q("a"), ph(d, build, 1, "5")));
                        }
                        Some(s)
                    }),
                });
            }
        }
    }
    // (d) named windows: WINDOW goes after HAVING and before ORDER BY / LIMIT / locking; all subsets of the surrounding clauses
    for mask in 0u32..32 {
        let (wh, grp, ord, lim, lock) = (mask & 1 != 0, mask & 2 != 0, mask & 4 != 0, mask & 8 != 0, mask & 16 != 0);
        v.push(Extra {
            name: format!("named-window where={wh} group={grp} order={ord} limit={lim} lock={lock}"),
            real: Box::new(move |d, build| {
                let mut s = Query::select();
                s.from(a("t1")).column(a("a")).expr_window_name_as(Func::sum(Expr::col(a("b"))), a("w"), a("sb"));
                s.window(a("w"), WindowStatement::partition_by(a("a")).order_by(a("id"), Order::Asc).to_owned());
                if wh {
                    s.and_where(Expr::col(a("a")).gt(5));
                }
                if grp {
                    s.group_by_col(a("a")).group_by_col(a("b")).group_by_col(a("id")).and_having(Expr::col(a("a")).lt(9));
                }
                if ord {
                    s.order_by(a("a"), Order::Asc);
                }
                if lim {
                    s.limit(3);
                }
                if lock {
                    s.lock(LockType::Update);
                }
                render_sel(&s, d, build)
            }),
            reference: Box::new(move |d, build| {
                let q = |n: &str| qd(d, n);
                let mut n = 0;
                let mut p = |lit: &str| {
                    n += 1;
                    ph(d, build, n, lit)
                };
                let mut s = format!("SELECT {}, SUM({}) OVER {} AS {} FROM {}", q("a"), q("b"), q("w"), q("sb"), q("t1"));
                if wh {
                    s.push_str(&format!(" WHERE {} > {}", q("a"), p("5")));
                }
                if grp {
                    s.push_str(&format!(" GROUP BY {}, {}, {} HAVING {} < {}", q("a"), q("b"), q("id"), q("a"), p("9")));
                }
                s.push_str(&format!(" WINDOW {} AS (PARTITION BY {} ORDER BY {} ASC)", q("w"), q("a"), q("id")));
                if ord {
                    s.push_str(&format!(" ORDER BY {} ASC", q("a")));
                }
                if lim {
                    s.push_str(&format!(" LIMIT {}", p("3")));
                }
                if lock && d != Dialect::Sqlite {
                    s.push_str(" FOR UPDATE"); // SQLite has no row locks: the request is dropped
                }
                Some(s)
            }),
        });
    }
    // (e) locking clauses: strength x OF tables x wait policy
    for (li, strength) in ["UPDATE", "NO KEY UPDATE", "SHARE", "KEY SHARE"].into_iter().enumerate() {
        for n_tables in 0..=2usize {
            for (bi, wait) in ["", "NOWAIT", "SKIP LOCKED"].into_iter().enumerate() {
                for tail in [false, true] {
                    v.push(Extra {
                        name: format!("lock FOR {strength} of {n_tables} tables {wait} tail={tail}"),
                        real: Box::new(move |d, build| {
                            let mut s = base_select();
                            if tail {
                                s.and_where(Expr::col(a("a")).gt(5)).order_by(a("a"), Order::Asc).limit(2);
                            }
                            let lt = [LockType::Update, LockType::NoKeyUpdate, LockType::Share, LockType::KeyShare][li];
                            let tables: Vec<TableRef> = ["t1", "t2"].iter().take(n_tables).map(|t| a(t).into_table_ref()).collect();
                            match (n_tables, bi) {
                                (0, 0) => s.lock(lt),
                                (0, _) => s.lock_with_behavior(lt, if bi == 1 { LockBehavior::Nowait } else { LockBehavior::SkipLocked }),
                                (_, 0) => s.lock_with_tables(lt, tables),
                                _ => s.lock_with_tables_behavior(lt, tables, if bi == 1 { LockBehavior::Nowait } else { LockBehavior::SkipLocked }),
                            };
                            render_sel(&s, d, build)
                        }),
                        reference: Box::new(move |d, build| {
                            if d == Dialect::Mysql && (strength == "NO KEY UPDATE" || strength == "KEY SHARE") {
                                return None; // PostgreSQL-only lock strengths
                            }
                            let q = |n: &str| qd(d, n);
                            let mut s = format!("SELECT {} FROM {}", q("a"), q("t1"));
                            if tail {
                                s.push_str(&format!(" WHERE {} > {} ORDER BY {} ASC LIMIT {}", q("a"), ph(d, build, 1, "5"), q("a"), ph(d, build, 2, "2")));
                            }
                            if d == Dialect::Sqlite {
                                return Some(s); // no row locks in SQLite
                            }
                            s.push_str(&format!(" FOR {strength}"));
                            if n_tables > 0 {
                                s.push_str(&format!(" OF {}", ["t1", "t2"].iter().take(n_tables).map(|t| q(t)).collect::<Vec<_>>().join(", ")));
                            }
                            if !wait.is_empty() {
                                s.push_str(&format!(" {wait}"));
                            }
                            Some(s)
                        }),
                    });
                }
            }
        }
    }
    // (f) common table expressions: 1..2 CTEs x column lists x materialisation x SEARCH / CYCLE, through WithClause::query
    for n_ctes in 1..=2usize {
        for cols in [false, true] {
            for mat in [None, Some(true), Some(false)] {
                for rec_opts in 0..4u32 {
                    let (search, cycle) = (rec_opts & 1 != 0, rec_opts & 2 != 0);
                    v.push(Extra {
                        name: format!("with {n_ctes} ctes cols={cols} materialized={mat:?} search={search} cycle={cycle}"),
                        real: Box::new(move |d, build| {
                            let mut w = WithClause::new();
                            for i in 0..n_ctes {
                                let mut c = CommonTableExpression::new();
                                c.query(Query::select().column(a("id")).from(a("t1")).and_where(Expr::col(a("id")).gt(i as i32 + 10)).to_owned()).table_name(a(&format!("c{i}")));
                                if cols {
                                    c.column(a("k"));
                                }
                                if let Some(m) = mat {
                                    c.materialized(m);
                                }
                                w.cte(c);
                            }
                            if search || cycle {
                                w.recursive(true);
                            }
                            if search {
                                w.search(Search::new_from_order_and_expr(SearchOrder::BREADTH, SelectExpr { expr: Expr::col(a("k")).into(), alias: Some(a("ord").into_iden()), window: None }));
                            }
                            if cycle {
                                w.cycle(Cycle::new_from_expr_set_using(Expr::col(a("k")), a("looped"), a("path")));
                            }
                            let q = w.query(Query::select().column(a("k")).from(a("c0")).and_where(Expr::col(a("k")).lt(99)).to_owned());
                            render_any(&q, d, build)
                        }),
                        reference: Box::new(move |d, build| {
                            if (search || cycle) && n_ctes != 1 {
                                return None; // sea-query documents: a recursive WITH clause takes exactly one CTE
                            }
                            let q = |n: &str| qd(d, n);
                            let pg = d == Dialect::Postgres;
                            let mat_ok = d != Dialect::Mysql; // SQLite (3.35) has the materialisation hints too
                            let mut n = 0;
                            let mut s = String::from(if search || cycle { "WITH RECURSIVE " } else { "WITH " });
                            for i in 0..n_ctes {
                                if i > 0 {
                                    s.push_str(", ");
                                }
                                n += 1;
                                s.push_str(&format!(
                                    "{}{} AS {}(SELECT {} FROM {} WHERE {} > {})",
                                    q(&format!("c{i}")),
                                    if cols { format!(" ({})", q("k")) } else { String::new() },
                                    match (mat_ok, mat) {
                                        (true, Some(true)) => "MATERIALIZED ",
                                        (true, Some(false)) => "NOT MATERIALIZED ",
                                        _ => "",
                                    },
                                    q("id"),
                                    q("t1"),
                                    q("id"),
                                    ph(d, build, n, &format!("{}", i + 10))
                                ));
                            }
                            if pg && search {
                                s.push_str(&format!(" SEARCH BREADTH FIRST BY {} SET {}", q("k"), q("ord")));
                            }
                            if pg && cycle {
                                s.push_str(&format!(" CYCLE {} SET {} USING {}", q("k"), q("looped"), q("path")));
                            }
                            n += 1;
                            s.push_str(&format!(" SELECT {} FROM {} WHERE {} < {}", q("k"), q("c0"), q("k"), ph(d, build, n, "99")));
                            Some(s)
                        }),
                    });
                }
            }
        }
    }
    // (n) a CTE derived from a SELECT (`CommonTableExpression::from_select`, `try_set_cols_from_select`): the column list
    //     is taken from the select list when EVERY item has a name (a column, a qualified column, an alias), and is absent
    //     otherwise; the table name is `cte_<first table>`
    for shape in 0..6usize {
        for api in ["from_select", "try_set_cols_from_select"] {
            v.push(Extra {
                name: format!("cte-from-select items={shape} {api}"),
                real: Box::new(move |d, build| {
                    let mut inner = Query::select();
                    match shape {
                        0 => inner.column(a("id")).column(a("b")),
                        1 => inner.column(a("id")).column((a("t1"), a("b"))),
                        2 => inner.column(a("id")).expr_as(Expr::col(a("b")).mul(2), a("v2")),
                        3 => inner.column(a("id")).expr(Expr::col(a("b")).mul(2)),
                        4 => inner.expr(Expr::col(a("b")).mul(2)),
                        _ => inner.column(Asterisk),
                    };
                    inner.from(a("t1"));
                    let cte = if api == "from_select" {
                        CommonTableExpression::from_select(inner)
                    } else {
                        let mut c = CommonTableExpression::new();
                        c.try_set_cols_from_select(&inner);
                        c.query(inner).table_name(a("cte_t1"));
                        c
                    };
                    let q = WithClause::new().cte(cte).to_owned().query(Query::select().column(Asterisk).from(a("cte_t1")).to_owned());
                    render_any(&q, d, build)
                }),
                reference: Box::new(move |d, build| {
                    let q = |n: &str| qd(d, n);
                    let two = ph(d, build, 1, "2");
                    let (cols, items): (Option<Vec<&str>>, String) = match shape {
                        0 => (Some(vec!["id", "b"]), format!("{}, {}", q("id"), q("b"))),
                        1 => (Some(vec!["id", "t1_b"]), format!("{}, {}.{}", q("id"), q("t1"), q("b"))),
                        2 => (Some(vec!["id", "v2"]), format!("{}, {} * {two} AS {}", q("id"), q("b"), q("v2"))),
                        3 => (None, format!("{}, {} * {two}", q("id"), q("b"))),
                        4 => (None, format!("{} * {two}", q("b"))),
                        _ => (None, "*".to_string()),
                    };
                    let cl = cols.map(|c| format!(" ({})", c.iter().map(|x| q(x)).collect::<Vec<_>>().join(", "))).unwrap_or_default();
                    Some(format!("WITH {}{cl} AS (SELECT {items} FROM {}) SELECT * FROM {}", q("cte_t1"), q("t1"), q("cte_t1")))
                }),
            });
        }
    }
    // (o) DISTINCT x ORDER BY x LIMIT x OFFSET over a column with duplicates: every combination (the row a LIMIT / OFFSET picks
    //     depends on whether duplicates were removed first and on the order)
    for distinct in [false, true] {
        for order in [None, Some(false), Some(true)] {
            for limit in [None, Some(0u64), Some(1), Some(2), Some(3)] {
                for offset in [None, Some(0u64), Some(1), Some(2), Some(3)] {
                    v.push(Extra {
                        name: format!("distinct-limit-offset distinct={distinct} order={order:?} limit={limit:?} offset={offset:?}"),
                        real: Box::new(move |d, build| {
                            let mut q = Query::select();
                            q.column(a("b")).from(a("t1"));
                            if distinct {
                                q.distinct();
                            }
                            if let Some(desc) = order {
                                q.order_by(a("b"), if desc { Order::Desc } else { Order::Asc });
                            }
                            if let Some(l) = limit {
                                q.limit(l);
                            }
                            if let Some(o) = offset {
                                q.offset(o);
                            }
                            render_sel(&q, d, build)
                        }),
                        reference: Box::new(move |d, build| {
                            if d == Dialect::Mysql && offset.is_some() && limit.is_none() {
                                return None; // MySQL has no OFFSET without LIMIT
                            }
                            let mut n = 0;
                            let mut s = format!("SELECT {}{} FROM {}", if distinct { "DISTINCT " } else { "" }, qd(d, "b"), qd(d, "t1"));
                            if let Some(desc) = order {
                                s.push_str(&format!(" ORDER BY {} {}", qd(d, "b"), if desc { "DESC" } else { "ASC" }));
                            }
                            if let Some(l) = limit {
                                n += 1;
                                s.push_str(&format!(" LIMIT {}", ph(d, build, n, &l.to_string())));
                            }
                            if let Some(o) = offset {
                                n += 1;
                                s.push_str(&format!(" OFFSET {}", ph(d, build, n, &o.to_string())));
                            }
                            Some(s)
                        }),
                    });
                }
            }
        }
    }
    // (p) the upsert clause assembled in every call order: all permutations of all subsets of { target_and_where,
    //     action_and_where, value, update_column } holding at least one assignment. Conditions and assignments accumulate
    //     independently of each other, in call order
    {
        fn perms(items: &[u8]) -> Vec<Vec<u8>> {
            if items.is_empty() {
                return vec![vec![]];
            }
            let mut out = vec![];
            for i in 0..items.len() {
                let mut rest = items.to_vec();
                let x = rest.remove(i);
                for mut p in perms(&rest) {
                    p.insert(0, x);
                    out.push(p);
                }
            }
            out
        }
        let mut orders: Vec<Vec<u8>> = vec![];
        for mask in 1u8..16 {
            let items: Vec<u8> = (0..4u8).filter(|i| mask & (1 << i) != 0).collect();
            if !items.iter().any(|i| *i >= 2) {
                continue;
            }
            orders.extend(perms(&items));
        }
        for order in orders {
            let o1 = order.clone();
            let o2 = order.clone();
            v.push(Extra {
                name: format!("upsert-call-order {:?}", order),
                real: Box::new(move |d, build| {
                    let mut oc = OnConflict::column(a("id"));
                    for c in &o1 {
                        match c {
                            0 => oc.target_and_where(Expr::col(a("a")).gt(5)),
                            1 => oc.action_and_where(Expr::col((a("t1"), a("a"))).lt(9)),
                            2 => oc.value(a("b"), 7),
                            _ => oc.update_column(a("a")),
                        };
                    }
                    let q = Query::insert().into_table(a("t1")).columns([a("id"), a("a")]).values_panic([1.into(), 2.into()]).on_conflict(oc).to_owned();
                    render_any(&q, d, build)
                }),
                reference: Box::new(move |d, build| {
                    let q = |n: &str| qd(d, n);
                    let mut n = 0;
                    let mut p = |lit: &str| {
                        n += 1;
                        ph(d, build, n, lit)
                    };
                    let mut s = format!("INSERT INTO {} ({}, {}) VALUES ({}, {})", q("t1"), q("id"), q("a"), p("1"), p("2"));
                    let my = d == Dialect::Mysql;
                    if my {
                        s.push_str(" ON DUPLICATE KEY UPDATE ");
                    } else {
                        s.push_str(&format!(" ON CONFLICT ({})", q("id")));
                        if o2.contains(&0) {
                            s.push_str(&format!(" WHERE {} > {}", q("a"), p("5")));
                        }
                        s.push_str(" DO UPDATE SET ");
                    }
                    let assigns: Vec<String> = o2
                        .iter()
                        .filter(|c| **c >= 2)
                        .map(|c| if *c == 2 { format!("{} = {}", q("b"), p("7")) } else if my { format!("{} = VALUES({})", q("a"), q("a")) } else { format!("{} = {}.{}", q("a"), q("excluded"), q("a")) })
                        .collect();
                    s.push_str(&assigns.join(", "));
                    if !my && o2.contains(&1) {
                        s.push_str(&format!(" WHERE {}.{} < {}", q("t1"), q("a"), p("9")));
                    }
                    Some(s)
                }),
            });
        }
    }
    // (g) PostgreSQL operators and functions in WHERE, between two other conditions; MySQL has none of them
    let pg_ops: Vec<(&'static str, PgBinOper)> = vec![
        ("ILIKE", PgBinOper::ILike),
        ("NOT ILIKE", PgBinOper::NotILike),
        ("@@", PgBinOper::Matches),
        ("@>", PgBinOper::Contains),
        ("<@", PgBinOper::Contained),
        ("||", PgBinOper::Concatenate),
        ("&&", PgBinOper::Overlap),
        ("%", PgBinOper::Similarity),
        ("<%", PgBinOper::WordSimilarity),
        ("<<%", PgBinOper::StrictWordSimilarity),
        ("<->", PgBinOper::SimilarityDistance),
        ("<<->", PgBinOper::WordSimilarityDistance),
        ("<<<->", PgBinOper::StrictWordSimilarityDistance),
        ("->", PgBinOper::GetJsonField),
        ("->>", PgBinOper::CastJsonField),
        ("~", PgBinOper::Regex),
        ("~*", PgBinOper::RegexCaseInsensitive),
    ];
    for (text, op) in pg_ops {
        v.push(Extra {
            name: format!("pg-operator {text}"),
            real: Box::new(move |d, build| {
                let mut s = base_select();
                s.and_where(Expr::col(a("a")).gt(5)).and_where(Expr::col(a("s")).binary(op, "x")).and_where(Expr::col(a("b")).lt(7));
                render_sel(&s, d, build)
            }),
            reference: Box::new(move |d, build| {
                if d != Dialect::Postgres {
                    return None;
                }
                let q = |n: &str| qd(d, n);
                Some(format!("SELECT {} FROM {} WHERE ({} > {}) AND ({} {text} {}) AND ({} < {})", q("a"), q("t1"), q("a"), ph(d, build, 1, "5"), q("s"), ph(d, build, 2, "'x'"), q("b"), ph(d, build, 3, "7")))
            }),
        });
    }
    type FnMk = fn() -> FunctionCall;
    let pg_funcs: Vec<(&'static str, &'static str, FnMk)> = vec![
        ("TO_TSQUERY", "to_tsquery", || PgFunc::to_tsquery("x", None)),
        ("TO_TSVECTOR", "to_tsvector", || PgFunc::to_tsvector("x", None)),
        ("PHRASETO_TSQUERY", "phraseto_tsquery", || PgFunc::phraseto_tsquery("x", None)),
        ("PLAINTO_TSQUERY", "plainto_tsquery", || PgFunc::plainto_tsquery("x", None)),
        ("WEBSEARCH_TO_TSQUERY", "websearch_to_tsquery", || PgFunc::websearch_to_tsquery("x", None)),
        ("STARTS_WITH", "starts_with", || PgFunc::starts_with("x", "y")),
        ("ANY", "any", || PgFunc::any("x")),
        ("SOME", "some", || PgFunc::some("x")),
        ("ALL", "all", || PgFunc::all("x")),
    ];
    for (upper, _lower, mk) in pg_funcs {
        v.push(Extra {
            name: format!("pg-function {upper}"),
            real: Box::new(move |d, build| {
                let mut s = base_select();
                s.expr(mk()).and_where(Expr::col(a("b")).lt(7));
                render_sel(&s, d, build)
            }),
            reference: Box::new(move |d, build| {
                if d != Dialect::Postgres {
                    return None;
                }
                let q = |n: &str| qd(d, n);
                let args = if upper == "STARTS_WITH" { format!("{}, {}", ph(d, build, 1, "'x'"), ph(d, build, 2, "'y'")) } else { ph(d, build, 1, "'x'") };
                let nb = if upper == "STARTS_WITH" { 3 } else { 2 };
                Some(format!("SELECT {}, {upper}({args}) FROM {} WHERE {} < {}", q("a"), q("t1"), q("b"), ph(d, build, nb, "7")))
            }),
        });
    }
    // (h) enum casts: PostgreSQL casts to the enum type, MySQL writes the bare value
    for pos in ["item", "where", "insert-value", "on-conflict-value", "update-value", "order-by"] {
        v.push(Extra {
            name: format!("enum-cast in {pos}"),
            real: Box::new(move |d, build| {
                let e = || Expr::val("sad").as_enum(a("mood"));
                match pos {
                    "item" => render_sel(base_select().expr_as(e(), a("m")), d, build),
                    "where" => render_sel(base_select().and_where(Expr::col(a("s")).eq(e())), d, build),
                    "order-by" => render_sel(base_select().order_by_expr(e(), Order::Asc), d, build),
                    "on-conflict-value" => {
                        let s = Query::insert().into_table(a("t1")).columns([a("id")]).values_panic([1.into()]).on_conflict(OnConflict::column(a("id")).value(a("s"), e()).to_owned()).to_owned();
                        render_any(&s, d, build)
                    }
                    "update-value" => {
                        let s = Query::update().table(a("t1")).value(a("s"), e()).to_owned();
                        render_any(&s, d, build)
                    }
                    _ => {
                        let s = Query::insert().into_table(a("t1")).columns([a("s")]).values_panic([e().into()]).to_owned();
                        render_any(&s, d, build)
                    }
                }
            }),
            reference: Box::new(move |d, build| {
                let q = |n: &str| qd(d, n);
                let v = ph(d, build, if pos == "on-conflict-value" { 2 } else { 1 }, "'sad'");
                let e = if d == Dialect::Postgres { format!("CAST({v} AS {})", q("mood")) } else { v };
                Some(match pos {
                    "item" => format!("SELECT {}, {e} AS {} FROM {}", q("a"), q("m"), q("t1")),
                    "where" => format!("SELECT {} FROM {} WHERE {} = {e}", q("a"), q("t1"), q("s")),
                    "order-by" => format!("SELECT {} FROM {} ORDER BY {e} ASC", q("a"), q("t1")),
                    "on-conflict-value" => {
                        let one = ph(d, build, 1, "1");
                        if d == Dialect::Mysql {
                            format!("INSERT INTO {} ({}) VALUES ({one}) ON DUPLICATE KEY UPDATE {} = {e}", q("t1"), q("id"), q("s"))
                        } else {
                            format!("INSERT INTO {} ({}) VALUES ({one}) ON CONFLICT ({}) DO UPDATE SET {} = {e}", q("t1"), q("id"), q("id"), q("s"))
                        }
                    }
                    "update-value" => format!("UPDATE {} SET {} = {e}", q("t1"), q("s")),
                    _ => format!("INSERT INTO {} ({}) VALUES ({e})", q("t1"), q("s")),
                })
            }),
        });
    }
    // (i) joins: every join type without ON (CROSS JOIN is the only one that may), lateral and aliased joins
    for (kw, jt) in [("CROSS", JoinType::CrossJoin), ("INNER", JoinType::InnerJoin), ("LEFT", JoinType::LeftJoin)] {
        for form in ["plain-no-on", "alias", "subquery", "lateral"] {
            v.push(Extra {
                name: format!("join {kw} {form}"),
                real: Box::new(move |d, build| {
                    let mut s = base_select();
                    let on = Expr::col((a("j"), a("t1_id"))).equals((a("t1"), a("id")));
                    let sub = Query::select().column(a("t1_id")).from(a("t2")).and_where(Expr::col(a("c")).gt(4)).to_owned();
                    match form {
                        "plain-no-on" => s.join(jt, a("t2"), Cond::all()),
                        "alias" => s.join_as(jt, a("t2"), a("j"), on),
                        "subquery" => s.join_subquery(jt, sub, a("j"), on),
                        _ => s.join_lateral(jt, sub, a("j"), on),
                    };
                    s.and_where(Expr::col(a("a")).lt(7));
                    render_sel(&s, d, build)
                }),
                reference: Box::new(move |d, build| {
                    let q = |n: &str| qd(d, n);
                    let on = format!(" ON {}.{} = {}.{}", q("j"), q("t1_id"), q("t1"), q("id"));
                    let (target, cond, nb) = match form {
                        "plain-no-on" => {
                            if kw != "CROSS" && d == Dialect::Postgres || kw == "LEFT" {
                                return None; // only CROSS JOIN may go without ON
                            }
                            (q("t2"), String::new(), 1)
                        }
                        "alias" => (format!("{} AS {}", q("t2"), q("j")), on, 1),
                        f => (format!("{}(SELECT {} FROM {} WHERE {} > {}) AS {}", if f == "lateral" { "LATERAL " } else { "" }, q("t1_id"), q("t2"), q("c"), ph(d, build, 1, "4"), q("j")), on, 2),
                    };
                    if kw == "CROSS" && d == Dialect::Postgres && form != "plain-no-on" {
                        return None; // PostgreSQL's CROSS JOIN takes no ON
                    }
                    if form == "lateral" && d == Dialect::Sqlite {
                        return None; // no LATERAL in SQLite
                    }
                    Some(format!("SELECT {} FROM {} {kw} JOIN {target}{cond} WHERE {} < {}", q("a"), q("t1"), q("a"), ph(d, build, nb, "7")))
                }),
            });
        }
    }
    // (m) VALUES tables in FROM: 1..3 columns x 1..2 rows (MySQL writes ROW(..) rows, PostgreSQL and SQLite plain rows)
    for cols in 1..=3usize {
        for rows in 1..=2usize {
            v.push(Extra {
                name: format!("values-table {cols} columns {rows} rows"),
                real: Box::new(move |d, build| {
                    let mut q = Query::select();
                    q.column(Asterisk);
                    match cols {
                        1 => q.from_values((0..rows).map(|r| 10 + r as i32).collect::<Vec<_>>(), a("vv")),
                        2 => q.from_values((0..rows).map(|r| (10 + r as i32, 7i32)).collect::<Vec<_>>(), a("vv")),
                        _ => q.from_values((0..rows).map(|r| (10 + r as i32, 7i32, 8i32)).collect::<Vec<_>>(), a("vv")),
                    };
                    render_sel(&q, d, build)
                }),
                reference: Box::new(move |d, build| {
                    let mut n = 0;
                    let mut p = |lit: String| {
                        n += 1;
                        ph(d, build, n, &lit)
                    };
                    let row = if d == Dialect::Mysql { "ROW" } else { "" };
                    let rs: Vec<String> = (0..rows)
                        .map(|r| {
                            let mut cells = vec![p(format!("{}", 10 + r))];
                            if cols >= 2 {
                                cells.push(p("7".into()));
                            }
                            if cols >= 3 {
                                cells.push(p("8".into()));
                            }
                            format!("{row}({})", cells.join(", "))
                        })
                        .collect();
                    Some(format!("SELECT * FROM (VALUES {}) AS {}", rs.join(", "), qd(d, "vv")))
                }),
            });
        }
    }
    // (l) window frames: unit x start x optional end (40 forms) x window with / without PARTITION BY and ORDER BY, inline OVER ( .. ) and in a named WINDOW
    {
        let bounds = ["UNBOUNDED PRECEDING", "1 PRECEDING", "CURRENT ROW", "2 FOLLOWING", "UNBOUNDED FOLLOWING"];
        for unit in ["ROWS", "RANGE"] {
            for si in 0..4usize {
                for ei in [None, Some(1usize), Some(2), Some(3), Some(4)] {
                    for (named, part, ord) in [(false, true, true), (true, true, true), (false, false, true), (true, false, true), (false, true, false), (false, false, false)] {
                        v.push(Extra {
                            name: format!("window-frame {unit} {} {:?} named={named} partition={part} order={ord}", bounds[si], ei.map(|e| bounds[e])),
                            real: Box::new(move |d, build| {
                                let fr = |i: usize| match i {
                                    0 => Frame::UnboundedPreceding,
                                    1 => Frame::Preceding(1),
                                    2 => Frame::CurrentRow,
                                    3 => Frame::Following(2),
                                    _ => Frame::UnboundedFollowing,
                                };
                                let ft = if unit == "ROWS" { FrameType::Rows } else { FrameType::Range };
                                let mut w = if part { WindowStatement::partition_by(a("s")) } else { WindowStatement::new() };
                                if ord {
                                    w.order_by(a("id"), Order::Asc);
                                }
                                match ei {
                                    None => w.frame_start(ft, fr(si)),
                                    Some(e) => w.frame_between(ft, fr(si), fr(e)),
                                };
                                let mut s = Query::select();
                                s.from(a("t1")).column(a("id"));
                                if named {
                                    s.expr_window_name_as(Func::sum(Expr::col(a("b"))), a("w"), a("x")).window(a("w"), w);
                                } else {
                                    s.expr_window_as(Func::sum(Expr::col(a("b"))), w, a("x"));
                                }
                                s.order_by(a("id"), Order::Asc);
                                render_sel(&s, d, build)
                            }),
                            reference: Box::new(move |d, build| {
                                let q = |n: &str| qd(d, n);
                                let mut n = 0;
                                let mut b = |i: usize| -> String {
                                    match i {
                                        1 => {
                                            n += 1;
                                            format!("{} PRECEDING", ph(d, build, n, "1"))
                                        }
                                        3 => {
                                            n += 1;
                                            format!("{} FOLLOWING", ph(d, build, n, "2"))
                                        }
                                        k => bounds[k].to_string(),
                                    }
                                };
                                let frame = match ei {
                                    None => format!("{unit} {}", b(si)),
                                    Some(e) => {
                                        let x = b(si);
                                        let y = b(e);
                                        format!("{unit} BETWEEN {x} AND {y}")
                                    }
                                };
                                let mut parts = vec![];
                                if part {
                                    parts.push(format!("PARTITION BY {}", q("s")));
                                }
                                if ord {
                                    parts.push(format!("ORDER BY {} ASC", q("id")));
                                }
                                parts.push(frame);
                                let spec = format!("({})", parts.join(" "));
                                Some(if named {
                                    format!("SELECT {}, SUM({}) OVER {} AS {} FROM {} WINDOW {} AS {spec} ORDER BY {} ASC", q("id"), q("b"), q("w"), q("x"), q("t1"), q("w"), q("id"))
                                } else {
                                    format!("SELECT {}, SUM({}) OVER {spec} AS {} FROM {} ORDER BY {} ASC", q("id"), q("b"), q("x"), q("t1"), q("id"))
                                })
                            }),
                        });
                    }
                }
            }
        }
    }
    // (k) INSERT / UPDATE / DELETE with a WITH clause, attached through `.with(clause)` (a WithQuery) and through
    //     `.with_cte(clause)`: PostgreSQL and SQLite put the clause in front of the statement, MySQL in front of UPDATE /
    //     DELETE but, for INSERT, in front of the SELECT source
    for body in ["insert", "update", "delete"] {
        for api in ["with", "with_cte"] {
            v.push(Extra {
                name: format!("dml-with-cte {body} {api}"),
                real: Box::new(move |d, build| {
                    let w = WithClause::new().cte(CommonTableExpression::new().query(Query::select().column(a("t1_id")).from(a("t2")).and_where(Expr::col(a("c")).gt(4)).to_owned()).table_name(a("c0")).to_owned()).to_owned();
                    let sel = Query::select().column(a("t1_id")).from(a("c0")).to_owned();
                    match (body, api) {
                        ("insert", "with") => render_any(&Query::insert().into_table(a("t1")).columns([a("a")]).select_from(sel).unwrap().to_owned().with(w), d, build),
                        ("insert", _) => render_any(Query::insert().into_table(a("t1")).columns([a("a")]).select_from(sel).unwrap().with_cte(w), d, build),
                        ("update", "with") => render_any(&Query::update().table(a("t1")).value(a("a"), 5).and_where(Expr::col(a("id")).in_subquery(sel)).to_owned().with(w), d, build),
                        ("update", _) => render_any(Query::update().table(a("t1")).value(a("a"), 5).and_where(Expr::col(a("id")).in_subquery(sel)).with_cte(w), d, build),
                        (_, "with") => render_any(&Query::delete().from_table(a("t1")).and_where(Expr::col(a("id")).in_subquery(sel)).to_owned().with(w), d, build),
                        _ => render_any(Query::delete().from_table(a("t1")).and_where(Expr::col(a("id")).in_subquery(sel)).with_cte(w), d, build),
                    }
                }),
                reference: Box::new(move |d, build| {
                    let q = |n: &str| qd(d, n);
                    let with = format!("WITH {} AS (SELECT {} FROM {} WHERE {} > {})", q("c0"), q("t1_id"), q("t2"), q("c"), ph(d, build, 1, "4"));
                    let sel = format!("SELECT {} FROM {}", q("t1_id"), q("c0"));
                    Some(match body {
                        "insert" if d == Dialect::Mysql => format!("INSERT INTO {} ({}) {with} {sel}", q("t1"), q("a")),
                        "insert" => format!("{with} INSERT INTO {} ({}) {sel}", q("t1"), q("a")),
                        "update" => format!("{with} UPDATE {} SET {} = {} WHERE {} IN ({sel})", q("t1"), q("a"), ph(d, build, 2, "5"), q("id")),
                        _ => format!("{with} DELETE FROM {} WHERE {} IN ({sel})", q("t1"), q("id")),
                    })
                }),
            });
        }
    }
    // (j) ORDER BY forms: direction / FIELD list x NULLS ordering x statement kind (SELECT, window ORDER BY, UPDATE, DELETE),
    //     one and two keys
    for ctx in ["select", "window", "update", "delete"] {
        for k1 in 0..9usize {
            for k2 in [None, Some(0usize), Some(4), Some(8)] {
                let keys: Vec<usize> = std::iter::once(k1).chain(k2).collect();
                let keys2 = keys.clone();
                v.push(Extra {
                    name: format!("order-by {ctx} keys={:?}", keys),
                    real: Box::new(move |d, build| {
                        let mk = |k: usize, col: &str| -> (SimpleExpr, Order, Option<NullOrdering>) {
                            let ord = match k / 3 {
                                0 => Order::Asc,
                                1 => Order::Desc,
                                _ => Order::Field(Values(vec![4.into(), 5.into(), 1.into()])),
                            };
                            let nulls = match k % 3 {
                                0 => None,
                                1 => Some(NullOrdering::First),
                                _ => Some(NullOrdering::Last),
                            };
                            (Expr::col(a(col)).into(), ord, nulls)
                        };
                        let cols = ["a", "b"];
                        macro_rules! apply {
                            ($s:expr) => {
                                for (i, k) in keys2.iter().enumerate() {
                                    let (e, o, n) = mk(*k, cols[i]);
                                    match n {
                                        Some(n) => $s.order_by_expr_with_nulls(e, o, n),
                                        None => $s.order_by_expr(e, o),
                                    };
                                }
                            };
                        }
                        macro_rules! render {
                            ($s:expr) => {
                                render_any(&$s, d, build)
                            };
                        }
                        match ctx {
                            "select" => {
                                let mut s = base_select();
                                apply!(s);
                                s.limit(2);
                                render!(s)
                            }
                            "window" => {
                                let mut w = WindowStatement::partition_by(a("s"));
                                for (i, k) in keys2.iter().enumerate() {
                                    let (_, o, n) = mk(*k, cols[i]);
                                    match n {
                                        Some(n) => w.order_by_with_nulls(a(cols[i]), o, n),
                                        None => w.order_by(a(cols[i]), o),
                                    };
                                }
                                let mut s = base_select();
                                s.expr_window_as(Func::max(Expr::col(a("b"))), w, a("m"));
                                render!(s)
                            }
                            "update" => {
                                let mut s = Query::update();
                                s.table(a("t1")).value(a("a"), 1);
                                apply!(s);
                                s.limit(2);
                                render!(s)
                            }
                            _ => {
                                let mut s = Query::delete();
                                s.from_table(a("t1"));
                                apply!(s);
                                s.limit(2);
                                render!(s)
                            }
                        }
                    }),
                    reference: Box::new(move |d, build| {
                        if d == Dialect::Postgres && (ctx == "update" || ctx == "delete") {
                            return None; // no ORDER BY / LIMIT there
                        }
                        let q = |n: &str| qd(d, n);
                        let cols = ["a", "b"];
                        let one = |k: usize, col: &str| -> String {
                            let c = q(col);
                            let base = match k / 3 {
                                0 => format!("{c} ASC"),
                                1 => format!("{c} DESC"),
                                _ => format!("CASE WHEN {c} = 4 THEN 0 WHEN {c} = 5 THEN 1 WHEN {c} = 1 THEN 2 ELSE 3 END"),
                            };
                            match (k % 3, d) {
                                (0, _) => base,
                                (1, Dialect::Mysql) => format!("{c} IS NULL DESC, {base}"),
                                (_, Dialect::Mysql) => format!("{c} IS NULL ASC, {base}"),
                                (1, _) => format!("{base} NULLS FIRST"),
                                _ => format!("{base} NULLS LAST"),
                            }
                        };
                        let ob = keys.iter().enumerate().map(|(i, k)| one(*k, cols[i])).collect::<Vec<_>>().join(", ");
                        Some(match ctx {
                            "select" => format!("SELECT {} FROM {} ORDER BY {ob} LIMIT {}", q("a"), q("t1"), ph(d, build, 1, "2")),
                            "window" => format!("SELECT {}, MAX({}) OVER (PARTITION BY {} ORDER BY {ob}) AS {} FROM {}", q("a"), q("b"), q("s"), q("m"), q("t1")),
                            "update" => format!("UPDATE {} SET {} = {} ORDER BY {ob} LIMIT {}", q("t1"), q("a"), ph(d, build, 1, "1"), ph(d, build, 2, "2")),
                            _ => format!("DELETE FROM {} ORDER BY {ob} LIMIT {}", q("t1"), ph(d, build, 1, "2")),
                        })
                    }),
                });
            }
        }
    }
    v
}

/// one construct = one key: the family name (for the parameterised families the first word)
pub fn family_of(name: &str) -> String {
    let first = name.split(' ').next().unwrap_or("").to_string();
    if ["index-hints", "named-window", "with", "lock", "tablesample", "distinct-on", "order-by", "window-frame", "values-table", "cte-from-select", "distinct-limit-offset", "upsert-call-order"].contains(&first.as_str()) {
        first
    } else {
        name.split(' ').take(2).collect::<Vec<_>>().join(" ")
    }
}

fn run_extras(rep: &Arc<Report>) -> (u64, u64, u64) {
    let ex = extras(rep.thorough());
    let mut distinct: std::collections::HashSet<u128> = Default::default();
    let mut checked = 0u64;
    let mut ood = 0u64;
    for e in &ex {
        for d in [Dialect::Mysql, Dialect::Postgres] {
            for build in [false, true] {
                let mode = if build { "build" } else { "to_string" };
                let Some(reference) = (e.reference)(d, build) else {
                    ood += 1;
                    continue;
                };
                checked += 1;
                let fail = match catch(|| (e.real)(d, build)) {
                    Err(p) => Some(Fail::new("render-panic", format!("{} {mode}: rendering panicked: {p}", d.name()))),
                    Ok(real) => {
                        distinct.insert(crate::util::fp_str(&real));
                        compare(d, mode, &real, &reference)
                    }
                };
                if let Some(f) = fail {
                    rep.raw_failures.inc();
                    let family = family_of(&e.name);
                    rep.violation(Violation { key: format!("construct|{}|{}|{}", d.name(), f.sig, family), what: format!("{}: {}", e.name, f.detail), case: json!({"kind": "construct", "name": e.name, "dialect": d.name(), "build": build}) });
                }
            }
        }
    }
    (checked, ood, distinct.len() as u64)
}

pub fn run(rep: &Arc<Report>) {
    let (ds, dd) = if rep.thorough() { (5, 5) } else { (4, 4) };
    let m = SelModel { name: "select", menu: select_menu(rep.thorough(), false), checks: vec![Box::new(check_select)], sqlite_only: false };
    let st = explore(&m, ds, u64::MAX, rep);
    let mut states = st.states;
    let mut transitions = st.transitions;
    let mut outcomes = st.outcomes;
    let mut exhaustive = st.exhaustive;
    for kind in [Kind::Insert, Kind::Update, Kind::Delete] {
        let dm = DmlModel { kind, menu: dml_menu(kind, rep.thorough()), checks: vec![Box::new(check_dml)] };
        let s2 = explore(&dm, dd, u64::MAX, rep);
        states += s2.states;
        transitions += s2.transitions;
        outcomes += s2.outcomes;
        exhaustive &= s2.exhaustive;
    }
    let (xc, xo, xd) = run_extras(rep);
    let (api_cmp, api_variants) = crate::props::apivar::run(rep, &[Dialect::Mysql, Dialect::Postgres]);
    rep.set("api_variant_comparisons", json!(api_cmp));
    rep.set("api_variants", json!(api_variants));
    let (em, _) = crate::props::exprapi::run(rep, &[Dialect::Mysql, Dialect::Postgres]);
    rep.set("expression_methods_parsed_and_compared", json!(em));
    rep.set("states", json!(states + xc));
    rep.set("transitions", json!(transitions));
    rep.set("max_depth", json!({"select": ds, "dml": dd}));
    rep.set("level_sizes_select", json!(st.level_sizes));
    rep.set("per_op_transitions_select", json!(st.per_op));
    rep.set("renderings_parsed_and_compared", json!(CHECKED.get() + xc));
    rep.set("dialect_construct_cases", json!(xc));
    rep.set("out_of_domain_dialect_cannot_express", json!(OOD.get() + xo));
    rep.set("traces_validated_against_impl", json!(CHECKED.get() + xc));
    rep.set("evaluations", json!(CHECKED.get() + xc));
    rep.set("distinct_nontrivial", json!(outcomes + xd));
    rep.set("dialect_construct_distinct_texts", json!(xd));
    rep.set("rule", json!("BFS over builder-call histories of SELECT / INSERT / UPDATE / DELETE (state = real statement) plus enumerated families of dialect-specific constructs; every state rendered on MySQL and PostgreSQL in both modes, parsed by the dialect's reference clause parser and compared with the parse of the explicit reference rendering; distinct_nontrivial = distinct SQLite renderings of the machine states + distinct rendered texts of the construct cases"));
    rep.set("exhaustive", json!(exhaustive));
    rep.sample(json!({"mysql_reference": RefR::new(Dialect::Mysql, true).sel(&crate::smodel::nested_pool()[2]), "postgres_reference": RefR::new(Dialect::Postgres, true).sel(&crate::smodel::nested_pool()[3])}));
    rep.assume("MySQL 8.0 and PostgreSQL clause grammars transcribed from the manuals' statement synopses (no engine offline); requests a dialect cannot express (FULL OUTER JOIN on MySQL, CROSS JOIN .. ON and UPDATE / DELETE .. ORDER BY / LIMIT on PostgreSQL, REPLACE on PostgreSQL, PostgreSQL-only lock strengths, operators and functions on MySQL) are out of domain and counted; set operations are compared as a flat list (their precedence is C09's subject)");
}

pub fn replay(case: &serde_json::Value) -> Option<String> {
    if case["kind"].as_str() == Some("api-variant") {
        return crate::props::apivar::replay(case);
    }
    if case["kind"].as_str() == Some("expr-method") {
        return crate::props::exprapi::replay(case);
    }
    if case["kind"].as_str() == Some("construct") {
        let name = case["name"].as_str().unwrap_or("");
        let d = Dialect::from_name(case["dialect"].as_str().unwrap_or("mysql"));
        let build = case["build"].as_bool().unwrap_or(false);
        let ex = extras(true);
        let e = ex.iter().find(|e| e.name == name)?;
        let reference = (e.reference)(d, build)?;
        let mode = if build { "build" } else { "to_string" };
        return match catch(|| (e.real)(d, build)) {
            Err(p) => Some(format!("{name}: rendering panicked: {p}")),
            Ok(real) => compare(d, mode, &real, &reference).map(|f| format!("{name}: [{}] {}", f.sig, f.detail)),
        };
    }
    let ops: Vec<String> = case["ops"].as_array().map(|a| a.iter().filter_map(|x| x.as_str().map(String::from)).collect()).unwrap_or_default();
    match case["model"].as_str().unwrap_or("") {
        "select" => replay_ops(&SelModel { name: "select", menu: select_menu(true, false), checks: vec![Box::new(check_select)], sqlite_only: false }, &ops),
        k => {
            let kind = match k {
                "insert" => Kind::Insert,
                "update" => Kind::Update,
                _ => Kind::Delete,
            };
            replay_ops(&DmlModel { kind, menu: dml_menu(kind, true), checks: vec![Box::new(check_dml)] }, &ops)
        }
    }
}
