//! Expression-method semantics (shared by C07 for SQLite and C08 for MySQL / PostgreSQL).
//!
//! The expression pools of QModel are built through a handful of constructors. Every OTHER public
//! expression method — the inherent methods of `Expr`, the `ExprTrait` methods on `SimpleExpr`, the
//! `Func` constructors, the PostgreSQL / SQLite extension traits — is checked here, once per method and
//! entry path: `SELECT <built expression> FROM t1` against an explicit reference text of what the method
//! is documented to mean. On SQLite both are evaluated by the engine over the fixed data (NULLs included)
//! and must return the same rows; on MySQL / PostgreSQL both are parsed by the dialect's reference parser
//! and must have the same normalised structure.

use crate::lex::Dialect;
use crate::report::{Report, Violation};
use crate::smodel::{row_list, with_db};
use crate::util::catch;
use sea_query::extension::postgres::PgExpr;
use sea_query::extension::sqlite::SqliteExpr;
use sea_query::*;
use serde_json::json;
use std::sync::Arc;

fn a(s: &str) -> Alias {
    Alias::new(s)
}
fn ca() -> Expr {
    Expr::col(a("a"))
}
fn cb() -> Expr {
    Expr::col(a("b"))
}
fn cs() -> Expr {
    Expr::col(a("s"))
}
fn sa() -> SimpleExpr {
    Expr::col(a("a")).into()
}
fn sb() -> SimpleExpr {
    Expr::col(a("b")).into()
}
fn ss() -> SimpleExpr {
    Expr::col(a("s")).into()
}
fn sub() -> SelectStatement {
    Query::select().column(a("c")).from(a("t2")).and_where(Expr::col(a("c")).is_not_null()).to_owned()
}

struct M {
    name: &'static str,
    build: fn() -> SimpleExpr,
    /// reference text with `"` quoting; {IFNULL} {LEN} {GREATEST} {LEAST} are replaced per dialect
    reference: &'static str,
    /// dialects whose grammar has the construct
    dialects: &'static [Dialect],
}

const ALL: &[Dialect] = &[Dialect::Mysql, Dialect::Postgres, Dialect::Sqlite];
const PG: &[Dialect] = &[Dialect::Postgres];
const LITE: &[Dialect] = &[Dialect::Sqlite];
const MY_PG: &[Dialect] = &[Dialect::Mysql, Dialect::Postgres];

fn methods() -> Vec<M> {
    macro_rules! m {
        ($n:expr, $b:expr, $r:expr) => {
            M { name: $n, build: || $b.into(), reference: $r, dialects: ALL }
        };
        ($n:expr, $b:expr, $r:expr, $d:expr) => {
            M { name: $n, build: || $b.into(), reference: $r, dialects: $d }
        };
    }
    vec![
        // comparison, through Expr's inherent methods and through ExprTrait on SimpleExpr
        m!("Expr::eq", ca().eq(1500), r#""a" = 1500"#),
        m!("ExprTrait::eq", sa().eq(1500), r#""a" = 1500"#),
        m!("Expr::ne", ca().ne(1500), r#""a" <> 1500"#),
        m!("ExprTrait::ne", sa().ne(1500), r#""a" <> 1500"#),
        m!("Expr::equals", ca().equals((a("t1"), a("b"))), r#""a" = "t1"."b""#),
        m!("ExprTrait::equals", sa().equals((a("t1"), a("b"))), r#""a" = "t1"."b""#),
        m!("Expr::not_equals", ca().not_equals((a("t1"), a("b"))), r#""a" <> "t1"."b""#),
        m!("ExprTrait::not_equals", sa().not_equals((a("t1"), a("b"))), r#""a" <> "t1"."b""#),
        m!("Expr::gt", ca().gt(1500), r#""a" > 1500"#),
        m!("ExprTrait::gt", sa().gt(1500), r#""a" > 1500"#),
        m!("Expr::gte", ca().gte(1500), r#""a" >= 1500"#),
        m!("ExprTrait::gte", sa().gte(1500), r#""a" >= 1500"#),
        m!("Expr::lt", ca().lt(1500), r#""a" < 1500"#),
        m!("ExprTrait::lt", sa().lt(1500), r#""a" < 1500"#),
        m!("Expr::lte", ca().lte(1500), r#""a" <= 1500"#),
        m!("ExprTrait::lte", sa().lte(1500), r#""a" <= 1500"#),
        // arithmetic
        m!("Expr::add", ca().add(7), r#""a" + 7"#),
        m!("ExprTrait::add", sa().add(7), r#""a" + 7"#),
        m!("Expr::sub", ca().sub(7), r#""a" - 7"#),
        m!("ExprTrait::sub", sa().sub(7), r#""a" - 7"#),
        m!("Expr::mul", ca().mul(7), r#""a" * 7"#),
        m!("ExprTrait::mul", sa().mul(7), r#""a" * 7"#),
        m!("Expr::div", ca().div(7), r#""a" / 7"#),
        m!("ExprTrait::div", sa().div(7), r#""a" / 7"#),
        m!("Expr::modulo", ca().modulo(7), r#""a" % 7"#),
        m!("ExprTrait::modulo", sa().modulo(7), r#""a" % 7"#),
        m!("Expr::left_shift", ca().left_shift(2), r#""a" << 2"#),
        m!("ExprTrait::left_shift", sa().left_shift(2), r#""a" << 2"#),
        m!("Expr::right_shift", ca().right_shift(2), r#""a" >> 2"#),
        m!("ExprTrait::right_shift", sa().right_shift(2), r#""a" >> 2"#),
        m!("ExprTrait::bit_and", sa().bit_and(12), r#""a" & 12"#),
        m!("ExprTrait::bit_or", sa().bit_or(12), r#""a" | 12"#),
        // ternaries and predicates
        m!("Expr::between", ca().between(1000, 2600), r#""a" BETWEEN 1000 AND 2600"#),
        m!("ExprTrait::between", sa().between(1000, 2600), r#""a" BETWEEN 1000 AND 2600"#),
        m!("Expr::not_between", ca().not_between(1000, 2600), r#""a" NOT BETWEEN 1000 AND 2600"#),
        m!("ExprTrait::not_between", sa().not_between(1000, 2600), r#""a" NOT BETWEEN 1000 AND 2600"#),
        m!("Expr::like", cs().like("x%"), r#""s" LIKE 'x%'"#),
        m!("ExprTrait::like", ss().like("x%"), r#""s" LIKE 'x%'"#),
        m!("Expr::not_like", cs().not_like("x%"), r#""s" NOT LIKE 'x%'"#),
        m!("ExprTrait::not_like", ss().not_like("x%"), r#""s" NOT LIKE 'x%'"#),
        m!("Expr::like-escape", cs().like(LikeExpr::new("x|%").escape('|')), r#""s" LIKE 'x|%' ESCAPE '|'"#),
        m!("Expr::is_null", cb().is_null(), r#""b" IS NULL"#),
        m!("ExprTrait::is_null", sb().is_null(), r#""b" IS NULL"#),
        m!("Expr::is_not_null", cb().is_not_null(), r#""b" IS NOT NULL"#),
        m!("ExprTrait::is_not_null", sb().is_not_null(), r#""b" IS NOT NULL"#),
        m!("Expr::is", ca().gt(1500).is(true), r#"("a" > 1500) IS TRUE"#),
        m!("ExprTrait::is", sa().gt(1500).is(true), r#"("a" > 1500) IS TRUE"#),
        m!("Expr::is_not", ca().gt(1500).is_not(true), r#"("a" > 1500) IS NOT TRUE"#),
        m!("ExprTrait::is_not", sa().gt(1500).is_not(true), r#"("a" > 1500) IS NOT TRUE"#),
        m!("Expr::is_in", ca().is_in([500, 2500]), r#""a" IN (500, 2500)"#),
        m!("ExprTrait::is_in", sa().is_in([500, 2500]), r#""a" IN (500, 2500)"#),
        m!("Expr::is_not_in", ca().is_not_in([500, 2500]), r#""a" NOT IN (500, 2500)"#),
        m!("ExprTrait::is_not_in", sa().is_not_in([500, 2500]), r#""a" NOT IN (500, 2500)"#),
        m!("Expr::in_tuples", Expr::tuple([sa(), sb()]).in_tuples([(500, 7000), (1500, 100)]), r#"("a", "b") IN ((500, 7000), (1500, 100))"#),
        m!("Expr::in_subquery", cb().in_subquery(sub()), r#""b" IN (SELECT "c" FROM "t2" WHERE "c" IS NOT NULL)"#),
        m!("ExprTrait::in_subquery", sb().in_subquery(sub()), r#""b" IN (SELECT "c" FROM "t2" WHERE "c" IS NOT NULL)"#),
        m!("Expr::not_in_subquery", cb().not_in_subquery(sub()), r#""b" NOT IN (SELECT "c" FROM "t2" WHERE "c" IS NOT NULL)"#),
        m!("ExprTrait::not_in_subquery", sb().not_in_subquery(sub()), r#""b" NOT IN (SELECT "c" FROM "t2" WHERE "c" IS NOT NULL)"#),
        m!("Expr::exists", Expr::exists(sub()), r#"EXISTS (SELECT "c" FROM "t2" WHERE "c" IS NOT NULL)"#),
        m!("Expr::any", ca().gt(Expr::any(sub())), r#""a" > ANY (SELECT "c" FROM "t2" WHERE "c" IS NOT NULL)"#, MY_PG),
        m!("Expr::some", ca().gt(Expr::some(sub())), r#""a" > SOME (SELECT "c" FROM "t2" WHERE "c" IS NOT NULL)"#, MY_PG),
        m!("Expr::all", ca().gt(Expr::all(sub())), r#""a" > ALL (SELECT "c" FROM "t2" WHERE "c" IS NOT NULL)"#, MY_PG),
        // logic
        m!("Expr::not", ca().gt(1500).not(), r#"NOT ("a" > 1500)"#),
        m!("ExprTrait::not", sa().gt(1500).not(), r#"NOT ("a" > 1500)"#),
        m!("ExprTrait::and", sa().gt(1000).and(sb().lt(6000)), r#"("a" > 1000) AND ("b" < 6000)"#),
        m!("ExprTrait::or", sa().gt(3000).or(sb().lt(200)), r#"("a" > 3000) OR ("b" < 200)"#),
        m!("ExprTrait::unary-not", sa().gt(1500).unary(UnOper::Not), r#"NOT ("a" > 1500)"#),
        // aggregates and functions, through Expr and through Func
        m!("Expr::max", cb().max(), r#"MAX("b")"#),
        m!("Func::max", Func::max(sb()), r#"MAX("b")"#),
        m!("Expr::min", cb().min(), r#"MIN("b")"#),
        m!("Func::min", Func::min(sb()), r#"MIN("b")"#),
        m!("Expr::sum", cb().sum(), r#"SUM("b")"#),
        m!("Func::sum", Func::sum(sb()), r#"SUM("b")"#),
        m!("Func::avg", Func::avg(sb()), r#"AVG("b")"#),
        m!("Expr::count", cb().count(), r#"COUNT("b")"#),
        m!("Func::count", Func::count(sb()), r#"COUNT("b")"#),
        m!("Expr::count_distinct", cb().count_distinct(), r#"COUNT(DISTINCT "b")"#),
        m!("Func::count_distinct", Func::count_distinct(sb()), r#"COUNT(DISTINCT "b")"#),
        m!("Func::abs", Func::abs(sa().sub(2000)), r#"ABS("a" - 2000)"#),
        m!("Expr::if_null", cb().if_null(9), r#"{IFNULL}("b", 9)"#),
        m!("Func::if_null", Func::if_null(sb(), 9), r#"{IFNULL}("b", 9)"#),
        m!("Func::coalesce", Func::coalesce([sb(), sa(), 9.into()]), r#"COALESCE("b", "a", 9)"#),
        m!("Func::char_length", Func::char_length(ss()), r#"{LEN}("s")"#),
        m!("Func::greatest", Func::greatest([sa(), sb()]), r#"{GREATEST}("a", "b")"#),
        m!("Func::least", Func::least([sa(), sb()]), r#"{LEAST}("a", "b")"#),
        m!("Func::lower", Func::lower(ss()), r#"LOWER("s")"#),
        m!("Func::upper", Func::upper(ss()), r#"UPPER("s")"#),
        m!("Func::round", Func::round(sa().div(7)), r#"ROUND("a" / 7)"#),
        m!("Func::round_with_precision", Func::round_with_precision(sa().div(7), 1), r#"ROUND("a" / 7, 1)"#),
        m!("Func::bit_and", Func::bit_and(sa()), r#"BIT_AND("a")"#, MY_PG),
        m!("Func::bit_or", Func::bit_or(sa()), r#"BIT_OR("a")"#, MY_PG),
        m!("Func::md5", Func::md5(ss()), r#"MD5("s")"#, MY_PG),
        m!("Func::cust", Func::cust(a("abs")).arg(sa().sub(2000)), r#"abs("a" - 2000)"#),
        m!("Func::cust-args", Func::cust(a("coalesce")).args([sb(), sa()]), r#"coalesce("b", "a")"#),
        m!("Expr::cast_as", ca().cast_as(a("text")), r#"CAST("a" AS text)"#, &[Dialect::Postgres, Dialect::Sqlite]),
        m!("ExprTrait::cast_as", sa().cast_as(a("text")), r#"CAST("a" AS text)"#, &[Dialect::Postgres, Dialect::Sqlite]),
        m!("Func::cast_as", Func::cast_as(sa(), a("text")), r#"CAST("a" AS text)"#, &[Dialect::Postgres, Dialect::Sqlite]),
        // constructors
        m!("Expr::val", Expr::val(42), "42"),
        m!("Expr::value", Expr::value("it's"), "'it''s'", &[Dialect::Postgres, Dialect::Sqlite]),
        m!("Expr::expr", Expr::expr(sa().add(1)).mul(2), r#"("a" + 1) * 2"#),
        m!("Expr::col-qualified", Expr::col((a("t1"), a("a"))), r#""t1"."a""#),
        m!("Expr::column", Expr::column(a("a")), r#""a""#),
        m!("Expr::tuple", Expr::tuple([sa(), sb()]).eq(Expr::tuple([500.into(), 7000.into()])), r#"("a", "b") = (500, 7000)"#),
        m!("Expr::cust", Expr::cust("1 + 1"), "1 + 1"),
        m!("Expr::cust_with_values", Expr::cust_with_values("? + ?", [1, 2]), "1 + 2", &[Dialect::Mysql, Dialect::Sqlite]),
        m!("Expr::cust_with_values-pg", Expr::cust_with_values("$1 + $2", [1, 2]), "1 + 2", PG),
        m!("Expr::cust_with_expr", Expr::cust_with_expr("? + 1", sa()), r#""a" + 1"#, &[Dialect::Mysql, Dialect::Sqlite]),
        m!("Expr::cust_with_exprs", Expr::cust_with_exprs("? + ?", [sa(), sb()]), r#""a" + "b""#, &[Dialect::Mysql, Dialect::Sqlite]),
        m!("Expr::case", Expr::case(sa().gt(1500), 1).case(sa().gt(500), 2).finally(3), r#"CASE WHEN "a" > 1500 THEN 1 WHEN "a" > 500 THEN 2 ELSE 3 END"#),
        m!("CaseStatement-no-else", CaseStatement::new().case(sa().gt(1500), 1), r#"CASE WHEN "a" > 1500 THEN 1 END"#),
        m!("Expr::custom_keyword", Expr::custom_keyword(a("NULL")), "NULL"),
        m!("Keyword::Null", SimpleExpr::Keyword(Keyword::Null), "NULL"),
        m!("Expr::current_date", Expr::current_date(), "CURRENT_DATE"),
        m!("Expr::current_time", Expr::current_time(), "CURRENT_TIME"),
        m!("Expr::current_timestamp", Expr::current_timestamp(), "CURRENT_TIMESTAMP"),
        // PostgreSQL extension methods
        m!("PgExpr::concatenate", ss().concatenate("z"), r#""s" || 'z'"#, PG),
        m!("PgExpr::concat", ss().concat("z"), r#""s" || 'z'"#, PG),
        m!("PgExpr::matches", PgExpr::matches(ss(), "z"), r#""s" @@ 'z'"#, PG),
        m!("PgExpr::contains", ss().contains("z"), r#""s" @> 'z'"#, PG),
        m!("PgExpr::contained", ss().contained("z"), r#""s" <@ 'z'"#, PG),
        m!("PgExpr::ilike", ss().ilike("X%"), r#""s" ILIKE 'X%'"#, PG),
        m!("PgExpr::not_ilike", ss().not_ilike("X%"), r#""s" NOT ILIKE 'X%'"#, PG),
        m!("PgExpr::get_json_field", PgExpr::get_json_field(ss(), "k"), r#""s" -> 'k'"#, PG),
        m!("PgExpr::cast_json_field", PgExpr::cast_json_field(ss(), "k"), r#""s" ->> 'k'"#, PG),
        // SQLite extension methods
        m!("SqliteExpr::glob", SqliteExpr::glob(ss(), "x*"), r#""s" GLOB 'x*'"#, LITE),
        m!("SqliteExpr::matches", SqliteExpr::matches(ss(), "x"), r#""s" MATCH 'x'"#, LITE),
        m!("SqliteExpr::get_json_field", SqliteExpr::get_json_field(Expr::val(r#"{"k":[1,2]}"#), "$.k"), r#"'{"k":[1,2]}' -> '$.k'"#, LITE),
        m!("SqliteExpr::cast_json_field", SqliteExpr::cast_json_field(Expr::val(r#"{"k":[1,2]}"#), "$.k"), r#"'{"k":[1,2]}' ->> '$.k'"#, LITE),
    ]
}

fn reference_text(m: &M, d: Dialect) -> String {
    let r = m
        .reference
        .replace("{IFNULL}", if d == Dialect::Postgres { "COALESCE" } else { "IFNULL" })
        .replace("{LEN}", if d == Dialect::Sqlite { "LENGTH" } else { "CHAR_LENGTH" })
        .replace("{GREATEST}", if d == Dialect::Sqlite { "MAX" } else { "GREATEST" })
        .replace("{LEAST}", if d == Dialect::Sqlite { "MIN" } else { "LEAST" });
    let r = if d == Dialect::Mysql { r.replace('"', "`") } else { r };
    let t = if d == Dialect::Mysql { "`t1`" } else { "\"t1\"" };
    format!("SELECT {r} FROM {t}")
}

/// returns (cases compared, out of domain)
pub fn run(rep: &Arc<Report>, dialects: &[Dialect]) -> (u64, u64) {
    let (mut n, mut ood) = (0u64, 0u64);
    for m in methods() {
        for d in dialects {
            if !m.dialects.contains(d) {
                ood += 1;
                continue;
            }
            let reference = reference_text(&m, *d);
            let real = catch(|| {
                let mut s = Query::select();
                s.expr((m.build)()).from(a("t1"));
                crate::props::c08::render_any(&s, *d, false)
            });
            n += 1;
            let mut fail = |sig: &str, detail: String| {
                rep.raw_failures.inc();
                rep.violation(Violation { key: format!("expr-method|{}|{sig}|{}", d.name(), m.name), what: format!("{} {}: {detail}", d.name(), m.name), case: json!({"kind": "expr-method", "name": m.name, "dialect": d.name()}) });
            };
            let real = match real {
                Ok(s) => s,
                Err(p) => {
                    fail("render-panic", format!("rendering panicked: {p}"));
                    continue;
                }
            };
            if *d == Dialect::Sqlite {
                // MATCH needs a full-text table and CURRENT_* change between calls: acceptance only
                let acceptance_only = m.name == "SqliteExpr::matches" || m.name.starts_with("Expr::current_");
                let want = with_db(|db| db.query(&reference, &[]));
                let got = with_db(|db| db.query(&real, &[]));
                match (want, got) {
                    (Err(e), _) if acceptance_only && e.contains("unable to use function MATCH") => {
                        // the engine parsed both; MATCH has no implementation outside FTS tables
                        let g = with_db(|db| db.query(&real, &[])).err().unwrap_or_default();
                        if !g.contains("unable to use function MATCH") {
                            fail("engine-verdict-differs", format!("{real:?}: {g}; the reference {reference:?}: {e}"));
                        }
                    }
                    (Err(e), _) => {
                        eprintln!("MACHINERY FAILURE: the reference {reference:?} of {} is rejected by the engine: {e}", m.name);
                        std::process::exit(3);
                    }
                    (Ok(_), Err(e)) => fail("engine-rejects-inline", format!("sqlite3 rejects {real:?}: {e}; the reference {reference:?} is accepted")),
                    (Ok(w), Ok(g)) => {
                        if !acceptance_only && row_list(&w) != row_list(&g) {
                            fail("rows-differ-inline", format!("{real:?} returns {:?}, the reference {reference:?} returns {:?}", row_list(&g), row_list(&w)));
                        }
                    }
                }
            } else if let Some(f) = crate::props::c08::compare(*d, "to_string", &real, &reference) {
                if f.sig.starts_with("MACHINERY") {
                    eprintln!("MACHINERY FAILURE: {}", f.detail);
                    std::process::exit(3);
                }
                fail(&f.sig, f.detail);
            }
        }
    }
    (n, ood)
}

pub fn replay(case: &serde_json::Value) -> Option<String> {
    let rep = Arc::new(Report::new("C07", "quick"));
    let d = Dialect::from_name(case["dialect"].as_str().unwrap_or("sqlite"));
    run(&rep, &[d]);
    rep.find_violation(&format!("expr-method|{}|", d.name())).filter(|v| v.contains(case["name"].as_str().unwrap_or("")))
}
