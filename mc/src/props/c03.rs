//! C03 — inlined text / binary literals decode to exactly the supplied value (DESIGN §3.3).
//!
//! Space: the trie of all strings over Σ_esc up to length n, every Unicode scalar as `char`, all
//! byte strings up to length 2 (+ every byte in a frame), x 3 backends x every inlining position.
//! Oracle: differential against a benign marker — same token skeleton under the dialect's
//! reference lexer, one literal token in the marker's slot, decoded content == supplied value.
//! On SQLite the real engine decodes too.

use crate::enumerate::for_each_string;
use crate::lex::{lex, pg_bytea_hex, skeleton, Dialect, Tok, DIALECTS};
use crate::props::c17::SIGMA_ESC;
use crate::report::{minimize, string_reductions_in, Report, Violation};
use crate::sqlite::{Db, SqlVal};
use crate::util::{catch, par_range, show, Counter};
use sea_query::extension::postgres::Type;
use sea_query::*;
use serde_json::json;
use std::cell::RefCell;
use std::collections::HashMap;
use std::sync::Arc;

#[derive(Clone, Debug, PartialEq)]
pub enum Lit {
    Text(String),
    Char(char),
    Bytes(Vec<u8>),
}
impl Lit {
    fn show(&self) -> String {
        match self {
            Lit::Text(s) => format!("text:{}", show(s)),
            Lit::Char(c) => format!("char:{}", show(&c.to_string())),
            Lit::Bytes(b) => format!("bytes:{:02x?}", b),
        }
    }
    fn to_json(&self) -> serde_json::Value {
        match self {
            Lit::Text(s) => json!({"text": s}),
            Lit::Char(c) => json!({"char": c.to_string()}),
            Lit::Bytes(b) => json!({"bytes": b}),
        }
    }
    fn from_json(j: &serde_json::Value) -> Lit {
        if let Some(s) = j["text"].as_str() {
            Lit::Text(s.to_string())
        } else if let Some(s) = j["char"].as_str() {
            Lit::Char(s.chars().next().unwrap_or('a'))
        } else {
            Lit::Bytes(j["bytes"].as_array().map(|a| a.iter().map(|x| x.as_u64().unwrap_or(0) as u8).collect()).unwrap_or_default())
        }
    }
    fn has_nul(&self) -> bool {
        match self {
            Lit::Text(s) => s.contains('\0'),
            Lit::Char(c) => *c == '\0',
            Lit::Bytes(_) => false,
        }
    }
    fn value(&self) -> Value {
        match self {
            Lit::Text(s) => s.clone().into(),
            Lit::Char(c) => (*c).into(),
            Lit::Bytes(b) => b.clone().into(),
        }
    }
    fn text(&self) -> String {
        match self {
            Lit::Text(s) => s.clone(),
            Lit::Char(c) => c.to_string(),
            Lit::Bytes(_) => String::new(),
        }
    }
}

#[derive(Clone, Copy, PartialEq, Debug)]
enum Kind {
    Text,
    Char,
    Bytes,
}

macro_rules! qb {
    ($d:expr, $stmt:expr) => {
        match $d {
            Dialect::Mysql => $stmt.to_string(MysqlQueryBuilder),
            Dialect::Postgres => $stmt.to_string(PostgresQueryBuilder),
            Dialect::Sqlite => $stmt.to_string(SqliteQueryBuilder),
        }
    };
}

fn a(s: &str) -> Alias {
    Alias::new(s)
}

#[derive(Clone, Copy)]
pub struct Pos {
    name: &'static str,
    kind: Kind,
    dialects: &'static [Dialect],
    /// how the supplied value is expected to sit inside the decoded literal
    wrap: Wrap,
    /// length bound relative to the tier's n (0 = full)
    shorter: usize,
    /// 0 = none, 1 = SELECT and read the value back, 2 = CREATE TABLE + default row read back
    engine: u8,
    render: fn(&Lit, Dialect) -> String,
}
#[derive(Clone, Copy, PartialEq)]
enum Wrap {
    Plain,
    Json,
}

const ALL: &[Dialect] = &[Dialect::Mysql, Dialect::Postgres, Dialect::Sqlite];
const MY: &[Dialect] = &[Dialect::Mysql];
const PG: &[Dialect] = &[Dialect::Postgres];

fn positions() -> Vec<Pos> {
    let mut v: Vec<Pos> = vec![];
    for kind in [Kind::Text, Kind::Char, Kind::Bytes] {
        v.push(Pos { name: "query-value", kind, dialects: ALL, wrap: Wrap::Plain, shorter: 0, engine: 1, render: |l, d| qb!(d, Query::select().expr(Expr::val(l.value()))) });
        v.push(Pos { name: "constant", kind, dialects: ALL, wrap: Wrap::Plain, shorter: 1, engine: 1, render: |l, d| qb!(d, Query::select().expr(SimpleExpr::Constant(l.value()))) });
        v.push(Pos {
            name: "order-by-field",
            kind,
            dialects: ALL,
            wrap: Wrap::Plain,
            shorter: 1,
            engine: 0,
            render: |l, d| qb!(d, Query::select().column(a("c")).from(a("t")).order_by(a("c"), Order::Field(Values(vec![Value::from("x"), l.value(), Value::from("y")])))),
        });
        v.push(Pos { name: "where-value", kind, dialects: ALL, wrap: Wrap::Plain, shorter: 1, engine: 0, render: |l, d| qb!(d, Query::select().column(a("c")).from(a("t")).and_where(Expr::col(a("c")).eq(Expr::val(l.value())))) });
        v.push(Pos { name: "in-list", kind, dialects: ALL, wrap: Wrap::Plain, shorter: 1, engine: 0, render: |l, d| qb!(d, Query::select().column(a("c")).from(a("t")).and_where(Expr::col(a("c")).is_in([Value::from("x"), l.value()]))) });
        v.push(Pos { name: "insert-value", kind, dialects: ALL, wrap: Wrap::Plain, shorter: 1, engine: 0, render: |l, d| qb!(d, Query::insert().into_table(a("t")).columns([a("c")]).values_panic([Expr::val(l.value()).into()])) });
        v.push(Pos { name: "update-value", kind, dialects: ALL, wrap: Wrap::Plain, shorter: 1, engine: 0, render: |l, d| qb!(d, Query::update().table(a("t")).value(a("c"), Expr::val(l.value()))) });
        v.push(Pos { name: "column-default", kind, dialects: ALL, wrap: Wrap::Plain, shorter: 1, engine: 2, render: |l, d| qb!(d, Table::create().table(a("t")).col(ColumnDef::new(a("c")).string().default(l.value()))) });
    }
    // text-only positions
    v.push(Pos { name: "like-pattern", kind: Kind::Text, dialects: ALL, wrap: Wrap::Plain, shorter: 1, engine: 0, render: |l, d| qb!(d, Query::select().column(a("c")).from(a("t")).and_where(Expr::col(a("c")).like(LikeExpr::new(l.text())))) });
    v.push(Pos { name: "like-pattern-with-escape", kind: Kind::Text, dialects: ALL, wrap: Wrap::Plain, shorter: 1, engine: 0, render: |l, d| qb!(d, Query::select().column(a("c")).from(a("t")).and_where(Expr::col(a("c")).like(LikeExpr::new(l.text()).escape('|')))) });
    v.push(Pos {
        name: "like-escape-char",
        kind: Kind::Char,
        dialects: ALL,
        wrap: Wrap::Plain,
        shorter: 0,
        engine: 0,
        render: |l, d| {
            let c = if let Lit::Char(c) = l { *c } else { 'x' };
            qb!(d, Query::select().column(a("c")).from(a("t")).and_where(Expr::col(a("c")).like(LikeExpr::new("p").escape(c))))
        },
    });
    v.push(Pos { name: "json-string", kind: Kind::Text, dialects: ALL, wrap: Wrap::Json, shorter: 1, engine: 0, render: |l, d| qb!(d, Query::select().expr(Expr::val(serde_json::Value::String(l.text())))) });
    v.push(Pos { name: "array-element", kind: Kind::Text, dialects: PG, wrap: Wrap::Plain, shorter: 1, engine: 0, render: |l, d| qb!(d, Query::select().expr(Expr::val(vec!["x".to_string(), l.text()]))) });
    v.push(Pos { name: "array-element", kind: Kind::Bytes, dialects: PG, wrap: Wrap::Plain, shorter: 1, engine: 0, render: |l, d| qb!(d, Query::select().expr(Expr::val(vec![vec![1u8], if let Lit::Bytes(b) = l { b.clone() } else { vec![] }]))) });
    v.push(Pos { name: "mysql-column-comment", kind: Kind::Text, dialects: MY, wrap: Wrap::Plain, shorter: 1, engine: 0, render: |l, d| qb!(d, Table::create().table(a("t")).col(ColumnDef::new(a("c")).string().comment(l.text()))) });
    v.push(Pos { name: "mysql-table-comment", kind: Kind::Text, dialects: MY, wrap: Wrap::Plain, shorter: 1, engine: 0, render: |l, d| qb!(d, Table::create().table(a("t")).col(ColumnDef::new(a("c")).string()).comment(l.text())) });
    v.push(Pos {
        name: "mysql-enum-label",
        kind: Kind::Text,
        dialects: MY,
        wrap: Wrap::Plain,
        shorter: 1,
        engine: 0,
        render: |l, d| qb!(d, Table::create().table(a("t")).col(ColumnDef::new(a("c")).enumeration(a("e"), [a("x"), Alias::new(l.text()), a("y")]))),
    });
    v.push(Pos { name: "pg-create-type-label", kind: Kind::Text, dialects: PG, wrap: Wrap::Plain, shorter: 1, engine: 0, render: |l, _| Type::create().as_enum(a("e")).values([a("x"), Alias::new(l.text())]).to_string(PostgresQueryBuilder) });
    v.push(Pos { name: "pg-alter-type-add-value", kind: Kind::Text, dialects: PG, wrap: Wrap::Plain, shorter: 1, engine: 0, render: |l, _| Type::alter().name(a("e")).add_value(Alias::new(l.text())).to_string(PostgresQueryBuilder) });
    v.push(Pos { name: "pg-alter-type-add-value-before", kind: Kind::Text, dialects: PG, wrap: Wrap::Plain, shorter: 1, engine: 0, render: |l, _| Type::alter().name(a("e")).add_value(a("n")).before(Alias::new(l.text())).to_string(PostgresQueryBuilder) });
    v.push(Pos { name: "pg-alter-type-add-value-after", kind: Kind::Text, dialects: PG, wrap: Wrap::Plain, shorter: 1, engine: 0, render: |l, _| Type::alter().name(a("e")).add_value(a("n")).after(Alias::new(l.text())).to_string(PostgresQueryBuilder) });
    v.push(Pos { name: "pg-alter-type-rename-value-from", kind: Kind::Text, dialects: PG, wrap: Wrap::Plain, shorter: 1, engine: 0, render: |l, _| Type::alter().name(a("e")).rename_value(Alias::new(l.text()), a("n")).to_string(PostgresQueryBuilder) });
    v.push(Pos { name: "pg-alter-type-rename-value-to", kind: Kind::Text, dialects: PG, wrap: Wrap::Plain, shorter: 1, engine: 0, render: |l, _| Type::alter().name(a("e")).rename_value(a("o"), Alias::new(l.text())).to_string(PostgresQueryBuilder) });
    v
}

fn marker(kind: Kind) -> Lit {
    match kind {
        Kind::Text => Lit::Text("m4rk3r".into()),
        Kind::Char => Lit::Char('m'),
        Kind::Bytes => Lit::Bytes(vec![0x6d, 0x34]),
    }
}

/// does token `t` carry `lit` under dialect `d` (and position wrap)?
fn carries(d: Dialect, wrap: Wrap, t: &Tok, lit: &Lit) -> bool {
    match (lit, t) {
        (Lit::Bytes(b), Tok::Blob(x)) => d != Dialect::Postgres && x == b,
        (Lit::Bytes(b), Tok::Str(s)) => d == Dialect::Postgres && pg_bytea_hex(s).as_deref() == Some(&b[..]),
        (Lit::Text(_) | Lit::Char(_), Tok::Str(s)) => match wrap {
            Wrap::Plain => *s == lit.text(),
            Wrap::Json => serde_json::from_str::<serde_json::Value>(s).ok() == Some(serde_json::Value::String(lit.text())),
        },
        _ => false,
    }
}

thread_local! {
    static SKEL: RefCell<HashMap<(usize, Dialect), (Vec<String>, usize)>> = RefCell::new(HashMap::new());
    static DB: RefCell<Option<Db>> = RefCell::new(None);
}

/// skeleton of the position with the benign marker, and the index of the marker's token
fn marker_skeleton(pi: usize, p: &Pos, d: Dialect) -> Result<(Vec<String>, usize), String> {
    if let Some(x) = SKEL.with(|c| c.borrow().get(&(pi, d)).cloned()) {
        return Ok(x);
    }
    let m = marker(p.kind);
    let sql = catch(|| (p.render)(&m, d)).map_err(|e| format!("marker render panicked: {e}"))?;
    let toks = lex(d, &sql).map_err(|e| format!("marker rendering {sql:?} does not lex: {}", e.msg))?;
    let slots: Vec<usize> = toks.iter().enumerate().filter(|(_, t)| carries(d, p.wrap, &t.tok, &m)).map(|(i, _)| i).collect();
    if slots.len() != 1 {
        return Err(format!("marker rendering {sql:?} has {} candidate literal slots", slots.len()));
    }
    let r = (skeleton(&toks), slots[0]);
    SKEL.with(|c| c.borrow_mut().insert((pi, d), r.clone()));
    Ok(r)
}

/// The oracle for one (position, dialect, literal). Err((signature, detail)).
pub fn check_one(pi: usize, p: &Pos, d: Dialect, lit: &Lit, engine_runs: &Counter) -> Result<(), (String, String)> {
    let (sk0, slot) = marker_skeleton(pi, p, d).map_err(|e| ("machinery".to_string(), e))?;
    let sql = match catch(|| (p.render)(lit, d)) {
        Ok(s) => s,
        Err(e) => return Err(("panic".into(), format!("rendering panicked: {e}"))),
    };
    let toks = lex(d, &sql).map_err(|e| ("does-not-lex".to_string(), format!("{sql:?}: {} at byte {}", e.msg, e.at)))?;
    let sk = skeleton(&toks);
    if sk != sk0 {
        return Err(("literal-escapes-its-token".into(), format!("{sql:?} lexes to a different token sequence than with a benign value: {:?}", sk)));
    }
    if !carries(d, p.wrap, &toks[slot].tok, lit) {
        return Err(("decoded-differs".into(), format!("{sql:?}: literal token decodes to {:?}, supplied {}", toks[slot].tok, lit.show())));
    }
    if d == Dialect::Sqlite && p.engine > 0 && std::env::var("C03_NO_ENGINE").is_err() {
        engine_runs.inc();
        let want = match lit {
            Lit::Bytes(b) => SqlVal::Blob(b.clone()),
            _ => SqlVal::Text(lit.text().into_bytes()),
        };
        let got = DB.with(|c| {
            let mut g = c.borrow_mut();
            let db = g.get_or_insert_with(Db::open_memory);
            if p.engine == 1 {
                db.query(&sql, &[]).map(|r| r.rows.get(0).and_then(|r| r.get(0)).cloned())
            } else {
                db.exec("DROP TABLE IF EXISTS \"t\"").ok();
                db.exec(&sql)?;
                db.exec("INSERT INTO \"t\" DEFAULT VALUES")?;
                db.query("SELECT \"c\" FROM \"t\"", &[]).map(|r| r.rows.get(0).and_then(|r| r.get(0)).cloned())
            }
        });
        match got {
            Ok(Some(v)) if v == want => {}
            other => return Err(("engine-decodes-differently".into(), format!("sqlite3 on {sql:?}: {:?}, expected {:?}", other, want))),
        }
    }
    Ok(())
}

fn lit_reductions(l: &Lit) -> Vec<Lit> {
    match l {
        Lit::Text(s) => string_reductions_in(s, SIGMA_ESC).into_iter().map(Lit::Text).collect(),
        Lit::Char(c) => ['a', '\'', '\\', '\u{80}', '\u{100}', '\u{800}', '\u{10000}'].into_iter().filter(|x| (*x as u32) < (*c as u32) || (*c != 'a' && *x == 'a')).filter(|x| x != c).map(Lit::Char).collect(),
        Lit::Bytes(b) => {
            let mut out = vec![];
            for i in 0..b.len() {
                let mut t = b.clone();
                t.remove(i);
                out.push(Lit::Bytes(t));
            }
            for i in 0..b.len() {
                for r in [0x61u8, 0x00, 0x27] {
                    if b[i] != r && (r == 0x61 || b[i] > r) {
                        let mut t = b.clone();
                        t[i] = r;
                        out.push(Lit::Bytes(t));
                    }
                }
            }
            out
        }
    }
}

/// `m` can be reached from `l` by the reductions: deleting chars and replacing a char by a lower-ranked one (rank =
/// index in the alphabet, chars outside it rank above it by code point) - i.e. `m` matches a subsequence of `l` whose
/// chars are equal or higher-ranked
fn reduces_to(l: &Lit, m: &Lit) -> bool {
    fn rank(c: char) -> u32 {
        match SIGMA_ESC.iter().position(|x| *x == c) {
            Some(i) => i as u32,
            None => 1000 + c as u32,
        }
    }
    fn subseq_text(m: &str, l: &str) -> bool {
        let mut it = m.chars().peekable();
        for x in l.chars() {
            match it.peek() {
                Some(w) if *w == x || rank(x) > rank(*w) => {
                    it.next();
                }
                Some(_) => {}
                None => break,
            }
        }
        it.peek().is_none()
    }
    fn subseq_bytes(m: &[u8], l: &[u8]) -> bool {
        let mut i = 0;
        for x in l {
            // bytes reduce to 0x61, 0x00, 0x27 when larger
            if i < m.len() && (m[i] == *x || (matches!(m[i], 0x61 | 0x00 | 0x27) && (m[i] == 0x61 || *x > m[i]))) {
                i += 1;
            }
        }
        i == m.len()
    }
    match (l, m) {
        (Lit::Text(a), Lit::Text(b)) => subseq_text(b, a),
        (Lit::Bytes(a), Lit::Bytes(b)) => subseq_bytes(b, a),
        (Lit::Char(a), Lit::Char(b)) => b <= a && !a.is_ascii(),
        _ => false,
    }
}

type MinKey = (usize, Dialect, String);
static KNOWN_MIN: std::sync::RwLock<Option<std::collections::HashMap<MinKey, Vec<Lit>>>> = std::sync::RwLock::new(None);
/// beyond this many distinct minimal cases for one (position, dialect, signature) further failing cases are only counted
const MAX_MIN_PER_KEY: usize = 48;

fn record(rep: &Report, pi: usize, p: &Pos, d: Dialect, lit: &Lit, sig: &str, er: &Counter) {
    rep.raw_failures.inc();
    // a failing case that reduces to an already recorded minimal case with the same signature adds nothing
    let key: MinKey = (pi, d, sig.to_string());
    {
        let g = KNOWN_MIN.read().unwrap();
        if let Some(v) = g.as_ref().and_then(|m| m.get(&key)) {
            if v.len() >= MAX_MIN_PER_KEY || v.iter().any(|m| reduces_to(lit, m)) {
                return;
            }
        }
    }
    let min = minimize(lit.clone(), sig, lit_reductions, |l| {
        if l.has_nul() && d != Dialect::Mysql {
            return None;
        }
        check_one(pi, p, d, l, er).err().map(|e| e.0)
    });
    let detail = check_one(pi, p, d, &min, er).err().map(|e| e.1).unwrap_or_default();
    {
        let mut g = KNOWN_MIN.write().unwrap();
        let v = g.get_or_insert_with(Default::default).entry(key).or_default();
        if v.contains(&min) {
            return;
        }
        v.push(min.clone());
    }
    rep.violation(Violation {
        key: format!("{}|{}|{}|{}", p.name, d.name(), sig, min.show()),
        what: format!("{} on {}: value {}: {}", p.name, d.name(), min.show(), detail),
        case: json!({"position": p.name, "kind": format!("{:?}", p.kind), "dialect": d.name(), "lit": min.to_json()}),
    });
}

pub fn run(rep: &Arc<Report>) {
    let n = if rep.thorough() { 5 } else { 4 };
    let poss = positions();
    let evals = Counter::new();
    let engine_runs = Counter::new();
    let skipped_nul = Counter::new();
    let mut alphabet: Vec<char> = SIGMA_ESC.to_vec();
    alphabet.push('\0');
    let visit = |lit: &Lit, max_len_of_lit: usize| {
        for (pi, p) in poss.iter().enumerate() {
            // the sweep over all Unicode scalars runs on two positions; the other char positions
            // (same value_to_string path) get ASCII plus the class representatives
            if let Lit::Char(c) = lit {
                let rep_char = c.is_ascii() || matches!(*c as u32, 0x80 | 0xe9 | 0xff | 0x100 | 0x7ff | 0x800 | 0xffff | 0x10000 | 0x1f600 | 0x10ffff);
                if !rep_char && !(p.name == "query-value" || p.name == "like-escape-char") {
                    continue;
                }
            }
            let k = match lit {
                Lit::Text(_) => Kind::Text,
                Lit::Char(_) => Kind::Char,
                Lit::Bytes(_) => Kind::Bytes,
            };
            if p.kind != k || max_len_of_lit + p.shorter > n {
                continue;
            }
            for &d in p.dialects {
                if lit.has_nul() && d != Dialect::Mysql {
                    skipped_nul.inc();
                    continue;
                }
                evals.inc();
                if let Err((sig, _)) = check_one(pi, p, d, lit, &engine_runs) {
                    record(rep, pi, p, d, lit, &sig, &engine_runs);
                }
            }
        }
    };
    // text: the trie over Σ_esc ∪ {NUL}
    let (states, transitions) = for_each_string(&alphabet, n, |_w, s| {
        let len = s.chars().count();
        visit(&Lit::Text(s.to_string()), len);
    });
    // every Unicode scalar as char, and as a 1-char text inside a frame
    let chars: Vec<u32> = (0..=0x10FFFFu32).filter(|c| char::from_u32(*c).is_some()).collect();
    par_range(chars.len() as u64, 2048, |_w, i| {
        let c = char::from_u32(chars[i as usize]).unwrap();
        visit(&Lit::Char(c), 0);
        visit(&Lit::Text(format!("a{c}'")), 1);
    });
    // texts that read like SQL keywords, constants, numbers or placeholders: they are text all the same
    for w in ["null", "NULL", "Null", "true", "FALSE", "default", "DEFAULT", "CURRENT_TIMESTAMP", "current_date", "CURRENT_TIME", "CURRENT_USER", "now()", "0", "-1", "1e3", "0x1F", "?", "$1", "NaN", "infinity", "''", "x'00'", "E'a'"] {
        visit(&Lit::Text(w.to_string()), 0);
    }
    // bytes: all byte strings up to length 2, every byte in a frame
    let bytes_cases = Counter::new();
    par_range(65536 + 256 + 1, 512, |_w, i| {
        let b: Vec<u8> = if i == 0 {
            vec![]
        } else if i <= 256 {
            vec![(i - 1) as u8]
        } else {
            let x = i - 257;
            vec![(x >> 8) as u8, (x & 0xff) as u8]
        };
        bytes_cases.inc();
        visit(&Lit::Bytes(b.clone()), if b.len() == 2 { 1 } else { 0 });
        if b.len() == 1 {
            visit(&Lit::Bytes(vec![0x27, b[0], 0x5c, 0x00, b[0]]), 0);
            // longer strings of distinct bytes (writers that work in groups of 4 / 8 / 16 bytes): the byte at every offset of
            // frames of length 7, 8, 9, 15, 16, 17, 33
            if b[0] < 34 {
                for len in [7usize, 8, 9, 15, 16, 17, 33] {
                    let k = b[0] as usize;
                    if k < len {
                        let mut f: Vec<u8> = (0..len).map(|i| 0xA0u8.wrapping_add(i as u8)).collect();
                        f[k] = 0x0F;
                        visit(&Lit::Bytes(f), 0);
                    }
                }
            }
        }
    });
    // long payloads: every text / byte position x dialect x filler pattern x length around the powers of two up to 4096
    // (thorough: 65537) - anything keyed on the size of the value or of its escaped form (truncation, chunking, a width in a
    // format string) sees a length on both sides of its threshold, with an escape pair straddling it in either phase.
    // Not minimised character by character: lengths are tried in ascending order and the first failing one is reported.
    let mut lens: Vec<usize> = vec![63, 64, 65, 255, 256, 257, 1023, 1024, 1025, 2047, 2048, 2049, 4095, 4096, 4097];
    if rep.thorough() {
        lens.extend([16383, 16384, 16385, 65535, 65536, 65537]);
    }
    let text_fillers: [&str; 6] = ["a", "'", "\\", "\u{e9}", "a'", "'a"];
    let byte_fillers: [&[u8]; 3] = [&[0x0a], &[0x27, 0x00], &[0x5c, 0xff, 0x0f]];
    let long_cases = Counter::new();
    let mut long_jobs: Vec<(usize, Dialect, usize)> = vec![];
    for (pi, p) in poss.iter().enumerate() {
        if p.kind == Kind::Char {
            continue;
        }
        for &d in p.dialects {
            let nf = if p.kind == Kind::Text { text_fillers.len() } else { byte_fillers.len() };
            for f in 0..nf {
                long_jobs.push((pi, d, f));
            }
        }
    }
    crate::util::par_items(&long_jobs, |_w, (pi, d, f)| {
        let p = &poss[*pi];
        for &len in &lens {
            let lit = if p.kind == Kind::Text {
                Lit::Text(text_fillers[*f].chars().cycle().take(len).collect())
            } else {
                Lit::Bytes(byte_fillers[*f].iter().copied().cycle().take(len).collect())
            };
            long_cases.inc();
            evals.inc();
            if let Err((sig, det)) = check_one(*pi, p, *d, &lit, &engine_runs) {
                rep.raw_failures.inc();
                let filler = if p.kind == Kind::Text { show(text_fillers[*f]) } else { format!("{:02x?}", byte_fillers[*f]) };
                let det: String = det.chars().take(600).collect();
                rep.violation(Violation {
                    key: format!("{}|{}|{}|long-payload {} x {}", p.name, d.name(), sig, filler, len),
                    what: format!("{} on {}: value of {} repetitions of {}: {}", p.name, d.name(), len, filler, det),
                    case: json!({"position": p.name, "kind": format!("{:?}", p.kind), "dialect": d.name(), "lit": lit.to_json()}),
                });
                break;
            }
        }
    });
    rep.set("long_payload_cases", json!(long_cases.get()));
    rep.set("long_payload_lengths", json!(lens));
    rep.set("alphabet", json!(alphabet.iter().map(|c| show(&c.to_string())).collect::<Vec<_>>()));
    rep.set("max_len", json!(n));
    rep.set("positions", json!(poss.iter().map(|p| format!("{}/{:?}", p.name, p.kind)).collect::<Vec<_>>()));
    rep.set("states", json!(states + chars.len() as u64 * 2 + bytes_cases.get()));
    rep.set("transitions", json!(transitions + chars.len() as u64 * 2 + bytes_cases.get()));
    rep.set("evaluations", json!(evals.get()));
    rep.set("traces_validated_against_impl", json!(engine_runs.get()));
    rep.set("sqlite_engine_decodes", json!(engine_runs.get()));
    rep.set("skipped_nul_where_engine_has_no_representation", json!(skipped_nul.get()));
    rep.set("distinct_nontrivial", json!(evals.get()));
    rep.set("rule", json!("each (value, position, dialect) triple is one case: rendered by the real code, lexed by the dialect's reference lexer, compared with the marker skeleton and decoded; traces_validated_against_impl = cases additionally decoded by the real SQLite engine (which also validates the SQLite reference lexer)"));
    rep.set("exhaustive", json!(true));
    rep.set("sqlite_version", json!(crate::sqlite::version()));
    for (l, d) in [(Lit::Text("a\\'b".into()), Dialect::Postgres), (Lit::Text("\t%_\"".into()), Dialect::Mysql), (Lit::Bytes(vec![0, 39, 255]), Dialect::Postgres), (Lit::Text("it's".into()), Dialect::Sqlite)] {
        let p = &poss[match l {
            Lit::Bytes(_) => poss.iter().position(|p| p.kind == Kind::Bytes).unwrap(),
            _ => 0,
        }];
        rep.sample(json!({"value": l.show(), "dialect": d.name(), "position": p.name, "sql": catch(|| (p.render)(&l, d)).unwrap_or_default()}));
    }
    rep.assume("MySQL default sql_mode (backslash escapes on, ANSI_QUOTES off); PostgreSQL standard_conforming_strings=on; lexical rules transcribed from the manuals (no MySQL/PG engine offline)");
}

pub fn replay(case: &serde_json::Value) -> Option<String> {
    let poss = positions();
    let name = case["position"].as_str().unwrap_or("");
    let kind = case["kind"].as_str().unwrap_or("");
    let d = Dialect::from_name(case["dialect"].as_str().unwrap_or("sqlite"));
    let lit = Lit::from_json(&case["lit"]);
    let (pi, p) = poss.iter().enumerate().find(|(_, p)| p.name == name && format!("{:?}", p.kind) == kind)?;
    let er = Counter::new();
    check_one(pi, p, d, &lit, &er).err().map(|(sig, det)| format!("{} on {}: value {}: [{}] {}", name, d.name(), lit.show(), sig, det))
}

#[allow(dead_code)]
fn _unused() {
    let _ = DIALECTS;
}
