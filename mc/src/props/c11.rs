//! C11 — custom SQL templates and inject_parameters replace exactly the placeholders (DESIGN §3.11).
//!
//! Space: the trie of all templates over Σ_tpl up to length n x value lists of length 0..3 x 3
//! backends, through the real `Expr::cust_with_values`. Oracle: an independent expander written
//! from the property's words (quote-aware scan; `??`/`$$` literal; `?` positional; `$n` numbered).

use crate::enumerate::for_each_string;
use crate::lex::{Dialect, DIALECTS};
use crate::report::{minimize, string_reductions_in, Report, Violation};
use crate::util::{catch, show, Counter};
use sea_query::*;
use serde_json::json;
use std::sync::Arc;

pub const SIGMA_TPL: &[char] = &['a', '1', '2', '?', '$', ' ', '\'', '"', '\\', 'é'];

#[derive(Debug, PartialEq, Clone)]
pub enum Piece {
    Text(String),
    /// index into the supplied value list
    Val(usize),
}

#[derive(Debug, PartialEq)]
pub enum RefOut {
    Pieces(Vec<Piece>),
    /// the template is outside the property's domain (designates a missing value, `$1a`, ...)
    OutOfDomain(&'static str),
}

/// identifier characters of the engines: letters (also non-Latin ones), the digits 0-9, `_` and `$`; other numeric
/// characters (superscripts, fractions, ..) are no identifier characters anywhere
fn is_word(c: char) -> bool {
    c.is_alphabetic() || c.is_ascii_digit() || c == '_' || c == '$'
}

/// Reference expander, from the statement of the property. Quoted text is what the TARGET ENGINE reads as quoted:
/// '..', ".." and `..` everywhere; [..] is a bracketed identifier on SQLite, but an array subscript / constructor -
/// ordinary punctuation - on PostgreSQL (`ARRAY[$1, $2]`, `col[$1]`). `[` is no MySQL token at all, so there the
/// tokenizer's reading is kept.
pub fn expand(d: Dialect, tpl: &str, nvals: usize) -> RefOut {
    expand_with(d, tpl, nvals, d != Dialect::Postgres)
}

/// `brackets_quote`: whether [..] is read as quoted text (the dialect-blind tokenizer's reading).
pub fn expand_with(d: Dialect, tpl: &str, nvals: usize, brackets_quote: bool) -> RefOut {
    let cs: Vec<char> = tpl.chars().collect();
    let mut out: Vec<Piece> = vec![];
    let mut text = String::new();
    let mut next_pos = 0usize;
    let mut i = 0;
    let numbered = d == Dialect::Postgres;
    macro_rules! flush {
        () => {
            if !text.is_empty() {
                out.push(Piece::Text(std::mem::take(&mut text)));
            }
        };
    }
    while i < cs.len() {
        let c = cs[i];
        // quoted text: copied verbatim to the matching close (doubled / backslash-escaped delimiters inside)
        if matches!(c, '\'' | '"' | '`') || (c == '[' && brackets_quote) {
            let close = if c == '[' { ']' } else { c };
            text.push(c);
            i += 1;
            let mut esc = false;
            while i < cs.len() {
                let e = cs[i];
                if !esc && e == close {
                    if c != '[' && i + 1 < cs.len() && cs[i + 1] == close {
                        text.push(e);
                        text.push(e);
                        i += 2;
                        continue;
                    }
                    text.push(e);
                    i += 1;
                    break;
                }
                esc = !esc && e == '\\';
                text.push(e);
                i += 1;
            }
            continue;
        }
        // a word (identifier / number) is copied as a whole; `$` may be part of an identifier
        if c.is_alphabetic() || c.is_ascii_digit() {
            let start = i;
            while i < cs.len() && is_word(cs[i]) {
                i += 1;
            }
            let w: String = cs[start..i].iter().collect();
            if numbered && c.is_ascii_digit() && w.contains('$') {
                return RefOut::OutOfDomain("digits directly followed by $ (the engine would read a number and a parameter)");
            }
            text.push_str(&w);
            continue;
        }
        if !numbered && c == '?' {
            if i + 1 < cs.len() && cs[i + 1] == '?' {
                text.push('?');
                i += 2;
                continue;
            }
            if next_pos >= nvals {
                return RefOut::OutOfDomain("designates a value that was not supplied");
            }
            flush!();
            out.push(Piece::Val(next_pos));
            next_pos += 1;
            i += 1;
            continue;
        }
        if numbered && c == '$' {
            if i + 1 < cs.len() && cs[i + 1] == '$' {
                text.push('$');
                i += 2;
                continue;
            }
            if i + 1 < cs.len() && cs[i + 1].is_ascii_digit() {
                let start = i + 1;
                let mut j = start;
                while j < cs.len() && is_word(cs[j]) {
                    j += 1;
                }
                let w: String = cs[start..j].iter().collect();
                if !w.chars().all(|x| x.is_ascii_digit()) {
                    return RefOut::OutOfDomain("$<digits> directly followed by identifier characters");
                }
                let Ok(n) = w.parse::<usize>() else { return RefOut::OutOfDomain("number too large") };
                if n == 0 || n > nvals {
                    return RefOut::OutOfDomain("designates a value that was not supplied");
                }
                flush!();
                out.push(Piece::Val(n - 1));
                i = j;
                continue;
            }
            // `$` not followed by `$` or digits is not a placeholder: every other character is emitted unchanged
            text.push('$');
            i += 1;
            continue;
        }
        text.push(c);
        i += 1;
    }
    flush!();
    RefOut::Pieces(out)
}

fn tag(i: usize) -> i32 {
    101 + i as i32
}

fn stmt(tpl: &str, nvals: usize) -> SelectStatement {
    Query::select().expr(Expr::cust_with_values(tpl, (0..nvals).map(tag))).to_owned()
}

fn render(d: Dialect, s: &SelectStatement) -> Result<(String, String, Vec<Value>), String> {
    catch(|| match d {
        Dialect::Mysql => {
            let (b, v) = s.build(MysqlQueryBuilder);
            (s.to_string(MysqlQueryBuilder), b, v.0)
        }
        Dialect::Postgres => {
            let (b, v) = s.build(PostgresQueryBuilder);
            (s.to_string(PostgresQueryBuilder), b, v.0)
        }
        Dialect::Sqlite => {
            let (b, v) = s.build(SqliteQueryBuilder);
            (s.to_string(SqliteQueryBuilder), b, v.0)
        }
    })
}

fn inject(d: Dialect, sql: &str, vals: Vec<Value>) -> Result<String, String> {
    catch(|| match d {
        Dialect::Mysql => inject_parameters(sql, vals, &MysqlQueryBuilder),
        Dialect::Postgres => inject_parameters(sql, vals, &PostgresQueryBuilder),
        Dialect::Sqlite => inject_parameters(sql, vals, &SqliteQueryBuilder),
    })
}

/// Ok(true) = checked, Ok(false) = out of domain
pub fn check_one(d: Dialect, tpl: &str, nvals: usize, watch: Option<&Counter>) -> Result<bool, (String, String)> {
    let r = check_one_with(d, tpl, nvals, watch, d != Dialect::Postgres);
    if let Err((sig, det)) = &r {
        // the oracle names one input class itself: on PostgreSQL the real code agrees with the reference that
        // (like the dialect-blind tokenizer) reads [..] as quoted text, i.e. a placeholder between brackets is left alone
        if d == Dialect::Postgres && tpl.contains('[') && matches!(check_one_with(d, tpl, nvals, None, true), Ok(_)) {
            return Err((BRACKET_SIG.into(), det.clone()));
        }
    }
    r
}

pub const BRACKET_SIG: &str = "placeholder-between-brackets-not-replaced";

fn check_one_with(d: Dialect, tpl: &str, nvals: usize, watch: Option<&Counter>, brackets_quote: bool) -> Result<bool, (String, String)> {
    let pieces = match expand_with(d, tpl, nvals, brackets_quote) {
        RefOut::Pieces(p) => p,
        RefOut::OutOfDomain(_) => {
            // must still terminate without hanging; the result is not judged
            let s = stmt(tpl, nvals);
            let _ = render(d, &s);
            return Ok(false);
        }
    };
    if let Some(w) = watch {
        w.inc();
    }
    let mut want_inline = String::from("SELECT ");
    let mut want_build = String::from("SELECT ");
    let mut want_vals: Vec<i32> = vec![];
    for p in &pieces {
        match p {
            Piece::Text(t) => {
                want_inline.push_str(t);
                want_build.push_str(t);
            }
            Piece::Val(i) => {
                want_inline.push_str(&tag(*i).to_string());
                want_vals.push(tag(*i));
                if d == Dialect::Postgres {
                    want_build.push_str(&format!("${}", want_vals.len()));
                } else {
                    want_build.push('?');
                }
            }
        }
    }
    let s = stmt(tpl, nvals);
    let (inline, build, vals) = match render(d, &s) {
        Ok(x) => x,
        Err(p) => return Err(("panic".into(), format!("rendering panicked: {p}; expected {:?}", want_inline))),
    };
    if inline != want_inline {
        return Err(("inline-differs".into(), format!("to_string = {:?}, expected {:?}", inline, want_inline)));
    }
    if build != want_build {
        return Err(("build-differs".into(), format!("build sql = {:?}, expected {:?}", build, want_build)));
    }
    let got_vals: Vec<String> = vals.iter().map(|v| format!("{:?}", v)).collect();
    let want_v: Vec<String> = want_vals.iter().map(|v| format!("{:?}", Value::Int(Some(*v)))).collect();
    if got_vals != want_v {
        return Err(("values-differ".into(), format!("build values = {:?}, expected {:?}", got_vals, want_v)));
    }
    // inject_parameters(build) == to_string, for statements whose SQL holds no user-written literal mark
    // a literal mark that the engine (and inject_parameters) would read as a placeholder: a bare `?`,
    // or `$<digit>` on Postgres, outside quoted text of the expanded SQL
    let expanded: Vec<char> = want_build.chars().collect();
    let spans: Vec<(usize, usize)> =
        crate::props::c16::ref_spans(&expanded).into_iter().filter(|(a, _)| brackets_quote || expanded[*a] != '[').collect();
    let outside = |i: usize| !spans.iter().any(|(a, b)| i >= *a && i < *b);
    let mut text_positions: Vec<usize> = vec![];
    {
        // positions of characters that came from Text pieces
        let mut pos = "SELECT ".chars().count();
        let mut nparam = 0usize;
        for p in &pieces {
            match p {
                Piece::Text(t) => {
                    for _ in t.chars() {
                        text_positions.push(pos);
                        pos += 1;
                    }
                }
                Piece::Val(_) => {
                    nparam += 1;
                    pos += if d == Dialect::Postgres { 1 + nparam.to_string().len() } else { 1 };
                }
            }
        }
    }
    let literal_mark = text_positions.iter().any(|&i| {
        outside(i)
            && if d == Dialect::Postgres {
                expanded[i] == '$' && expanded.get(i + 1).map_or(false, |c| c.is_ascii_digit())
            } else {
                expanded[i] == '?'
            }
    });
    if !literal_mark {
        match inject(d, &build, vals) {
            Ok(x) if x == inline => {}
            Ok(x) => return Err(("inject-differs".into(), format!("inject_parameters({:?}) = {:?}, to_string = {:?}", build, x, inline))),
            Err(p) => return Err(("inject-panic".into(), format!("inject_parameters({:?}) panicked: {p}", build))),
        }
    }
    Ok(true)
}

/// inject_parameters(build(stmt)) == to_string(stmt) over the statement state machines
fn inject_check_select(sys: &crate::smodel::SelSys, _spec: &crate::qmodel::SelSpec) -> Vec<crate::explore::Fail> {
    let mut fails = vec![];
    for d in DIALECTS {
        let r = catch(|| match d {
            Dialect::Mysql => (sys.stmt(d).to_string(MysqlQueryBuilder), sys.stmt(d).build(MysqlQueryBuilder)),
            Dialect::Postgres => (sys.stmt(d).to_string(PostgresQueryBuilder), sys.stmt(d).build(PostgresQueryBuilder)),
            Dialect::Sqlite => (sys.stmt(d).to_string(SqliteQueryBuilder), sys.stmt(d).build(SqliteQueryBuilder)),
        });
        if let Ok((inline, (sql, vals))) = r {
            fails.extend(inject_compare(d, &inline, &sql, vals.0));
        }
    }
    fails
}
fn inject_check_dml(_k: crate::dml::Kind, sys: &crate::dml::DSys, _spec: &crate::dml::DSpec) -> Vec<crate::explore::Fail> {
    let mut fails = vec![];
    for d in DIALECTS {
        if let Ok((inline, (sql, vals))) = catch(|| (sys.stmt(d).to_string_d(d), sys.stmt(d).build_d(d))) {
            fails.extend(inject_compare(d, &inline, &sql, vals.0));
        }
    }
    fails
}
static INJECTED: Counter = Counter::new();
fn inject_compare(d: Dialect, inline: &str, sql: &str, vals: Vec<Value>) -> Vec<crate::explore::Fail> {
    INJECTED.inc();
    match inject(d, sql, vals) {
        Ok(x) if x == inline => vec![],
        Ok(x) => {
            let f = crate::explore::Fail::new("inject-differs", format!("{}: inject_parameters({:?}) = {:?}, to_string = {:?}", d.name(), sql, x, inline));
            // the oracle can name the input class itself: on SQLite a string literal whose content ends in a
            // backslash (not an escape character there) followed by a placeholder
            if d == Dialect::Sqlite {
                if let Ok(toks) = crate::lex::lex(d, sql) {
                    let lit = toks.iter().position(|t| matches!(&t.tok, crate::lex::Tok::Str(s) if s.ends_with('\\')));
                    let par = toks.iter().rposition(|t| matches!(t.tok, crate::lex::Tok::Param(_)));
                    if let (Some(l), Some(p)) = (lit, par) {
                        if l < p {
                            let mut g = f;
                            g.sig = "inject-differs-after-sqlite-literal-ending-in-backslash".into();
                            return vec![g.keyed("sqlite")];
                        }
                    }
                }
            }
            vec![f]
        }
        Err(p) => vec![crate::explore::Fail::new("inject-panic", format!("{}: inject_parameters({:?}) panicked: {p}", d.name(), sql))],
    }
}

/// one character next to a placeholder: every scalar value below U+0300 and a list of notable ones (separators, full-width
/// marks, an astral character), in six contexts around a mark - glued between a word and the mark, before it, after it,
/// between two marks, inside a literal, and after a number. Each is a complete case of `check_one` (to_string, build,
/// values, inject_parameters) on all three backends.
fn char_context_family(rep: &Report) -> u64 {
    let mut chars: Vec<char> = (0u32..0x300).filter_map(char::from_u32).collect();
    chars.extend(['\u{37e}', '\u{2028}', '\u{2029}', '\u{200b}', '\u{3000}', '\u{ff04}', '\u{ff1f}', '\u{ff07}', '\u{feff}', '\u{2019}', '\u{1f600}']);
    let mut n = 0;
    for c in chars {
        for d in DIALECTS {
            let m = |k: usize| if d == Dialect::Postgres { format!("${k}") } else { "?".to_string() };
            let tpls = [
                (format!("a{c}{}", m(1)), 1usize),
                (format!("{c}{} b", m(1)), 1),
                (format!("{}{c}a", m(1)), 1),
                (format!("{}{c}{}", m(1), m(2)), 2),
                (format!("'{c}{}' {}", m(1), m(1)), 1),
                (format!("1{c}{} ", m(1)), 1),
            ];
            for (ctx, (tpl, k)) in tpls.iter().enumerate() {
                n += 1;
                if let Err((sig, det)) = check_one(d, tpl, *k, None) {
                    rep.raw_failures.inc();
                    rep.violation(Violation {
                        key: if sig == BRACKET_SIG { format!("template|{}|{}", d.name(), sig) } else { format!("template-char|{}|{}|context {ctx}|U+{:04X}", d.name(), sig, c as u32) },
                        what: format!("{}: template {:?} with {} values: {}", d.name(), tpl, k, det),
                        case: json!({"dialect": d.name(), "template": tpl, "nvals": k}),
                    });
                }
            }
        }
    }
    n
}

/// templates whose values are EXPRESSIONS (`cust_with_expr`, `cust_with_exprs`): every template of a small set x every
/// ordered pair of value-expression kinds (bound value, column, arithmetic, function call, scalar subquery, CASE, enum
/// cast - the one the PostgreSQL backend renders in its own way) x 3 backends. The expansion must be the template with
/// each mark replaced by that backend's own rendering of the expression (taken from `SELECT <expr>`), in both modes.
fn expr_value_family(rep: &Report) -> u64 {
    fn a(s: &str) -> Alias {
        Alias::new(s)
    }
    let kinds: Vec<(&str, fn() -> SimpleExpr)> = vec![
        ("value", || Expr::val(7).into()),
        ("column", || Expr::col(a("c")).into()),
        ("arithmetic", || Expr::col(a("c")).add(1)),
        ("function", || Func::max(Expr::col(a("c"))).into()),
        ("subquery", || SimpleExpr::SubQuery(None, Box::new(Query::select().expr(Expr::val(3)).to_owned().into_sub_query_statement()))),
        ("case", || CaseStatement::new().case(Expr::col(a("c")).gt(1), 2).finally(3).into()),
        ("enum-cast", || Expr::val("big").as_enum(a("size"))),
        ("enum-cast-nested", || Expr::col(a("c")).eq(Expr::val("big").as_enum(a("size")))),
    ];
    let templates: [(&str, &str); 4] = [("? AND ?", "$1 AND $2"), ("f(?, ?)", "f($2, $1)"), ("? || 'a?b' || ?", "$1 || 'a$1b' || $2"), ("?, ?", "$2, $2")];
    let mut n = 0;
    for (qt, pt) in templates {
        for (n1, k1) in &kinds {
            for (n2, k2) in &kinds {
                for d in DIALECTS {
                    n += 1;
                    let tpl = if d == Dialect::Postgres { pt } else { qt };
                    if d != Dialect::Postgres && qt == "?, ?" && pt == "$2, $2" {
                        // the positional form of "use the second value twice" does not exist
                    }
                    let RefOut::Pieces(pieces) = expand(d, tpl, 2) else { continue };
                    let render_sel = |q: &SelectStatement, build: bool| -> Result<String, String> {
                        catch(|| match (d, build) {
                            (Dialect::Mysql, false) => q.to_string(MysqlQueryBuilder),
                            (Dialect::Mysql, true) => q.build(MysqlQueryBuilder).0,
                            (Dialect::Postgres, false) => q.to_string(PostgresQueryBuilder),
                            (Dialect::Postgres, true) => q.build(PostgresQueryBuilder).0,
                            (Dialect::Sqlite, false) => q.to_string(SqliteQueryBuilder),
                            (Dialect::Sqlite, true) => q.build(SqliteQueryBuilder).0,
                        })
                    };
                    // inline mode only: in build mode the numbering of nested placeholders depends on the surrounding text
                    let own: Vec<String> = [k1, k2].iter().map(|k| render_sel(Query::select().expr(k()), false).unwrap_or_else(|p| format!("PANIC {p}")).trim_start_matches("SELECT ").to_string()).collect();
                    let mut want = String::from("SELECT ");
                    for p in &pieces {
                        match p {
                            Piece::Text(t) => want.push_str(t),
                            Piece::Val(i) => want.push_str(&own[*i]),
                        }
                    }
                    let got = render_sel(Query::select().expr(Expr::cust_with_exprs(tpl, [k1(), k2()])), false).unwrap_or_else(|p| format!("PANIC {p}"));
                    if got != want {
                        rep.raw_failures.inc();
                        rep.violation(Violation {
                            key: format!("template-expr-values|{}|inline-differs|{}", d.name(), [(n1, &own[0]), (n2, &own[1])].iter().filter(|(_, o)| !got.contains(o.as_str())).map(|(k, _)| k.to_string()).collect::<Vec<_>>().join(";")),
                            what: format!("{}: cust_with_exprs({tpl:?}, [{n1}, {n2}]) renders {got:?}; the template with each mark replaced by the backend's own rendering of the value is {want:?}", d.name()),
                            case: json!({"expr_values": true, "dialect": d.name(), "template": tpl, "kinds": [n1, n2]}),
                        });
                    }
                    // one expression through cust_with_expr
                    let tpl1 = if d == Dialect::Postgres { "g($1)" } else { "g(?)" };
                    let got1 = render_sel(Query::select().expr(Expr::cust_with_expr(tpl1, k1())), false).unwrap_or_else(|p| format!("PANIC {p}"));
                    let want1 = format!("SELECT g({})", own[0]);
                    if got1 != want1 {
                        rep.raw_failures.inc();
                        rep.violation(Violation { key: format!("template-expr-values|{}|inline-differs|{n1}", d.name()), what: format!("{}: cust_with_expr({tpl1:?}, {n1}) renders {got1:?}, expected {want1:?}", d.name()), case: json!({"expr_values": true, "dialect": d.name(), "template": tpl1, "kinds": [n1]}) });
                    }
                }
            }
        }
    }
    n
}

pub fn run(rep: &Arc<Report>) {
    // (2) inject_parameters over the statement state machines
    let depth = if rep.thorough() { 4 } else { 3 };
    let sm = crate::smodel::SelModel { name: "select", menu: crate::smodel::select_menu(rep.thorough(), false), checks: vec![Box::new(inject_check_select)], sqlite_only: false };
    let sst = crate::explore::explore(&sm, depth, u64::MAX, rep);
    let mut stmt_states = sst.states;
    for kind in [crate::dml::Kind::Insert, crate::dml::Kind::Update, crate::dml::Kind::Delete] {
        let dm = crate::dml::DmlModel { kind, menu: crate::dml::dml_menu(kind, rep.thorough()), checks: vec![Box::new(inject_check_dml)] };
        stmt_states += crate::explore::explore(&dm, depth + 1, u64::MAX, rep).states;
    }
    let cc = char_context_family(rep);
    rep.set("character_context_template_cases", json!(cc));
    let ev = expr_value_family(rep);
    rep.set("expression_value_template_cases", json!(ev));
    rep.set("statement_states_for_inject_parameters", json!(stmt_states));
    rep.set("inject_parameters_comparisons_on_statements", json!(INJECTED.get()));
    let n = if rep.thorough() { 7 } else { 6 };
    let evals = Counter::new();
    let in_domain = Counter::new();
    let ood = Counter::new();
    let visit = |tpl: &str| {
        for d in DIALECTS {
            for nvals in 0..=3usize {
                evals.inc();
                match check_one(d, tpl, nvals, Some(&in_domain)) {
                    Ok(true) => {}
                    Ok(false) => ood.inc(),
                    Err((sig, _)) => {
                        rep.raw_failures.inc();
                        let min = minimize(
                            (tpl.to_string(), nvals),
                            &sig,
                            |(t, k)| {
                                let mut v: Vec<(String, usize)> = string_reductions_in(t, SIGMA_TPL).into_iter().map(|s| (s, *k)).collect();
                                if *k > 0 {
                                    v.push((t.clone(), *k - 1));
                                }
                                v
                            },
                            |(t, k)| check_one(d, t, *k, None).err().map(|e| e.0),
                        );
                        let det = check_one(d, &min.0, min.1, None).err().map(|e| e.1).unwrap_or_default();
                        rep.violation(Violation {
                            key: if sig == BRACKET_SIG { format!("template|{}|{}", d.name(), sig) } else { format!("template|{}|{}|{}|{}", d.name(), sig, show(&min.0), min.1) },
                            what: format!("{}: template {:?} with {} values: {}", d.name(), min.0, min.1, det),
                            case: json!({"dialect": d.name(), "template": min.0, "nvals": min.1}),
                        });
                    }
                }
            }
        }
    };
    let (states, transitions) = for_each_string(SIGMA_TPL, n, |_w, tpl| visit(tpl));
    // second pass: the alphabet extended by the bracket delimiters, one symbol shorter; only templates that contain one
    let mut ext: Vec<char> = SIGMA_TPL.to_vec();
    ext.extend(['[', ']']);
    let (states_x, transitions_x) = for_each_string(&ext, n - 1, |_w, tpl| {
        if tpl.contains('[') || tpl.contains(']') {
            visit(tpl);
        }
    });
    let (states, transitions) = (states + states_x, transitions + transitions_x);
    rep.set("alphabet", json!(SIGMA_TPL.iter().map(|c| c.to_string()).collect::<Vec<_>>()));
    rep.set("max_len", json!(n));
    rep.set("value_list_lengths", json!([0, 1, 2, 3]));
    rep.set("states", json!(states));
    rep.set("transitions", json!(transitions));
    rep.set("evaluations", json!(evals.get()));
    rep.set("in_domain_cases_compared", json!(in_domain.get()));
    rep.set("out_of_domain_cases_terminated", json!(ood.get()));
    rep.set("traces_validated_against_impl", json!(in_domain.get()));
    rep.set("distinct_nontrivial", json!(in_domain.get()));
    rep.set("rule", json!("each (template, value-list length, backend) is one case; in-domain cases are rendered by the real code (to_string, build, inject_parameters) and compared with the reference expansion; out-of-domain cases (missing value, $1a) must only terminate"));
    rep.set("exhaustive", json!(true));
    for (t, k, d) in [("a ?? ?", 1usize, Dialect::Mysql), ("$2 '$1' $1", 2, Dialect::Postgres), ("'\\'?' ?", 1, Dialect::Sqlite)] {
        let s = stmt(t, k);
        rep.sample(json!({"template": t, "values": k, "dialect": d.name(), "reference": format!("{:?}", expand(d, t, k)), "build": render(d, &s).map(|x| x.1).unwrap_or_default()}));
    }
    rep.assume("quoted text in templates is '..', \"..\", `..` (doubled or backslash-escaped delimiters inside) and, except on PostgreSQL where brackets are array syntax, [..]; a `$` on Postgres is a placeholder only as `$<digits>`; values are tagged integers");
}

pub fn replay(case: &serde_json::Value) -> Option<String> {
    if case["expr_values"].as_bool() == Some(true) {
        let rep = Report::new("C11", "quick");
        expr_value_family(&rep);
        return rep.find_violation(&format!("template-expr-values|{}|", case["dialect"].as_str().unwrap_or("")));
    }
    if let Some(model) = case["model"].as_str() {
        let ops: Vec<String> = case["ops"].as_array().map(|a| a.iter().filter_map(|x| x.as_str().map(String::from)).collect()).unwrap_or_default();
        return match model {
            "select" => crate::explore::replay_ops(&crate::smodel::SelModel { name: "select", menu: crate::smodel::select_menu(true, false), checks: vec![Box::new(inject_check_select)], sqlite_only: false }, &ops),
            k => {
                let kind = match k {
                    "insert" => crate::dml::Kind::Insert,
                    "update" => crate::dml::Kind::Update,
                    _ => crate::dml::Kind::Delete,
                };
                crate::explore::replay_ops(&crate::dml::DmlModel { kind, menu: crate::dml::dml_menu(kind, true), checks: vec![Box::new(inject_check_dml)] }, &ops)
            }
        };
    }
    let d = Dialect::from_name(case["dialect"].as_str().unwrap_or("sqlite"));
    let t = case["template"].as_str().unwrap_or("");
    let k = case["nvals"].as_u64().unwrap_or(0) as usize;
    check_one(d, t, k, None).err().map(|(sig, det)| format!("{}: template {:?} with {} values: [{}] {}", d.name(), t, k, sig, det))
}
