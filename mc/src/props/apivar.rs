//! API-variant equivalence (shared by C07 for SQLite and C08 for MySQL / PostgreSQL).
//!
//! The state machines of QModel drive one canonical builder method per clause. Every OTHER public
//! builder method of SELECT / INSERT / UPDATE / DELETE / OnConflict / Returning that is documented as
//! a convenience form of a canonical one is checked here: applied on top of every base statement
//! (all sequences of up to 2 canonical calls — states reached from elsewhere, not only the initial
//! one), the convenience form and its canonical spelling must render identically (text and bound
//! values, both modes). That reduces what the variant's text means to what the canonical text means,
//! which the state machines decide.

use crate::lex::Dialect;
use crate::report::{Report, Violation};
use crate::util::catch;
use sea_query::*;
use serde_json::json;
use std::sync::Arc;

fn a(s: &str) -> Alias {
    Alias::new(s)
}

fn render<S: QueryStatementWriter>(s: &S, d: Dialect, build: bool) -> String {
    let r = catch(|| match (d, build) {
        (Dialect::Mysql, false) => (s.to_string(MysqlQueryBuilder), vec![]),
        (Dialect::Postgres, false) => (s.to_string(PostgresQueryBuilder), vec![]),
        (Dialect::Sqlite, false) => (s.to_string(SqliteQueryBuilder), vec![]),
        (Dialect::Mysql, true) => {
            let (q, v) = s.build(MysqlQueryBuilder);
            (q, v.0)
        }
        (Dialect::Postgres, true) => {
            let (q, v) = s.build(PostgresQueryBuilder);
            (q, v.0)
        }
        (Dialect::Sqlite, true) => {
            let (q, v) = s.build(SqliteQueryBuilder);
            (q, v.0)
        }
    });
    match r {
        Ok((q, v)) => format!("{q} <- {:?}", v),
        Err(p) => format!("PANIC {p}"),
    }
}

type Act<S> = Box<dyn Fn(&mut S) + Sync + Send>;
struct Variant<S> {
    name: &'static str,
    via: Act<S>,
    canon: Act<S>,
}
fn v<S>(name: &'static str, via: impl Fn(&mut S) + Sync + Send + 'static, canon: impl Fn(&mut S) + Sync + Send + 'static) -> Variant<S> {
    Variant { name, via: Box::new(via), canon: Box::new(canon) }
}

fn sub() -> SelectStatement {
    Query::select().column(a("c")).from(a("t2")).and_where(Expr::col(a("c")).gt(7)).to_owned()
}
fn win() -> WindowStatement {
    WindowStatement::partition_by(a("a")).order_by(a("id"), Order::Asc).to_owned()
}
fn on() -> SimpleExpr {
    Expr::col((a("t2"), a("t1_id"))).equals((a("t1"), a("id")))
}
fn colx(c: &str) -> SimpleExpr {
    Expr::col(a(c)).into()
}

fn select_bases() -> Vec<(String, SelectStatement)> {
    type Op = (&'static str, fn(&mut SelectStatement));
    let menu: Vec<Op> = vec![
        ("column", |s| {
            s.column(a("a"));
        }),
        ("expr_as", |s| {
            s.expr_as(Expr::col(a("b")).add(1), a("x"));
        }),
        ("distinct", |s| {
            s.distinct();
        }),
        ("from", |s| {
            s.from(a("t1"));
        }),
        ("join", |s| {
            s.join(JoinType::LeftJoin, a("t2"), on());
        }),
        ("and_where", |s| {
            s.and_where(Expr::col(a("a")).gt(5));
        }),
        ("cond_where_any", |s| {
            s.cond_where(Cond::any().add(Expr::col(a("a")).lt(3)).add(Expr::col(a("b")).is_null()));
        }),
        ("group_by_col", |s| {
            s.group_by_col(a("a"));
        }),
        ("and_having", |s| {
            s.and_having(Expr::col(a("a")).lt(90));
        }),
        ("order_by", |s| {
            s.order_by(a("id"), Order::Desc);
        }),
        ("limit", |s| {
            s.limit(3);
        }),
        ("offset", |s| {
            s.offset(1);
        }),
        ("union", |s| {
            s.union(UnionType::All, sub());
        }),
        ("lock", |s| {
            s.lock(LockType::Update);
        }),
        ("expr_window", |s| {
            s.expr_window_as(Func::sum(Expr::col(a("b"))), win(), a("w0"));
        }),
    ];
    let mut out = vec![("".to_string(), Query::select())];
    for (n1, f1) in &menu {
        let mut s = Query::select();
        f1(&mut s);
        out.push((n1.to_string(), s.clone()));
        for (n2, f2) in &menu {
            let mut s2 = s.clone();
            f2(&mut s2);
            out.push((format!("{n1};{n2}"), s2));
        }
    }
    out.sort_by_key(|(n, _)| n.matches(';').count() + if n.is_empty() { 0 } else { 1 });
    out
}

fn select_variants() -> Vec<Variant<SelectStatement>> {
    use JoinType::*;
    vec![
        v("columns", |s: &mut SelectStatement| { s.columns([a("a"), a("b")]); }, |s| { s.column(a("a")).column(a("b")); }),
        v("column", |s: &mut SelectStatement| { s.column(a("s")); }, |s| { s.expr(colx("s")); }),
        v("column-qualified", |s: &mut SelectStatement| { s.column((a("t1"), a("s"))); }, |s| { s.expr(Expr::col((a("t1"), a("s")))); }),
        v("exprs", |s: &mut SelectStatement| { s.exprs([colx("a").add(1), colx("b").mul(2)]); }, |s| { s.expr(colx("a").add(1)).expr(colx("b").mul(2)); }),
        v("expr_as", |s: &mut SelectStatement| { s.expr_as(colx("a").add(1), a("y")); }, |s| { s.expr(SelectExpr { expr: colx("a").add(1), alias: Some(a("y").into_iden()), window: None }); }),
        v("expr_window", |s: &mut SelectStatement| { s.expr_window(Func::max(colx("b")), win()); }, |s| { s.expr(SelectExpr { expr: Func::max(colx("b")).into(), alias: None, window: Some(WindowSelectType::Query(win())) }); }),
        v("expr_window_as", |s: &mut SelectStatement| { s.expr_window_as(Func::max(colx("b")), win(), a("m")); }, |s| { s.expr(SelectExpr { expr: Func::max(colx("b")).into(), alias: Some(a("m").into_iden()), window: Some(WindowSelectType::Query(win())) }); }),
        v("expr_window_name", |s: &mut SelectStatement| { s.expr_window_name(Func::max(colx("b")), a("w")); }, |s| { s.expr(SelectExpr { expr: Func::max(colx("b")).into(), alias: None, window: Some(WindowSelectType::Name(a("w").into_iden())) }); }),
        v("expr_window_name_as", |s: &mut SelectStatement| { s.expr_window_name_as(Func::max(colx("b")), a("w"), a("m")); }, |s| { s.expr(SelectExpr { expr: Func::max(colx("b")).into(), alias: Some(a("m").into_iden()), window: Some(WindowSelectType::Name(a("w").into_iden())) }); }),
        v("from_as", |s: &mut SelectStatement| { s.from_as(a("t1"), a("u")); }, |s| { s.from(a("t1").into_table_ref().alias(a("u"))); }),
        v("from-schema-table", |s: &mut SelectStatement| { s.from((a("sch"), a("t1"))); }, |s| { s.from(TableRef::SchemaTable(a("sch").into_iden(), a("t1").into_iden())); }),
        v("from_subquery", |s: &mut SelectStatement| { s.from_subquery(sub(), a("q")); }, |s| { s.from(TableRef::SubQuery(sub(), a("q").into_iden())); }),
        v("from_values", |s: &mut SelectStatement| { s.from_values([(1, "x"), (2, "y")], a("vv")); }, |s| { s.from(TableRef::ValuesList(vec![(1, "x").into_value_tuple(), (2, "y").into_value_tuple()], a("vv").into_iden())); }),
        v("from_function", |s: &mut SelectStatement| { s.from_function(Func::cust(a("gen")).arg(3), a("g")); }, |s| { s.from(TableRef::FunctionCall(Func::cust(a("gen")).arg(3), a("g").into_iden())); }),
        v("cross_join", |s: &mut SelectStatement| { s.cross_join(a("t2"), on()); }, |s| { s.join(CrossJoin, a("t2"), on()); }),
        v("left_join", |s: &mut SelectStatement| { s.left_join(a("t2"), on()); }, |s| { s.join(LeftJoin, a("t2"), on()); }),
        v("right_join", |s: &mut SelectStatement| { s.right_join(a("t2"), on()); }, |s| { s.join(RightJoin, a("t2"), on()); }),
        v("inner_join", |s: &mut SelectStatement| { s.inner_join(a("t2"), on()); }, |s| { s.join(InnerJoin, a("t2"), on()); }),
        v("full_outer_join", |s: &mut SelectStatement| { s.full_outer_join(a("t2"), on()); }, |s| { s.join(FullOuterJoin, a("t2"), on()); }),
        v("join_as", |s: &mut SelectStatement| { s.join_as(RightJoin, a("t2"), a("j"), on()); }, |s| { s.join(RightJoin, a("t2").into_table_ref().alias(a("j")), on()); }),
        v("join_subquery", |s: &mut SelectStatement| { s.join_subquery(InnerJoin, sub(), a("j"), on()); }, |s| { s.join(InnerJoin, TableRef::SubQuery(sub(), a("j").into_iden()), on()); }),
        v("join-cond-all", |s: &mut SelectStatement| { s.join(LeftJoin, a("t2"), Cond::all().add(on())); }, |s| { s.join(LeftJoin, a("t2"), on()); }),
        v("group_by_columns", |s: &mut SelectStatement| { s.group_by_columns([a("a"), a("s")]); }, |s| { s.group_by_col(a("a")).group_by_col(a("s")); }),
        v("group_by_col", |s: &mut SelectStatement| { s.group_by_col(a("s")); }, |s| { s.add_group_by([colx("s")]); }),
        v("add_group_by-2", |s: &mut SelectStatement| { s.add_group_by([colx("a").add(1), colx("s")]); }, |s| { s.add_group_by([colx("a").add(1)]).add_group_by([colx("s")]); }),
        v("and_where_option-some", |s: &mut SelectStatement| { s.and_where_option(Some(colx("b").lt(8))); }, |s| { s.and_where(colx("b").lt(8)); }),
        v("and_where_option-none", |s: &mut SelectStatement| { s.and_where_option(None); }, |_s| {}),
        v("conditions-true", |s: &mut SelectStatement| { s.conditions(true, |x| { x.and_where(colx("b").lt(8)); }, |x| { x.and_where(colx("b").gt(8)); }); }, |s| { s.and_where(colx("b").lt(8)); }),
        v("conditions-false", |s: &mut SelectStatement| { s.conditions(false, |x| { x.and_where(colx("b").lt(8)); }, |x| { x.limit(9); }); }, |s| { s.limit(9); }),
        v("apply_if-some", |s: &mut SelectStatement| { s.apply_if(Some(4), |x, n| { x.and_where(colx("b").eq(n)); }); }, |s| { s.and_where(colx("b").eq(4)); }),
        v("apply_if-none", |s: &mut SelectStatement| { s.apply_if(None::<i32>, |x, n| { x.and_where(colx("b").eq(n)); }); }, |_s| {}),
        v("apply", |s: &mut SelectStatement| { s.apply(|x| { x.order_by(a("b"), Order::Asc); }); }, |s| { s.order_by(a("b"), Order::Asc); }),
        v("order_by", |s: &mut SelectStatement| { s.order_by(a("b"), Order::Desc); }, |s| { s.order_by_expr(colx("b"), Order::Desc); }),
        v("order_by-qualified", |s: &mut SelectStatement| { s.order_by((a("t1"), a("b")), Order::Asc); }, |s| { s.order_by_expr(Expr::col((a("t1"), a("b"))).into(), Order::Asc); }),
        v("order_by_columns", |s: &mut SelectStatement| { s.order_by_columns([(a("a"), Order::Asc), (a("b"), Order::Desc)]); }, |s| { s.order_by(a("a"), Order::Asc).order_by(a("b"), Order::Desc); }),
        v("order_by_with_nulls", |s: &mut SelectStatement| { s.order_by_with_nulls(a("b"), Order::Desc, NullOrdering::First); }, |s| { s.order_by_expr_with_nulls(colx("b"), Order::Desc, NullOrdering::First); }),
        v("order_by_with_nulls-last", |s: &mut SelectStatement| { s.order_by_with_nulls(a("b"), Order::Asc, NullOrdering::Last); }, |s| { s.order_by_expr_with_nulls(colx("b"), Order::Asc, NullOrdering::Last); }),
        v("order_by_columns_with_nulls", |s: &mut SelectStatement| { s.order_by_columns_with_nulls([(a("a"), Order::Asc, NullOrdering::Last), (a("b"), Order::Desc, NullOrdering::First)]); }, |s| { s.order_by_with_nulls(a("a"), Order::Asc, NullOrdering::Last).order_by_with_nulls(a("b"), Order::Desc, NullOrdering::First); }),
        v("order_by_customs", |s: &mut SelectStatement| { s.order_by_customs([("a + 1", Order::Asc), ("b", Order::Desc)]); }, |s| { s.order_by_expr(Expr::cust("a + 1"), Order::Asc).order_by_expr(Expr::cust("b"), Order::Desc); }),
        v("order_by_customs_with_nulls", |s: &mut SelectStatement| { s.order_by_customs_with_nulls([("a + 1", Order::Asc, NullOrdering::First)]); }, |s| { s.order_by_expr_with_nulls(Expr::cust("a + 1"), Order::Asc, NullOrdering::First); }),
        v("lock_shared", |s: &mut SelectStatement| { s.lock_shared(); }, |s| { s.lock(LockType::Share); }),
        v("lock_exclusive", |s: &mut SelectStatement| { s.lock_exclusive(); }, |s| { s.lock(LockType::Update); }),
        v("unions", |s: &mut SelectStatement| { s.unions([(UnionType::Distinct, sub()), (UnionType::Except, sub())]); }, |s| { s.union(UnionType::Distinct, sub()).union(UnionType::Except, sub()); }),
        // moving the statement out with take() and continuing with the moved value is the same as never moving it
        v("take-roundtrip", |s: &mut SelectStatement| { let t = s.take(); *s = t; s.order_by(a("b"), Order::Asc); }, |s| { s.order_by(a("b"), Order::Asc); }),
        v("take-leaves-new", |s: &mut SelectStatement| { let _ = s.take(); s.column(a("a")).from(a("t1")); }, |s| { *s = Query::select(); s.column(a("a")).from(a("t1")); }),
        v("limit-twice", |s: &mut SelectStatement| { s.limit(7).limit(2); }, |s| { s.limit(2); }),
        v("offset-twice", |s: &mut SelectStatement| { s.offset(7).offset(2); }, |s| { s.offset(2); }),
    ]
}

fn run_family<S: QueryStatementWriter + Clone + Sync + Send>(rep: &Arc<Report>, stmt: &str, bases: &[(String, S)], variants: &[Variant<S>], dialects: &[Dialect]) -> u64 {
    let mut n = 0u64;
    for var in variants {
        'dialect: for d in dialects {
            for (bname, base) in bases {
                let mut x = base.clone();
                let mut y = base.clone();
                let px = catch(|| (var.via)(&mut x)).err();
                let py = catch(|| (var.canon)(&mut y)).err();
                for build in [false, true] {
                    n += 1;
                    let (rx, ry) = match (&px, &py) {
                        (None, None) => (render(&x, *d, build), render(&y, *d, build)),
                        (a, b) => (format!("builder panic: {:?}", a), format!("builder panic: {:?}", b)),
                    };
                    if rx != ry {
                        rep.raw_failures.inc();
                        rep.violation(Violation {
                            key: format!("api-variant|{}|{stmt}.{}", d.name(), var.name),
                            what: format!("{} {}: after base calls [{bname}], `{}` renders {rx:?} but its canonical spelling renders {ry:?}", d.name(), if build { "build" } else { "to_string" }, var.name),
                            case: json!({"kind": "api-variant", "stmt": stmt, "variant": var.name, "dialect": d.name(), "base": bname, "build": build}),
                        });
                        continue 'dialect; // bases are ordered shortest first: this is the minimal one
                    }
                }
            }
        }
    }
    n
}

fn insert_bases() -> Vec<(String, InsertStatement)> {
    let mk = || Query::insert().into_table(a("t1")).to_owned();
    let mut out = vec![("".to_string(), mk())];
    let mut s = mk();
    s.columns([a("a"), a("b")]);
    out.push(("columns".into(), s.clone()));
    let mut s2 = s.clone();
    s2.values_panic([1.into(), 2.into()]);
    out.push(("columns;values".into(), s2.clone()));
    let mut s3 = s2.clone();
    s3.on_conflict(OnConflict::column(a("id")).update_column(a("a")).to_owned());
    out.push(("columns;values;on_conflict".into(), s3));
    let mut s4 = s2.clone();
    s4.returning_all();
    out.push(("columns;values;returning_all".into(), s4));
    out
}

fn insert_variants() -> Vec<Variant<InsertStatement>> {
    let oc = |f: fn(&mut OnConflict)| -> OnConflict {
        let mut o = OnConflict::column(a("id"));
        f(&mut o);
        o
    };
    vec![
        v("values_panic", |s: &mut InsertStatement| { if catch(|| { let mut t = s.clone(); t.values_panic([5.into(), 6.into()]); t }).map(|t| *s = t).is_err() { s.replace(); } }, |s| { match s.clone().values([5.into(), 6.into()]) { Ok(t) => *s = t.to_owned(), Err(_) => { s.replace(); } } }),
        v("values_from_panic", |s: &mut InsertStatement| { if catch(|| { let mut t = s.clone(); t.values_from_panic([[5.into(), 6.into()], [7.into(), SimpleExpr::from(8)]]); t }).map(|t| *s = t).is_err() { s.replace(); } }, |s| { let mut t = s.clone(); let r = t.values([5.into(), 6.into()]).map(|_| ()).and_then(|_| t.values([7.into(), 8.into()]).map(|_| ())); match r { Ok(()) => *s = t, Err(_) => { s.replace(); } } }),
        v("returning_col", |s: &mut InsertStatement| { s.returning_col(a("id")); }, |s| { s.returning(Query::returning().column(a("id"))); }),
        v("returning_all", |s: &mut InsertStatement| { s.returning_all(); }, |s| { s.returning(Query::returning().all()); }),
        v("returning-columns", |s: &mut InsertStatement| { s.returning(Query::returning().columns([a("id"), a("a")])); }, |s| { s.returning(Query::returning().exprs([colx("id"), colx("a")])); }),
        v("returning-expr", |s: &mut InsertStatement| { s.returning(Query::returning().expr(colx("a").add(1))); }, |s| { s.returning(Query::returning().exprs([colx("a").add(1)])); }),
        v("or_default_values", |s: &mut InsertStatement| { s.or_default_values(); }, |s| { s.or_default_values_many(1); }),
        v("on_conflict-update_column", move |s: &mut InsertStatement| { s.on_conflict(oc(|o| { o.update_column(a("a")); })); }, move |s| { s.on_conflict(oc(|o| { o.update_columns([a("a")]); })); }),
        v("on_conflict-update_columns-2", move |s: &mut InsertStatement| { s.on_conflict(oc(|o| { o.update_columns([a("a"), a("b")]); })); }, move |s| { s.on_conflict(oc(|o| { o.update_column(a("a")).update_column(a("b")); })); }),
        v("on_conflict-value", move |s: &mut InsertStatement| { s.on_conflict(oc(|o| { o.value(a("a"), Expr::col(a("a")).add(1)); })); }, move |s| { s.on_conflict(oc(|o| { o.values([(a("a"), Expr::col(a("a")).add(1))]); })); }),
        v("on_conflict-columns", |s: &mut InsertStatement| { s.on_conflict(OnConflict::columns([a("id"), a("a")]).do_nothing().to_owned()); }, |s| { s.on_conflict(OnConflict::new().exprs([colx("id"), colx("a")]).do_nothing().to_owned()); }),
        v("on_conflict-column", |s: &mut InsertStatement| { s.on_conflict(OnConflict::column(a("id")).do_nothing().to_owned()); }, |s| { s.on_conflict(OnConflict::columns([a("id")]).do_nothing().to_owned()); }),
        v("on_conflict-expr", |s: &mut InsertStatement| { s.on_conflict(OnConflict::new().expr(colx("id")).do_nothing().to_owned()); }, |s| { s.on_conflict(OnConflict::new().exprs([colx("id")]).do_nothing().to_owned()); }),
        v("on_conflict-action_and_where_option-none", move |s: &mut InsertStatement| { s.on_conflict(oc(|o| { o.update_column(a("a")).action_and_where_option(None); })); }, move |s| { s.on_conflict(oc(|o| { o.update_column(a("a")); })); }),
        v("on_conflict-target_and_where_option-none", move |s: &mut InsertStatement| { s.on_conflict(oc(|o| { o.target_and_where_option(None).update_column(a("a")); })); }, move |s| { s.on_conflict(oc(|o| { o.update_column(a("a")); })); }),
        v("on_conflict-action_and_where_option-some", move |s: &mut InsertStatement| { s.on_conflict(oc(|o| { o.update_column(a("a")).action_and_where_option(Some(Expr::col(a("a")).gt(1))); })); }, move |s| { s.on_conflict(oc(|o| { o.update_column(a("a")).action_and_where(Expr::col(a("a")).gt(1)); })); }),
        v("on_conflict-target_and_where_option-some", move |s: &mut InsertStatement| { s.on_conflict(oc(|o| { o.target_and_where_option(Some(Expr::col(a("a")).gt(1))).update_column(a("a")); })); }, move |s| { s.on_conflict(oc(|o| { o.target_and_where(Expr::col(a("a")).gt(1)).update_column(a("a")); })); }),
    ]
}

macro_rules! ordered_and_conditional_variants {
    ($S:ty) => {
        vec![
            v("and_where_option-some", |s: &mut $S| { s.and_where_option(Some(colx("b").lt(8))); }, |s| { s.and_where(colx("b").lt(8)); }),
            v("and_where_option-none", |s: &mut $S| { s.and_where_option(None); }, |_s| {}),
            v("order_by", |s: &mut $S| { s.order_by(a("b"), Order::Desc); }, |s| { s.order_by_expr(colx("b"), Order::Desc); }),
            v("order_by_columns", |s: &mut $S| { s.order_by_columns([(a("a"), Order::Asc), (a("b"), Order::Desc)]); }, |s| { s.order_by(a("a"), Order::Asc).order_by(a("b"), Order::Desc); }),
            v("order_by_with_nulls", |s: &mut $S| { s.order_by_with_nulls(a("b"), Order::Desc, NullOrdering::First); }, |s| { s.order_by_expr_with_nulls(colx("b"), Order::Desc, NullOrdering::First); }),
            v("order_by_with_nulls-last", |s: &mut $S| { s.order_by_with_nulls(a("b"), Order::Asc, NullOrdering::Last); }, |s| { s.order_by_expr_with_nulls(colx("b"), Order::Asc, NullOrdering::Last); }),
            v("order_by_columns_with_nulls", |s: &mut $S| { s.order_by_columns_with_nulls([(a("a"), Order::Asc, NullOrdering::Last), (a("b"), Order::Desc, NullOrdering::First)]); }, |s| { s.order_by_with_nulls(a("a"), Order::Asc, NullOrdering::Last).order_by_with_nulls(a("b"), Order::Desc, NullOrdering::First); }),
            v("order_by_customs", |s: &mut $S| { s.order_by_customs([("a + 1", Order::Asc), ("b", Order::Desc)]); }, |s| { s.order_by_expr(Expr::cust("a + 1"), Order::Asc).order_by_expr(Expr::cust("b"), Order::Desc); }),
            v("order_by_customs_with_nulls", |s: &mut $S| { s.order_by_customs_with_nulls([("a + 1", Order::Asc, NullOrdering::First)]); }, |s| { s.order_by_expr_with_nulls(Expr::cust("a + 1"), Order::Asc, NullOrdering::First); }),
            v("returning_col", |s: &mut $S| { s.returning_col(a("id")); }, |s| { s.returning(Query::returning().column(a("id"))); }),
            v("returning_all", |s: &mut $S| { s.returning_all(); }, |s| { s.returning(Query::returning().all()); }),
            v("limit-twice", |s: &mut $S| { s.limit(7).limit(2); }, |s| { s.limit(2); }),
            v("cond_where-all-1", |s: &mut $S| { s.cond_where(Cond::all().add(colx("b").lt(8))); }, |s| { s.and_where(colx("b").lt(8)); }),
        ]
    };
}

fn update_bases() -> Vec<(String, UpdateStatement)> {
    let mk = || Query::update().table(a("t1")).value(a("a"), 1).to_owned();
    let mut out = vec![("value".to_string(), mk())];
    let mut s = mk();
    s.and_where(colx("a").gt(5));
    out.push(("value;and_where".into(), s.clone()));
    let mut s2 = s.clone();
    s2.order_by(a("id"), Order::Asc).limit(4);
    out.push(("value;and_where;order_by;limit".into(), s2));
    let mut s3 = mk();
    s3.from(a("t2"));
    out.push(("value;from".into(), s3));
    out
}
fn delete_bases() -> Vec<(String, DeleteStatement)> {
    let mk = || Query::delete().from_table(a("t1")).to_owned();
    let mut out = vec![("".to_string(), mk())];
    let mut s = mk();
    s.and_where(colx("a").gt(5));
    out.push(("and_where".into(), s.clone()));
    let mut s2 = s.clone();
    s2.order_by(a("id"), Order::Asc).limit(4);
    out.push(("and_where;order_by;limit".into(), s2));
    out
}

/// returns (comparisons made, variants)
pub fn run(rep: &Arc<Report>, dialects: &[Dialect]) -> (u64, u64) {
    let mut n = 0;
    let sv = select_variants();
    n += run_family(rep, "select", &select_bases(), &sv, dialects);
    let iv = insert_variants();
    n += run_family(rep, "insert", &insert_bases(), &iv, dialects);
    let mut uv: Vec<Variant<UpdateStatement>> = ordered_and_conditional_variants!(UpdateStatement);
    uv.push(v("values", |s: &mut UpdateStatement| { s.values([(a("b"), 2.into()), (a("s"), "x".into())]); }, |s| { s.value(a("b"), 2).value(a("s"), "x"); }));
    n += run_family(rep, "update", &update_bases(), &uv, dialects);
    let dv: Vec<Variant<DeleteStatement>> = ordered_and_conditional_variants!(DeleteStatement);
    n += run_family(rep, "delete", &delete_bases(), &dv, dialects);
    (n, (sv.len() + iv.len() + uv.len() + dv.len()) as u64)
}

pub fn replay(case: &serde_json::Value) -> Option<String> {
    let rep = Arc::new(Report::new("C07", "quick"));
    let d = Dialect::from_name(case["dialect"].as_str().unwrap_or("sqlite"));
    run(&rep, &[d]);
    rep.find_violation(&format!("api-variant|{}|{}.{}", d.name(), case["stmt"].as_str().unwrap_or(""), case["variant"].as_str().unwrap_or("")))
}
