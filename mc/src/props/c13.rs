//! C13 — SQLite schema statements create exactly the declared schema (DESIGN §3.13).
//!
//! Two SQLite databases are driven in lock-step: one executes sea-query's rendering of a schema
//! statement, the other an independently written, explicit reference rendering of the same
//! declaration. After every statement the engines' own catalogues (PRAGMA table_xinfo / index_list /
//! index_xinfo / foreign_key_list, sqlite_master) and the outcome of behavioural probes (violating
//! inserts) must be identical, and each abstract column type must carry the intended affinity.
//! Spaces: (1) single-column definitions: every supported ColumnType x every permutation of every
//! subset (<= 3) of the column specifications; (2) multi-column tables with table-level primary key /
//! unique / foreign key (all 36 action pairs) / check; (3) every sequence of up to 3 follow-up
//! statements (ALTER / RENAME / CREATE INDEX / DROP) — a state machine whose state is the catalogue.

use crate::enumerate::perms_of_subsets;
use crate::report::{Report, Violation};
use crate::sqlite::{Db, SqlVal};
use crate::util::{catch, par_items, Counter};
use sea_query::*;
use serde_json::json;
use std::sync::Arc;

fn a(s: &str) -> Alias {
    Alias::new(s)
}

#[derive(Clone, Copy, Debug, PartialEq)]
pub enum Aff {
    Integer,
    Real,
    Text,
    Blob,
    Numeric,
}

/// SQLite's documented rule for the affinity of a declared type (datatype3.html §3.1)
pub fn affinity_of(decl: &str) -> Aff {
    let u = decl.to_ascii_uppercase();
    if u.contains("INT") {
        Aff::Integer
    } else if u.contains("CHAR") || u.contains("CLOB") || u.contains("TEXT") {
        Aff::Text
    } else if u.contains("BLOB") || u.trim().is_empty() {
        Aff::Blob
    } else if u.contains("REAL") || u.contains("FLOA") || u.contains("DOUB") {
        Aff::Real
    } else {
        Aff::Numeric
    }
}

#[derive(Clone, Debug, PartialEq)]
pub enum CT {
    Char(Option<u32>),
    String(Option<u32>),
    StringMax,
    Text,
    Blob,
    TinyInteger,
    SmallInteger,
    Integer,
    BigInteger,
    TinyUnsigned,
    SmallUnsigned,
    Unsigned,
    BigUnsigned,
    Float,
    Double,
    Decimal(Option<(u32, u32)>),
    DateTime,
    Timestamp,
    TimestampWithTimeZone,
    Time,
    Date,
    Binary(u32),
    VarBinary(u32),
    /// VarBinary(StringLen::None) and VarBinary(StringLen::Max)
    VarBinaryNone,
    VarBinaryMax,
    Boolean,
    Money(Option<(u32, u32)>),
    Json,
    JsonBinary,
    Uuid,
    /// an enumeration with the given type name (SQLite derives a column's affinity from substrings of the declared type)
    Enum(&'static str),
}

pub fn all_types() -> Vec<CT> {
    vec![
        CT::Char(None), CT::Char(Some(1)), CT::Char(Some(255)), CT::String(None), CT::String(Some(1)), CT::String(Some(4000)), CT::StringMax, CT::Text, CT::Blob,
        CT::TinyInteger, CT::SmallInteger, CT::Integer, CT::BigInteger, CT::TinyUnsigned, CT::SmallUnsigned, CT::Unsigned, CT::BigUnsigned,
        CT::Float, CT::Double, CT::Decimal(None), CT::Decimal(Some((10, 2))), CT::Decimal(Some((16, 0))),
        CT::DateTime, CT::Timestamp, CT::TimestampWithTimeZone, CT::Time, CT::Date, CT::Binary(1), CT::Binary(16), CT::VarBinary(255), CT::VarBinaryNone, CT::VarBinaryMax, CT::Boolean,
        CT::Money(None), CT::Money(Some((19, 4))), CT::Json, CT::JsonBinary, CT::Uuid,
        CT::Enum("e"), CT::Enum("tint"), CT::Enum("print_mode"), CT::Enum("blobby"), CT::Enum("real_kind"), CT::Enum("floating"), CT::Enum("doubles"), CT::Enum("charm"), CT::Enum("font-size"), CT::Enum("two words"),
    ]
}

impl CT {
    fn apply(&self, c: &mut ColumnDef) {
        match self {
            CT::Char(None) => c.char(),
            CT::Char(Some(n)) => c.char_len(*n),
            CT::String(None) => c.string(),
            CT::String(Some(n)) => c.string_len(*n),
            CT::StringMax => {
                *c = ColumnDef::new_with_type(a("c"), ColumnType::String(StringLen::Max));
                c
            }
            CT::Text => c.text(),
            CT::Blob => c.blob(),
            CT::TinyInteger => c.tiny_integer(),
            CT::SmallInteger => c.small_integer(),
            CT::Integer => c.integer(),
            CT::BigInteger => c.big_integer(),
            CT::TinyUnsigned => c.tiny_unsigned(),
            CT::SmallUnsigned => c.small_unsigned(),
            CT::Unsigned => c.unsigned(),
            CT::BigUnsigned => c.big_unsigned(),
            CT::Float => c.float(),
            CT::Double => c.double(),
            CT::Decimal(None) => c.decimal(),
            CT::Decimal(Some((p, s))) => c.decimal_len(*p, *s),
            CT::DateTime => c.date_time(),
            CT::Timestamp => c.timestamp(),
            CT::TimestampWithTimeZone => c.timestamp_with_time_zone(),
            CT::Time => c.time(),
            CT::Date => c.date(),
            CT::Binary(n) => c.binary_len(*n),
            CT::VarBinary(n) => c.var_binary(*n),
            CT::VarBinaryNone => {
                *c = ColumnDef::new_with_type(a("c"), ColumnType::VarBinary(StringLen::None));
                c
            }
            CT::VarBinaryMax => {
                *c = ColumnDef::new_with_type(a("c"), ColumnType::VarBinary(StringLen::Max));
                c
            }
            CT::Boolean => c.boolean(),
            CT::Money(None) => c.money(),
            CT::Money(Some((p, s))) => c.money_len(*p, *s),
            CT::Json => c.json(),
            CT::JsonBinary => c.json_binary(),
            CT::Uuid => c.uuid(),
            CT::Enum(name) => c.enumeration(a(name), [a("x"), a("y")]),
        };
    }
    /// the affinity intended for the abstract type
    pub fn intended(&self) -> Aff {
        match self {
            CT::TinyInteger | CT::SmallInteger | CT::Integer | CT::BigInteger | CT::TinyUnsigned | CT::SmallUnsigned | CT::Unsigned | CT::BigUnsigned => Aff::Integer,
            CT::Float | CT::Double | CT::Decimal(_) | CT::Money(_) => Aff::Real,
            CT::Blob | CT::Binary(_) | CT::VarBinary(_) | CT::VarBinaryNone | CT::VarBinaryMax => Aff::Blob,
            CT::Boolean => Aff::Numeric,
            _ => Aff::Text,
        }
    }
    /// reference type name carrying that affinity (TINYINT / SMALLINT keep SQLite's rule that only a
    /// column declared exactly INTEGER can be an AUTOINCREMENT rowid alias)
    fn ref_type(&self, autoincrement: bool) -> &'static str {
        if cfg!(feature = "sqlite-exact") && self.intended() == Aff::Integer {
            // option-sqlite-exact-column-type: every integer type is declared exactly INTEGER
            return "INTEGER";
        }
        match self {
            CT::TinyInteger | CT::TinyUnsigned => "TINYINT",
            CT::SmallInteger | CT::SmallUnsigned => "SMALLINT",
            // a 64-bit key is a rowid alias only where SQLite demands it (AUTOINCREMENT needs INTEGER PRIMARY KEY)
            CT::BigInteger | CT::BigUnsigned if !autoincrement => "BIGINT",
            _ => match self.intended() {
                Aff::Integer => "INTEGER",
                Aff::Real => "REAL",
                Aff::Blob => "BLOB",
                Aff::Numeric => "BOOLEAN",
                Aff::Text => "TEXT",
            },
        }
    }
}

#[derive(Clone, Copy, Debug, PartialEq)]
pub enum CS {
    Null,
    NotNull,
    DefaultInt,
    DefaultStr,
    AutoIncrement,
    UniqueKey,
    PrimaryKey,
    Check,
    GeneratedStored,
    GeneratedVirtual,
    Extra,
    Comment,
    /// a second CHECK and a second raw fragment: specifications of one kind may occur more than once
    Check2,
    Extra2,
}
pub const ALL_SPECS: [CS; 14] = [CS::Null, CS::NotNull, CS::DefaultInt, CS::DefaultStr, CS::AutoIncrement, CS::UniqueKey, CS::PrimaryKey, CS::Check, CS::GeneratedStored, CS::GeneratedVirtual, CS::Extra, CS::Comment, CS::Check2, CS::Extra2];

fn apply_spec(c: &mut ColumnDef, s: CS) {
    match s {
        CS::Null => c.null(),
        CS::NotNull => c.not_null(),
        CS::DefaultInt => c.default(7),
        CS::DefaultStr => c.default("it's"),
        CS::AutoIncrement => c.auto_increment(),
        CS::UniqueKey => c.unique_key(),
        CS::PrimaryKey => c.primary_key(),
        CS::Check => c.check(Expr::col(a("c")).ne(13)),
        CS::GeneratedStored => c.generated(Expr::col(a("k")).add(1), true),
        CS::GeneratedVirtual => c.generated(Expr::col(a("k")).add(1), false),
        CS::Extra => c.extra("COLLATE NOCASE"),
        CS::Comment => c.comment("a comment"),
        CS::Check2 => c.check(Expr::col(a("c")).ne(0)),
        CS::Extra2 => c.extra("CONSTRAINT \"cx\" CHECK (\"c\" <> -1)"),
    };
}

fn ref_spec(s: CS) -> &'static str {
    match s {
        CS::Null => "NULL",
        CS::NotNull => "NOT NULL",
        CS::DefaultInt => "DEFAULT 7",
        CS::DefaultStr => "DEFAULT 'it''s'",
        CS::AutoIncrement => "",
        CS::UniqueKey => "UNIQUE",
        CS::PrimaryKey => "",
        CS::Check => "CHECK (\"c\" <> 13)",
        CS::GeneratedStored => "GENERATED ALWAYS AS (\"k\" + 1) STORED",
        CS::GeneratedVirtual => "GENERATED ALWAYS AS (\"k\" + 1) VIRTUAL",
        CS::Extra => "COLLATE NOCASE",
        CS::Comment => "",
        CS::Check2 => "CHECK (\"c\" <> 0)",
        CS::Extra2 => "CONSTRAINT \"cx\" CHECK (\"c\" <> -1)",
    }
}

/// explicit reference column definition (SQLite syntax diagram: AUTOINCREMENT directly follows PRIMARY KEY)
fn ref_column(ct: &CT, specs: &[CS]) -> String {
    let mut s = format!("\"c\" {}", ct.ref_type(specs.contains(&CS::AutoIncrement)));
    for sp in specs {
        let t = ref_spec(*sp);
        if !t.is_empty() {
            s.push(' ');
            s.push_str(t);
        }
    }
    if specs.contains(&CS::PrimaryKey) {
        s.push_str(" PRIMARY KEY");
        if specs.contains(&CS::AutoIncrement) {
            s.push_str(" AUTOINCREMENT");
        }
    } else if specs.contains(&CS::AutoIncrement) {
        // AUTOINCREMENT without PRIMARY KEY has no meaning in SQLite: out of domain (rendered to be rejected)
        s.push_str(" AUTOINCREMENT");
    }
    s
}

// ---------------------------------------------------------------------------------------------
// catalogue snapshot

fn txt(v: &SqlVal) -> String {
    match v {
        SqlVal::Null => "NULL".into(),
        SqlVal::Int(i) => i.to_string(),
        SqlVal::Real(r) => r.to_string(),
        SqlVal::Text(t) => String::from_utf8_lossy(t).into_owned(),
        SqlVal::Blob(b) => format!("{:02x?}", b),
    }
}

fn norm_default(s: &str) -> String {
    let mut t = s.trim();
    while t.starts_with('(') && t.ends_with(')') {
        t = t[1..t.len() - 1].trim();
    }
    t.to_string()
}

fn qi(s: &str) -> String {
    format!("\"{}\"", s.replace('"', "\"\""))
}

/// the engine's own description of the schema, with declared types reduced to their affinity
pub fn snapshot(db: &Db, probes: bool) -> Vec<String> {
    let mut out = vec![];
    let tables = db.query("SELECT name, sql FROM sqlite_master WHERE type='table' AND name NOT LIKE 'sqlite_%' ORDER BY name", &[]).map(|r| r.rows).unwrap_or_default();
    for t in &tables {
        let name = txt(&t[0]);
        let sql = txt(&t[1]).to_ascii_uppercase();
        out.push(format!("table {name} autoincrement={} without_rowid={}", sql.contains("AUTOINCREMENT"), sql.contains("WITHOUT ROWID")));
        let cols = db.query(&format!("SELECT name, type, \"notnull\", dflt_value, pk, hidden FROM pragma_table_xinfo({})", crate::qmodel::V::Str(name.clone()).sql()), &[]).map(|r| r.rows).unwrap_or_default();
        let mut colnames = vec![];
        for c in &cols {
            // boolean may legitimately be NUMERIC or INTEGER
            let aff = match affinity_of(&txt(&c[1])) {
                Aff::Numeric => "NUMERIC-or-INTEGER".to_string(),
                Aff::Integer if txt(&c[1]).to_ascii_uppercase().contains("BOOL") => "NUMERIC-or-INTEGER".to_string(),
                other => format!("{:?}", other),
            };
            out.push(format!("  column {} affinity={} notnull={} default={} pk={} hidden={}", txt(&c[0]), aff, txt(&c[2]), norm_default(&txt(&c[3])), txt(&c[4]), txt(&c[5])));
            colnames.push((txt(&c[0]), txt(&c[5])));
        }
        let idx = db.query(&format!("SELECT name, \"unique\", origin, partial FROM pragma_index_list({}) ORDER BY name", crate::qmodel::V::Str(name.clone()).sql()), &[]).map(|r| r.rows).unwrap_or_default();
        let mut idx_lines = vec![];
        for i in &idx {
            let iname = txt(&i[0]);
            let icols = db.query(&format!("SELECT name, \"desc\", coll FROM pragma_index_xinfo({}) WHERE key=1 ORDER BY seqno", crate::qmodel::V::Str(iname.clone()).sql()), &[]).map(|r| r.rows).unwrap_or_default();
            let shown = if txt(&i[2]) == "c" { iname.clone() } else { "(auto)".into() };
            idx_lines.push(format!("  index {} unique={} origin={} partial={} cols={}", shown, txt(&i[1]), txt(&i[2]), txt(&i[3]), icols.iter().map(|c| format!("{}:{}:{}", txt(&c[0]), txt(&c[1]), txt(&c[2]))).collect::<Vec<_>>().join(",")));
        }
        idx_lines.sort();
        out.extend(idx_lines);
        let fks = db.query(&format!("SELECT id, seq, \"table\", \"from\", \"to\", on_update, on_delete FROM pragma_foreign_key_list({}) ORDER BY id, seq", crate::qmodel::V::Str(name.clone()).sql()), &[]).map(|r| r.rows).unwrap_or_default();
        for f in &fks {
            out.push(format!("  fk {}", f.iter().map(txt).collect::<Vec<_>>().join("|")));
        }
        if probes {
            // behavioural probes: identical outcomes are required, whatever they are
            let insertable: Vec<&String> = colnames.iter().filter(|(_, h)| h == "0").map(|(n, _)| n).collect();
            let mut probe = |label: &str, sql: String| {
                db.exec("SAVEPOINT p").ok();
                let r = db.exec(&sql);
                let r2 = if r.is_ok() { db.exec(&sql) } else { Ok(()) };
                db.exec("ROLLBACK TO p; RELEASE p").ok();
                let cls = |r: Result<(), String>| match r {
                    Ok(()) => "ok".to_string(),
                    Err(e) => e.split(':').next().unwrap_or("").to_string(),
                };
                out.push(format!("  probe {label}: first={} second={}", cls(r), cls(r2)));
            };
            probe("default-values", format!("INSERT INTO {} DEFAULT VALUES", qi(&name)));
            for v in ["13", "7", "0", "-1", "NULL", "'x'"] {
                if !insertable.is_empty() {
                    probe(&format!("all={v}"), format!("INSERT INTO {} ({}) VALUES ({})", qi(&name), insertable.iter().map(|c| qi(c)).collect::<Vec<_>>().join(", "), insertable.iter().map(|_| v).collect::<Vec<_>>().join(", ")));
                }
            }
        }
    }
    let idx = db.query("SELECT name, tbl_name FROM sqlite_master WHERE type='index' AND sql IS NOT NULL ORDER BY name", &[]).map(|r| r.rows).unwrap_or_default();
    for i in &idx {
        out.push(format!("named-index {} on {}", txt(&i[0]), txt(&i[1])));
    }
    // the predicate of every partial index, as the expression tree the engine's stored text parses to
    let part = db.query("SELECT name, sql FROM sqlite_master WHERE type='index' AND sql IS NOT NULL ORDER BY name", &[]).map(|r| r.rows).unwrap_or_default();
    for i in &part {
        let sql = txt(&i[1]);
        if let Ok(toks) = crate::lex::lex(crate::lex::Dialect::Sqlite, &sql) {
            let mut depth = 0i32;
            for t in &toks {
                match &t.tok {
                    crate::lex::Tok::Punct(p) if p == "(" => depth += 1,
                    crate::lex::Tok::Punct(p) if p == ")" => depth -= 1,
                    crate::lex::Tok::Word(w) if depth == 0 && w.eq_ignore_ascii_case("WHERE") => {
                        let pred = &sql[t.end..];
                        let tree = crate::exprparse::parse_expression(crate::lex::Dialect::Sqlite, pred).map(|e| crate::exprparse::print_full(&e.strip())).unwrap_or_else(|e| format!("unparsable: {e}"));
                        out.push(format!("index-predicate {}: {}", txt(&i[0]), tree));
                        break;
                    }
                    _ => {}
                }
            }
        }
    }
    out
}

fn fresh_pair(setup: &str) -> (Db, Db) {
    let mk = || {
        let db = Db::open_memory();
        db.exec("PRAGMA foreign_keys=ON").ok();
        db.exec(setup).expect("setup script");
        db
    };
    (mk(), mk())
}

pub static EXECUTED: Counter = Counter::new();
pub static SKIPPED: Counter = Counter::new();

/// run one (sut, reference) statement pair on the two databases; Err((sig, detail)) on divergence,
/// Ok(false) if the reference is rejected (out of domain)
fn step_pair(sut_db: &Db, ref_db: &Db, sut_sql: &Result<String, String>, ref_sql: &str, probes: bool) -> Result<bool, (String, String)> {
    if let Err(_e) = ref_db.exec(ref_sql) {
        SKIPPED.inc();
        return Ok(false);
    }
    EXECUTED.inc();
    let sut_sql = match sut_sql {
        Ok(s) => s,
        Err(p) => return Err(("render-panic".into(), format!("rendering panicked: {p}; the reference {ref_sql:?} is accepted"))),
    };
    if let Err(e) = sut_db.exec(sut_sql) {
        return Err(("engine-rejects".into(), format!("sqlite3 rejects {sut_sql:?}: {e}; the reference {ref_sql:?} is accepted")));
    }
    let (s1, s2) = (snapshot(sut_db, probes), snapshot(ref_db, probes));
    if s1 != s2 {
        let diff: Vec<String> = s1.iter().filter(|l| !s2.contains(l)).map(|l| format!("+{l}")).chain(s2.iter().filter(|l| !s1.contains(l)).map(|l| format!("-{l}"))).take(8).collect();
        return Err(("catalogue-differs".into(), format!("after {sut_sql:?} the catalogue differs from the one after the reference {ref_sql:?}: {:?}", diff)));
    }
    Ok(true)
}

// ---------------------------------------------------------------------------------------------
// (1) single-column definitions

fn check_column(ct: &CT, specs: &[CS]) -> Result<bool, (String, String)> {
    if specs.contains(&CS::Null) && specs.contains(&CS::NotNull) {
        return Ok(false); // contradictory declaration: no intended meaning
    }
    if specs.iter().filter(|s| matches!(s, CS::DefaultInt | CS::DefaultStr)).count() > 1 || specs.iter().filter(|s| matches!(s, CS::GeneratedStored | CS::GeneratedVirtual)).count() > 1 {
        return Ok(false);
    }
    let sut = catch(|| {
        let mut c = ColumnDef::new(a("c"));
        ct.apply(&mut c);
        for s in specs {
            apply_spec(&mut c, *s);
        }
        Table::create().table(a("t")).col(ColumnDef::new(a("k")).integer()).col(c).to_string(SqliteQueryBuilder)
    });
    let reference = format!("CREATE TABLE \"t\" ( \"k\" INTEGER, {} )", ref_column(ct, specs));
    let (d1, d2) = fresh_pair("");
    let r = step_pair(&d1, &d2, &sut, &reference, true)?;
    if r {
        // the declared type must carry the intended affinity
        let decl = d1.query("SELECT type FROM pragma_table_xinfo('t') WHERE name='c'", &[]).ok().and_then(|r| r.rows.get(0).map(|r| txt(&r[0]))).unwrap_or_default();
        let got = affinity_of(&decl);
        let want = ct.intended();
        let ok = got == want || (want == Aff::Numeric && got == Aff::Integer);
        if !ok {
            return Err(("wrong-affinity".into(), format!("{:?} is declared as {decl:?}, which has {:?} affinity; intended {:?}", ct, got, want)));
        }
    }
    Ok(r)
}

// ---------------------------------------------------------------------------------------------
// (2) multi-column tables with table-level elements

#[derive(Clone, Debug)]
pub struct TableS {
    pk: u8,      // 0 none, 1 (id), 2 (id, a)
    uq: u8,      // 0 none, 1 (a), 2 (a desc, b)
    fk: Option<(Option<ForeignKeyAction>, Option<ForeignKeyAction>)>,
    check: bool,
    if_not_exists: bool,
    /// a second foreign key (`id` -> p.id, ON DELETE CASCADE); both keys are then declared without a name
    fk2: bool,
    /// the primary key and the unique constraint are declared through ONE index builder, reused after `primary_key`
    /// (which takes the builder's content and must leave a fresh builder behind)
    shared: bool,
}

fn act_sql(x: ForeignKeyAction) -> &'static str {
    match x {
        ForeignKeyAction::Restrict => "RESTRICT",
        ForeignKeyAction::Cascade => "CASCADE",
        ForeignKeyAction::SetNull => "SET NULL",
        ForeignKeyAction::NoAction => "NO ACTION",
        ForeignKeyAction::SetDefault => "SET DEFAULT",
    }
}

/// a composite foreign key spelled call by call: `order` is a permutation of the six calls from_tbl, from_col(a),
/// from_col(b), to_tbl, to_col(id), to_col(id2) (0..6) that keeps each column list in its order
fn check_fk_call_order(order: &[u8]) -> Result<bool, (String, String)> {
    let sut = catch(|| {
        let mut f = ForeignKey::create();
        f.name("fkc");
        for c in order {
            match c {
                0 => f.from_tbl(a("t")),
                1 => f.from_col(a("a")),
                2 => f.from_col(a("b")),
                3 => f.to_tbl(a("p")),
                4 => f.to_col(a("id")),
                _ => f.to_col(a("id2")),
            };
        }
        f.on_delete(ForeignKeyAction::Cascade);
        let mut s = Table::create();
        s.table(a("t")).col(ColumnDef::new(a("k")).integer()).col(ColumnDef::new(a("a")).integer()).col(ColumnDef::new(a("b")).integer()).foreign_key(&mut f);
        s.to_string(SqliteQueryBuilder)
    });
    let r = "CREATE TABLE \"t\" ( \"k\" INTEGER, \"a\" INTEGER, \"b\" INTEGER, CONSTRAINT \"fkc\" FOREIGN KEY (\"a\", \"b\") REFERENCES \"p\" (\"id\", \"id2\") ON DELETE CASCADE )";
    let (d1, d2) = fresh_pair("CREATE TABLE p (id INTEGER, id2 INTEGER, PRIMARY KEY (id, id2)); INSERT INTO p VALUES (7, 7), (13, 13), (0, 0);");
    step_pair(&d1, &d2, &sut, r, true)
}

pub fn fk_call_orders() -> Vec<Vec<u8>> {
    fn rec(cur: &mut Vec<u8>, used: &mut [bool; 6], out: &mut Vec<Vec<u8>>) {
        if cur.len() == 6 {
            out.push(cur.clone());
            return;
        }
        for c in 0..6u8 {
            if used[c as usize] || (c == 2 && !used[1]) || (c == 5 && !used[4]) {
                continue;
            }
            used[c as usize] = true;
            cur.push(c);
            rec(cur, used, out);
            cur.pop();
            used[c as usize] = false;
        }
    }
    let mut out = vec![];
    rec(&mut vec![], &mut [false; 6], &mut out);
    out
}

fn check_table(t: &TableS) -> Result<bool, (String, String)> {
    let sut = catch(|| {
        let mut s = Table::create();
        s.table(a("t"));
        if t.if_not_exists {
            s.if_not_exists();
        }
        s.col(ColumnDef::new(a("id")).integer().not_null()).col(ColumnDef::new(a("a")).integer()).col(ColumnDef::new(a("b")).string().default("d"));
        let mut key = Index::create();
        match t.pk {
            1 if t.shared => {
                s.primary_key(key.col(a("id")));
            }
            2 if t.shared => {
                s.primary_key(key.col(a("id")).col(a("a")));
            }
            1 => {
                s.primary_key(Index::create().col(a("id")));
            }
            2 => {
                s.primary_key(Index::create().col(a("id")).col(a("a")));
            }
            _ => {}
        }
        let mut fresh = Index::create();
        let uqb = if t.shared { &mut key } else { &mut fresh };
        match t.uq {
            1 => {
                s.index(uqb.unique().name("u1").col(a("a")));
            }
            2 => {
                s.index(uqb.unique().name("u2").col((a("a"), IndexOrder::Desc)).col(a("b")));
            }
            _ => {}
        }
        if let Some((od, ou)) = &t.fk {
            let mut f = ForeignKey::create();
            if !t.fk2 {
                f.name("fk1");
            }
            f.from(a("t"), a("a")).to(a("p"), a("id"));
            if let Some(x) = od {
                f.on_delete(*x);
            }
            if let Some(x) = ou {
                f.on_update(*x);
            }
            s.foreign_key(&mut f);
            if t.fk2 {
                s.foreign_key(ForeignKey::create().from(a("t"), a("id")).to(a("p"), a("id")).on_delete(ForeignKeyAction::Cascade));
            }
        }
        if t.check {
            s.check(Expr::col(a("a")).gt(0));
        }
        // the usual way to finish a builder chain: move the statement out, render the moved value
        let s = s.take();
        s.to_string(SqliteQueryBuilder)
    });
    let mut r = String::from("CREATE TABLE ");
    if t.if_not_exists {
        r.push_str("IF NOT EXISTS ");
    }
    r.push_str("\"t\" ( \"id\" INTEGER NOT NULL, \"a\" INTEGER, \"b\" TEXT DEFAULT 'd'");
    match t.pk {
        1 => r.push_str(", PRIMARY KEY (\"id\")"),
        2 => r.push_str(", PRIMARY KEY (\"id\", \"a\")"),
        _ => {}
    }
    match t.uq {
        1 => r.push_str(", CONSTRAINT \"u1\" UNIQUE (\"a\")"),
        2 => r.push_str(", CONSTRAINT \"u2\" UNIQUE (\"a\" DESC, \"b\")"),
        _ => {}
    }
    if let Some((od, ou)) = &t.fk {
        r.push_str(", FOREIGN KEY (\"a\") REFERENCES \"p\" (\"id\")");
        if let Some(x) = od {
            r.push_str(&format!(" ON DELETE {}", act_sql(*x)));
        }
        if let Some(x) = ou {
            r.push_str(&format!(" ON UPDATE {}", act_sql(*x)));
        }
        if t.fk2 {
            r.push_str(", FOREIGN KEY (\"id\") REFERENCES \"p\" (\"id\") ON DELETE CASCADE");
        }
    }
    if t.check {
        r.push_str(", CHECK (\"a\" > 0)");
    }
    r.push_str(" )");
    let (d1, d2) = fresh_pair("CREATE TABLE p (id INTEGER PRIMARY KEY); INSERT INTO p VALUES (7), (13);");
    step_pair(&d1, &d2, &sut, &r, true)
}

// ---------------------------------------------------------------------------------------------
// (3) sequences of follow-up statements

#[derive(Clone, Copy, Debug, PartialEq)]
pub enum SOp {
    AddColumnInt,
    AddColumnTextNotNullDefault,
    AddColumnRealCheck,
    RenameColumnA,
    RenameColumnB,
    DropColumnA,
    DropColumnB,
    RenameTable,
    CreateIndexA,
    CreateUniqueIndexB,
    CreateIndexAIfNotExists,
    CreatePartialIndexA,
    CreateUniquePartialIndexTwoPredicates,
    CreatePartialIndexAnyGroup,
    CreateIndexADescB,
    DropIndexI1,
    DropIndexI2IfExists,
    DropTable,
    DropTableIfExists,
}
pub const SOPS: [SOp; 19] = [
    SOp::AddColumnInt, SOp::AddColumnTextNotNullDefault, SOp::AddColumnRealCheck, SOp::RenameColumnA, SOp::RenameColumnB, SOp::DropColumnA, SOp::DropColumnB, SOp::RenameTable, SOp::CreateIndexA,
    SOp::CreateUniqueIndexB, SOp::CreateIndexAIfNotExists, SOp::CreatePartialIndexA, SOp::CreateUniquePartialIndexTwoPredicates, SOp::CreatePartialIndexAnyGroup, SOp::CreateIndexADescB, SOp::DropIndexI1, SOp::DropIndexI2IfExists, SOp::DropTable, SOp::DropTableIfExists,
];

/// (sea-query rendering, reference rendering) of one follow-up statement; `tbl` is the current table name
fn sop_pair(op: SOp, tbl: &'static str) -> (Result<String, String>, String) {
    let q = |s: &str| format!("\"{s}\"");
    match op {
        SOp::AddColumnInt => (catch(|| Table::alter().table(a(tbl)).add_column(ColumnDef::new(a("c")).integer()).to_string(SqliteQueryBuilder)), format!("ALTER TABLE {} ADD COLUMN \"c\" INTEGER", q(tbl))),
        SOp::AddColumnTextNotNullDefault => (catch(|| Table::alter().table(a(tbl)).add_column(ColumnDef::new(a("d")).text().not_null().default("x")).to_string(SqliteQueryBuilder)), format!("ALTER TABLE {} ADD COLUMN \"d\" TEXT NOT NULL DEFAULT 'x'", q(tbl))),
        SOp::AddColumnRealCheck => (catch(|| Table::alter().table(a(tbl)).add_column(ColumnDef::new(a("e")).double().check(Expr::col(a("e")).ne(13))).to_string(SqliteQueryBuilder)), format!("ALTER TABLE {} ADD COLUMN \"e\" REAL CHECK (\"e\" <> 13)", q(tbl))),
        SOp::RenameColumnA => (catch(|| Table::alter().table(a(tbl)).rename_column(a("a"), a("a2")).to_string(SqliteQueryBuilder)), format!("ALTER TABLE {} RENAME COLUMN \"a\" TO \"a2\"", q(tbl))),
        SOp::RenameColumnB => (catch(|| Table::alter().table(a(tbl)).rename_column(a("b"), a("b2")).to_string(SqliteQueryBuilder)), format!("ALTER TABLE {} RENAME COLUMN \"b\" TO \"b2\"", q(tbl))),
        SOp::DropColumnA => (catch(|| Table::alter().table(a(tbl)).drop_column(a("a")).to_string(SqliteQueryBuilder)), format!("ALTER TABLE {} DROP COLUMN \"a\"", q(tbl))),
        SOp::DropColumnB => (catch(|| Table::alter().table(a(tbl)).drop_column(a("b")).to_string(SqliteQueryBuilder)), format!("ALTER TABLE {} DROP COLUMN \"b\"", q(tbl))),
        SOp::RenameTable => (catch(|| Table::rename().table(a(tbl), a("t9")).to_string(SqliteQueryBuilder)), format!("ALTER TABLE {} RENAME TO \"t9\"", q(tbl))),
        SOp::CreateIndexA => (catch(|| Index::create().name("i\"1").table(a(tbl)).col(a("a")).to_string(SqliteQueryBuilder)), format!("CREATE INDEX \"i\"\"1\" ON {} (\"a\")", q(tbl))),
        SOp::CreateUniqueIndexB => (catch(|| Index::create().unique().name("i 2\"").table(a(tbl)).col(a("b")).to_string(SqliteQueryBuilder)), format!("CREATE UNIQUE INDEX \"i 2\"\"\" ON {} (\"b\")", q(tbl))),
        SOp::CreateIndexAIfNotExists => (catch(|| Index::create().if_not_exists().name("i\"1").table(a(tbl)).col(a("a")).to_string(SqliteQueryBuilder)), format!("CREATE INDEX IF NOT EXISTS \"i\"\"1\" ON {} (\"a\")", q(tbl))),
        SOp::CreatePartialIndexA => (catch(|| Index::create().name("i3").table(a(tbl)).col(a("a")).and_where(Expr::col(a("a")).gt(5)).to_string(SqliteQueryBuilder)), format!("CREATE INDEX \"i3\" ON {} (\"a\") WHERE \"a\" > 5", q(tbl))),
        SOp::CreateUniquePartialIndexTwoPredicates => (
            catch(|| Index::create().unique().name("i5").table(a(tbl)).col(a("b")).and_where(Expr::col(a("a")).gt(5)).and_where(Expr::col(a("a")).lt(100)).to_string(SqliteQueryBuilder)),
            format!("CREATE UNIQUE INDEX \"i5\" ON {} (\"b\") WHERE (\"a\" > 5) AND (\"a\" < 100)", q(tbl)),
        ),
        SOp::CreatePartialIndexAnyGroup => (
            catch(|| Index::create().name("i6").table(a(tbl)).col(a("a")).cond_where(Cond::any().add(Expr::col(a("a")).lt(2)).add(Expr::col(a("b")).is_null())).and_where(Expr::col(a("a")).ne(7)).to_string(SqliteQueryBuilder)),
            format!("CREATE INDEX \"i6\" ON {} (\"a\") WHERE ((\"a\" < 2) OR (\"b\" IS NULL)) AND (\"a\" <> 7)", q(tbl)),
        ),
        SOp::CreateIndexADescB => (catch(|| Index::create().name("i4").table(a(tbl)).col((a("a"), IndexOrder::Desc)).col((a("b"), IndexOrder::Asc)).to_string(SqliteQueryBuilder)), format!("CREATE INDEX \"i4\" ON {} (\"a\" DESC, \"b\" ASC)", q(tbl))),
        SOp::DropIndexI1 => (catch(|| Index::drop().name("i\"1").table(a(tbl)).to_string(SqliteQueryBuilder)), "DROP INDEX \"i\"\"1\"".into()),
        SOp::DropIndexI2IfExists => (catch(|| Index::drop().if_exists().name("i 2\"").table(a(tbl)).to_string(SqliteQueryBuilder)), "DROP INDEX IF EXISTS \"i 2\"\"\"".into()),
        SOp::DropTable => (catch(|| Table::drop().table(a(tbl)).to_string(SqliteQueryBuilder)), format!("DROP TABLE {}", q(tbl))),
        SOp::DropTableIfExists => (catch(|| Table::drop().if_exists().table(a(tbl)).to_string(SqliteQueryBuilder)), format!("DROP TABLE IF EXISTS {}", q(tbl))),
    }
}

fn check_sequence(seq: &[SOp]) -> Result<usize, (String, String)> {
    let base = "CREATE TABLE t (id INTEGER PRIMARY KEY, a INTEGER, b TEXT); INSERT INTO t VALUES (1, 3, 'x'), (2, 9, 'y');";
    let (d1, d2) = fresh_pair(base);
    let mut tbl: &'static str = "t";
    let mut done = 0;
    for op in seq {
        let (sut, reference) = sop_pair(*op, tbl);
        if !step_pair(&d1, &d2, &sut, &reference, false)? {
            break; // the reference statement is not valid in this catalogue state: the rest is out of domain
        }
        done += 1;
        if *op == SOp::RenameTable {
            tbl = "t9";
        }
    }
    Ok(done)
}

pub fn run(rep: &Arc<Report>) {
    let cfg = if cfg!(feature = "sqlite-exact") { "option-sqlite-exact-column-type" } else { "default" };
    // conformance of the affinity rule against the engine: typeof() of stored probes for every type name used
    {
        let db = Db::open_memory();
        for decl in ["INTEGER", "tinyint", "bigint", "REAL", "float", "double", "real(10, 2)", "real_money", "TEXT", "varchar(5)", "char", "datetime_text", "timestamp_with_timezone_text", "uuid_text", "BLOB", "blob(16)", "varbinary_blob(255)", "boolean", "BOOLEAN", "TINYINT"] {
            db.exec(&format!("DROP TABLE IF EXISTS x; CREATE TABLE x (c {decl}); INSERT INTO x VALUES ('12'), (1.5), (x'00')")).expect("affinity probe");
            let tys: Vec<String> = db.query("SELECT typeof(c) FROM x ORDER BY rowid", &[]).unwrap().rows.iter().map(|r| txt(&r[0])).collect();
            let engine = match (tys[0].as_str(), tys[1].as_str()) {
                ("integer", "real") => "Integer-or-Numeric",
                ("real", "real") => "Real",
                ("text", "text") => "Text",
                ("text", "real") => "Blob",
                _ => "?",
            };
            let rule = match affinity_of(decl) {
                Aff::Integer | Aff::Numeric => "Integer-or-Numeric",
                Aff::Real => "Real",
                Aff::Text => "Text",
                Aff::Blob => "Blob",
            };
            if engine != rule {
                eprintln!("MACHINERY FAILURE: affinity rule says {rule} for {decl:?}, the engine behaves as {engine} ({:?})", tys);
                std::process::exit(3);
            }
        }
    }
    let k = if rep.thorough() { 4 } else { 3 };
    let perms = perms_of_subsets(ALL_SPECS.len(), k);
    let types = all_types();
    let mut col_cases: Vec<(CT, Vec<CS>)> = vec![];
    for ct in &types {
        for p in &perms {
            // size-4 permutations (thorough) only for four representative types
            if p.len() == 4 && !matches!(ct, CT::Integer | CT::BigUnsigned | CT::String(None) | CT::Boolean) {
                continue;
            }
            col_cases.push((ct.clone(), p.iter().map(|i| ALL_SPECS[*i]).collect()));
        }
    }
    let record = |site: &str, sig: &str, key: String, what: String, case: serde_json::Value| {
        rep.raw_failures.inc();
        rep.violation(Violation { key: format!("{site}|{sig}|{key}"), what: format!("[{cfg}] {what}"), case });
    };
    par_items(&col_cases, |_w, (ct, specs)| {
        if let Err((sig, det)) = check_column(ct, specs) {
            // minimise: drop specs while the signature stays
            let mut min = specs.clone();
            'outer: loop {
                for i in 0..min.len() {
                    let mut t = min.clone();
                    t.remove(i);
                    if check_column(ct, &t).err().map(|e| e.0).as_deref() == Some(&sig) {
                        min = t;
                        continue 'outer;
                    }
                }
                break;
            }
            let mut names: Vec<String> = min.iter().map(|s| format!("{:?}", s)).collect();
            names.sort();
            let det = check_column(ct, &min).err().map(|e| e.1).unwrap_or(det);
            record("column", &sig, format!("{:?}|{}", ct, names.join(";")), format!("column {:?} {:?}: {}", ct, min, det), json!({"kind": "column", "type": format!("{:?}", ct), "specs": min.iter().map(|s| format!("{:?}", s)).collect::<Vec<_>>()}));
        }
    });
    // (2)
    let acts = [None, Some(ForeignKeyAction::Restrict), Some(ForeignKeyAction::Cascade), Some(ForeignKeyAction::SetNull), Some(ForeignKeyAction::NoAction), Some(ForeignKeyAction::SetDefault)];
    let mut tables = vec![];
    for pk in 0..3u8 {
        for uq in 0..3u8 {
            for check in [false, true] {
                for ine in [false, true] {
                    tables.push(TableS { pk, uq, fk: None, check, if_not_exists: ine, fk2: false, shared: false });
                    if pk > 0 && uq > 0 {
                        tables.push(TableS { pk, uq, fk: None, check, if_not_exists: ine, fk2: false, shared: true });
                    }
                    for od in acts {
                        for ou in acts {
                            if ine && (pk > 0 || uq > 0) {
                                continue;
                            }
                            tables.push(TableS { pk, uq, fk: Some((od, ou)), check, if_not_exists: ine, fk2: false, shared: false });
                            if od.is_none() || ou.is_none() {
                                tables.push(TableS { pk, uq, fk: Some((od, ou)), check, if_not_exists: ine, fk2: true, shared: false });
                            }
                        }
                    }
                }
            }
        }
    }
    par_items(&tables, |_w, t| {
        if let Err((sig, det)) = check_table(t) {
            record("table", &sig, format!("{:?}", t), format!("table {:?}: {}", t, det), json!({"kind": "table", "spec": format!("{:?}", t), "pk": t.pk, "uq": t.uq, "check": t.check, "if_not_exists": t.if_not_exists, "fk2": t.fk2, "shared": t.shared, "fk": t.fk.map(|(a, b)| (a.map(|x| act_sql(x)), b.map(|x| act_sql(x))))}));
        }
    });
    // (2b) the foreign-key builder spelled call by call, in every order of its calls
    let orders = fk_call_orders();
    par_items(&orders, |_w, o| {
        if let Err((sig, det)) = check_fk_call_order(o) {
            record("fk-call-order", &sig, format!("{:?}", o), format!("foreign key built by the calls {:?} (0 from_tbl, 1 from_col a, 2 from_col b, 3 to_tbl, 4 to_col id, 5 to_col id2): {}", o, det), json!({"kind": "fk-call-order", "order": o}));
        }
    });
    rep.set("foreign_key_call_orders", json!(orders.len()));
    // (3)
    let depth = if rep.thorough() { 4 } else { 3 };
    let mut seqs: Vec<Vec<SOp>> = vec![vec![]];
    let mut frontier: Vec<Vec<SOp>> = vec![vec![]];
    for _ in 0..depth {
        let mut next = vec![];
        for s in &frontier {
            for op in SOPS {
                let mut t = s.clone();
                t.push(op);
                next.push(t);
            }
        }
        seqs.extend(next.iter().cloned());
        frontier = next;
    }
    let full = seqs.iter().filter(|s| s.len() == depth).cloned().collect::<Vec<_>>();
    let steps_done = Counter::new();
    par_items(&full, |_w, s| match check_sequence(s) {
        Ok(n) => steps_done.add(n as u64),
        Err((sig, det)) => {
            // minimise: shortest prefix / sub-sequence with the same signature
            let mut min = s.clone();
            'outer: loop {
                for i in 0..min.len() {
                    let mut t = min.clone();
                    t.remove(i);
                    if check_sequence(&t).err().map(|e| e.0).as_deref() == Some(&sig) {
                        min = t;
                        continue 'outer;
                    }
                }
                break;
            }
            let det = check_sequence(&min).err().map(|e| e.1).unwrap_or(det);
            record("sequence", &sig, min.iter().map(|o| format!("{:?}", o)).collect::<Vec<_>>().join(";"), format!("sequence {:?}: {}", min, det), json!({"kind": "sequence", "ops": min.iter().map(|o| format!("{:?}", o)).collect::<Vec<_>>()}));
        }
    });
    let n = col_cases.len() + tables.len() + full.len();
    rep.set("config", json!(cfg));
    rep.set("column_types", json!(types.len()));
    rep.set("spec_permutations_per_type", json!(perms.len()));
    rep.set("single_column_tables", json!(col_cases.len()));
    rep.set("multi_column_tables", json!(tables.len()));
    rep.set("follow_up_sequences", json!({"depth": depth, "menu": SOPS.len(), "sequences": full.len(), "statement_steps_executed": steps_done.get()}));
    rep.set("states", json!(n));
    rep.set("transitions", json!(EXECUTED.get() + SKIPPED.get()));
    rep.set("statements_executed_on_both_engines", json!(EXECUTED.get()));
    rep.set("declarations_out_of_domain_reference_rejected", json!(SKIPPED.get()));
    rep.set("traces_validated_against_impl", json!(EXECUTED.get()));
    rep.set("evaluations", json!(n));
    rep.set("distinct_nontrivial", json!(EXECUTED.get()));
    rep.set("rule", json!("each declaration / statement sequence is rendered by sea-query and by the explicit reference renderer, both are executed on two identical SQLite databases and the engines' catalogues + probe outcomes are compared; distinct_nontrivial = statements the engine accepted in reference form (the rest are contradictory declarations)"));
    rep.set("exhaustive", json!(true));
    rep.sample(json!({"declaration": "BigInteger [PrimaryKey, AutoIncrement, NotNull]", "reference": format!("CREATE TABLE \"t\" ( \"k\" INTEGER, {} )", ref_column(&CT::BigInteger, &[CS::PrimaryKey, CS::AutoIncrement, CS::NotNull]))}));
    rep.assume("intended affinities: integer types -> INTEGER, float/double/decimal/money -> REAL, char/string/text/date-time/json/uuid/enum -> TEXT, binary/blob -> BLOB, boolean -> NUMERIC or INTEGER; only columns declared exactly INTEGER can be AUTOINCREMENT rowid aliases (Integer, BigInteger, Unsigned, BigUnsigned)");
    if let Ok(t) = std::fs::read_to_string(format!("{}/evidence/C13.sqlite-exact.json", crate::report::VERIF)) {
        if let Ok(j) = serde_json::from_str::<serde_json::Value>(&t) {
            if cfg == "default" {
                rep.set("option_sqlite_exact_column_type_run", json!({"evaluations": j["coverage"]["evaluations"], "violations": j["violations"], "wall_s": j["wall_s"]}));
            }
        }
    }
}

pub fn replay(case: &serde_json::Value) -> Option<String> {
    let parse_cs = |s: &str| ALL_SPECS.iter().copied().find(|c| format!("{:?}", c) == s);
    match case["kind"].as_str().unwrap_or("") {
        "column" => {
            let ct = all_types().into_iter().find(|c| format!("{:?}", c) == case["type"].as_str().unwrap_or(""))?;
            let specs: Vec<CS> = case["specs"].as_array()?.iter().filter_map(|s| s.as_str().and_then(parse_cs)).collect();
            check_column(&ct, &specs).err().map(|(sig, det)| format!("column {:?} {:?}: [{sig}] {det}", ct, specs))
        }
        "fk-call-order" => {
            let o: Vec<u8> = case["order"].as_array()?.iter().map(|x| x.as_u64().unwrap_or(0) as u8).collect();
            check_fk_call_order(&o).err().map(|(sig, det)| format!("fk call order {:?}: [{sig}] {det}", o))
        }
        "sequence" => {
            let ops: Vec<SOp> = case["ops"].as_array()?.iter().filter_map(|s| s.as_str().and_then(|s| SOPS.iter().copied().find(|o| format!("{:?}", o) == s))).collect();
            check_sequence(&ops).err().map(|(sig, det)| format!("sequence {:?}: [{sig}] {det}", ops))
        }
        "table" => {
            let act = |v: &serde_json::Value| -> Option<ForeignKeyAction> { [ForeignKeyAction::Restrict, ForeignKeyAction::Cascade, ForeignKeyAction::SetNull, ForeignKeyAction::NoAction, ForeignKeyAction::SetDefault].into_iter().find(|x| Some(act_sql(*x)) == v.as_str()) };
            let fk = if serde_json::Value::is_null(&case["fk"]) { None } else { Some((act(&case["fk"][0]), act(&case["fk"][1]))) };
            let t = TableS { pk: case["pk"].as_u64().unwrap_or(0) as u8, uq: case["uq"].as_u64().unwrap_or(0) as u8, fk, check: case["check"].as_bool().unwrap_or(false), if_not_exists: case["if_not_exists"].as_bool().unwrap_or(false), fk2: case["fk2"].as_bool().unwrap_or(false), shared: case["shared"].as_bool().unwrap_or(false) };
            check_table(&t).err().map(|(sig, det)| format!("table {:?}: [{sig}] {det}", t))
        }
        _ => Some("MACHINERY: unknown replay kind".into()),
    }
}
