//! C16 — the tokenizer is lossless and terminates (DESIGN §3.16).
//!
//! Space: the trie of all strings over Σ_tok up to length n (state = string, transition = append
//! one symbol), plus every Unicode scalar in four fixed contexts. Each input is run through the
//! real `Tokenizer`; the oracle is written from the property's words only.

use crate::enumerate::for_each_string;
use crate::report::{minimize, string_reductions_in, Report, Violation};
use crate::util::{catch, show, with_timeout, Counter};
use sea_query::{Token, Tokenizer};
use serde_json::json;
use std::collections::HashSet;
use std::sync::atomic::{AtomicU64, Ordering};
use std::sync::{Arc, Mutex};
use std::time::Duration;

pub const SIGMA_TOK: &[char] = &[
    'a', '1', '_', '$', ' ', '\t', '\n', '\r', '\'', '"', '`', '[', ']', '\\', '?', ',', '=', 'é', '\u{a0}', '\u{3000}', '٣',
];

fn closer(open: char) -> char {
    if open == '[' {
        ']'
    } else {
        open
    }
}

/// Reference scanner: char-index ranges of quoted text, computed from the input alone.
/// Outside a span each of ' " ` [ opens one; it runs to the matching close, skipping doubled
/// delimiters (not for [ ]) and backslash-escaped characters, or to the end of input.
pub fn ref_spans(cs: &[char]) -> Vec<(usize, usize)> {
    let mut out = vec![];
    let mut i = 0;
    while i < cs.len() {
        let c = cs[i];
        if matches!(c, '\'' | '"' | '`' | '[') {
            let start = i;
            let close = closer(c);
            let mut esc = false;
            i += 1;
            loop {
                if i >= cs.len() {
                    break;
                }
                let d = cs[i];
                if !esc && d == close {
                    if c != '[' && i + 1 < cs.len() && cs[i + 1] == close {
                        i += 2;
                        continue;
                    }
                    i += 1;
                    break;
                }
                esc = !esc && d == '\\';
                i += 1;
            }
            out.push((start, i));
        } else {
            i += 1;
        }
    }
    out
}

/// Reference unquote of one quoted token: content, doubled delimiters collapsed, backslashes kept.
fn ref_unquote(tok: &[char]) -> String {
    let open = tok[0];
    let close = closer(open);
    let mut out = String::new();
    let mut esc = false;
    let mut i = 1;
    while i < tok.len() {
        let d = tok[i];
        if !esc && d == close {
            if open != '[' && i + 1 < tok.len() && tok[i + 1] == close {
                out.push(d);
                i += 2;
                continue;
            }
            break;
        }
        esc = !esc && d == '\\';
        out.push(d);
        i += 1;
    }
    out
}

/// Returns (signature, detail) on failure; on success a compact shape code for outcome counting.
pub fn check_one(s: &str) -> Result<u64, (String, String)> {
    let cs: Vec<char> = s.chars().collect();
    let n = cs.len();
    let toks = match catch(|| Tokenizer::new(s).iter().take(n + 1).collect::<Vec<Token>>()) {
        Ok(t) => t,
        Err(p) => return Err(("panic".into(), format!("tokenizer panicked: {p}"))),
    };
    if toks.len() > n {
        return Err(("too-many-tokens".into(), format!("{} tokens from {} chars (no progress?)", toks.len(), n)));
    }
    let mut concat = String::new();
    let mut pos = 0usize;
    let mut quoted: Vec<(usize, usize)> = vec![];
    let mut shape: u64 = 1;
    for t in &toks {
        let txt = t.as_str();
        if txt.is_empty() {
            return Err(("empty-token".into(), format!("empty token {:?}", t)));
        }
        let l = txt.chars().count();
        let kind = match t {
            Token::Quoted(_) => {
                quoted.push((pos, pos + l));
                0
            }
            Token::Unquoted(_) => 1,
            Token::Space(_) => 2,
            Token::Punctuation(_) => 3,
        };
        shape = shape.wrapping_mul(5).wrapping_add(kind + 1);
        pos += l;
        concat.push_str(txt);
    }
    if concat != s {
        return Err(("lossy".into(), format!("concatenation {:?} != input {:?}", concat, s)));
    }
    let spans = ref_spans(&cs);
    if spans != quoted {
        return Err((
            "quoted-spans".into(),
            format!("quoted tokens at {:?}, quoted text (reference scanner) at {:?}; tokens {:?}", quoted, spans, toks),
        ));
    }
    for (t, (a, b)) in toks.iter().filter(|t| t.is_quoted()).zip(quoted.iter()) {
        let want = ref_unquote(&cs[*a..*b]);
        match catch(|| t.unquote()) {
            Ok(Some(got)) if got == want => {}
            other => {
                return Err(("unquote".into(), format!("unquote({:?}) = {:?}, expected {:?}", t.as_str(), other, want)));
            }
        }
    }
    for t in toks.iter().filter(|t| !t.is_quoted()) {
        if t.unquote().is_some() {
            return Err(("unquote".into(), format!("unquote of non-quoted token {:?} is Some", t)));
        }
    }
    Ok(shape)
}

fn fails(s: &String) -> Option<String> {
    check_one(s).err().map(|e| e.0)
}

fn record(rep: &Report, s: &str, sig: &str) {
    rep.raw_failures.inc();
    let min = minimize(s.to_string(), sig, |x| string_reductions_in(x, SIGMA_TOK), fails);
    let detail = check_one(&min).err().map(|e| e.1).unwrap_or_default();
    rep.violation(Violation {
        key: format!("tokenize|{}|{}", sig, show(&min)),
        what: format!("input {:?}: {}", min, detail),
        case: json!({"input": min}),
    });
}

pub fn run(rep: &Arc<Report>) {
    let n = if rep.thorough() { 7 } else { 6 };
    let nw = crate::util::n_workers();
    // watchdog: worker w publishes the input it is working on
    let slots: Arc<Vec<(AtomicU64, Mutex<String>)>> =
        Arc::new((0..nw.max(1)).map(|_| (AtomicU64::new(0), Mutex::new(String::new()))).collect());
    let done = Arc::new(std::sync::atomic::AtomicBool::new(false));
    {
        let slots = slots.clone();
        let done = done.clone();
        let rep = rep.clone();
        std::thread::spawn(move || {
            let mut last: Vec<(u64, u32)> = vec![(0, 0); slots.len()];
            while !done.load(Ordering::Relaxed) {
                std::thread::sleep(Duration::from_millis(500));
                for (w, sl) in slots.iter().enumerate() {
                    let seq = sl.0.load(Ordering::Relaxed);
                    if seq != 0 && seq == last[w].0 && seq % 2 == 1 {
                        last[w].1 += 1;
                        if last[w].1 >= 20 {
                            let input = sl.1.lock().unwrap().clone();
                            rep.violation(Violation {
                                key: format!("tokenize|hang|{}", show(&input)),
                                what: format!("tokenizing {:?} did not finish within 10 s", input),
                                case: json!({"input": input}),
                            });
                            rep.set("exhaustive", json!(false));
                            rep.set("states", json!(1));
                            rep.set("transitions", json!(1));
                            rep.set("traces_validated_against_impl", json!(0));
                            rep.sample(json!({"input": input}));
                            let code = rep.finish();
                            std::process::exit(code.max(1));
                        }
                    } else {
                        last[w] = (seq, 0);
                    }
                }
            }
        });
    }
    let shapes: Vec<Mutex<HashSet<u64>>> = (0..nw).map(|_| Mutex::new(HashSet::new())).collect();
    let ntok = Counter::new();
    let quoted_inputs = Counter::new();
    let visit = |w: usize, s: &str| {
        let sl = &slots[w];
        {
            let mut g = sl.1.lock().unwrap();
            g.clear();
            g.push_str(s);
        }
        sl.0.fetch_add(1, Ordering::Relaxed); // odd = busy
        let r = check_one(s);
        sl.0.fetch_add(1, Ordering::Relaxed); // even = idle
        match r {
            Ok(shape) => {
                let mut g = shapes[w].lock().unwrap();
                g.insert(shape);
                if s.contains(['\'', '"', '`', '[']) {
                    quoted_inputs.inc();
                }
                ntok.inc();
            }
            Err((sig, _)) => record(rep, s, &sig),
        }
    };
    let (states, transitions) = for_each_string(SIGMA_TOK, n, visit);
    // every Unicode scalar value, in four contexts
    let chars: Vec<u32> = (0..=0x10FFFFu32).filter(|c| char::from_u32(*c).is_some()).collect();
    let unicode_cases = Counter::new();
    crate::util::par_range(chars.len() as u64, 4096, |w, i| {
        let c = char::from_u32(chars[i as usize]).unwrap();
        for ctx in 0..4 {
            let s: String = match ctx {
                0 => c.to_string(),
                1 => format!("'{c}'?"),
                2 => format!("a{c}?"),
                _ => format!("{c}a$1"),
            };
            unicode_cases.inc();
            visit(w, &s);
        }
    });
    done.store(true, Ordering::Relaxed);
    let mut all = HashSet::new();
    for s in &shapes {
        all.extend(s.lock().unwrap().iter().copied());
    }
    rep.set("alphabet", json!(SIGMA_TOK.iter().map(|c| show(&c.to_string())).collect::<Vec<_>>()));
    rep.set("max_len", json!(n));
    rep.set("states", json!(states + unicode_cases.get()));
    rep.set("transitions", json!(transitions + unicode_cases.get()));
    rep.set("traces_validated_against_impl", json!(states + unicode_cases.get()));
    rep.set("evaluations", json!(states + unicode_cases.get()));
    rep.set("distinct_nontrivial", json!(all.len()));
    rep.set("rule", json!("every string over the 19-symbol alphabet up to max_len, plus every Unicode scalar in 4 contexts; each is tokenized by the real Tokenizer; distinct_nontrivial = distinct token-kind sequences observed"));
    rep.set("inputs_containing_a_quote_delimiter", json!(quoted_inputs.get()));
    rep.set("unicode_scalar_cases", json!(unicode_cases.get()));
    rep.set("exhaustive", json!(true));
    for s in ["a'?'$1", "'a''?", "[?]]?", "\"\\\"?\"?", "é٣ \u{3000}$"] {
        let toks: Vec<String> = Tokenizer::new(s).iter().map(|t| format!("{:?}", t)).collect();
        rep.sample(json!({"input": s, "tokens": toks}));
    }
    rep.assume("the set of quote delimiters is ' \" ` and [ ]; doubling applies to ' \" ` only; a backslash escapes the next character inside quotes");
}

pub fn replay(case: &serde_json::Value) -> Option<String> {
    let s = case["input"].as_str().unwrap_or("").to_string();
    let s2 = s.clone();
    match with_timeout(Duration::from_secs(10), move || check_one(&s2)) {
        None => Some(format!("tokenizing {:?} did not finish within 10 s", s)),
        Some(Ok(_)) => None,
        Some(Err((sig, d))) => Some(format!("input {:?}: [{}] {}", s, sig, d)),
    }
}
