//! C04 — identifiers are quoted so that they decode to exactly the supplied name (DESIGN §3.4).
//!
//! Space: all non-empty strings over Σ_id up to length n x every identifier position x 3 backends.
//! Oracle: differential against a benign marker name under the dialect's reference lexer: same
//! token skeleton, and every token that carried the marker is one quoted-identifier token decoding
//! to the name. On SQLite the engine confirms (column name / catalogue read back).

use crate::enumerate::for_each_string;
use crate::lex::{lex, skeleton, Dialect, Tok};
use crate::report::{minimize, string_reductions_in, Report, Violation};
use crate::sqlite::{Db, SqlVal};
use crate::util::{catch, show, Counter};
use sea_query::extension::mysql::{IndexHintScope, MySqlSelectStatementExt};
use sea_query::extension::postgres::Type;
use sea_query::*;
use serde_json::json;
use std::cell::RefCell;
use std::collections::HashMap;
use std::sync::Arc;

pub const SIGMA_ID: &[char] = &['a', '"', '`', '\'', '\\', ' ', '.', ';', '-', '[', ']', '$', '?', '*', 'é', '😀'];
const MARK: &str = "m4rk3r";

macro_rules! qb {
    ($d:expr, $stmt:expr) => {
        match $d {
            Dialect::Mysql => $stmt.to_string(MysqlQueryBuilder),
            Dialect::Postgres => $stmt.to_string(PostgresQueryBuilder),
            Dialect::Sqlite => $stmt.to_string(SqliteQueryBuilder),
        }
    };
}

fn a(s: &str) -> Alias {
    Alias::new(s)
}
fn sel() -> SelectStatement {
    let mut s = Query::select();
    s.column(a("c")).from(a("t"));
    s
}

pub struct Pos {
    pub name: &'static str,
    /// 0 none; 1 select alias (column_name); 2 table name via sqlite_master; 3 column name via table_xinfo; 4 index name via sqlite_master
    engine: u8,
    render: fn(&str, Dialect) -> String,
}

#[rustfmt::skip]
pub fn positions() -> Vec<Pos> {
    let p = |name: &'static str, engine: u8, render: fn(&str, Dialect) -> String| Pos { name, engine, render };
    vec![
        p("from-table", 0, |n, d| qb!(d, Query::select().column(a("c")).from(a(n)))),
        p("from-schema.table/schema", 0, |n, d| qb!(d, Query::select().column(a("c")).from((a(n), a("t"))))),
        p("from-schema.table/table", 0, |n, d| qb!(d, Query::select().column(a("c")).from((a("s"), a(n))))),
        p("from-db.schema.table/db", 0, |n, d| qb!(d, Query::select().column(a("c")).from((a(n), a("s"), a("t"))))),
        p("from-db.schema.table/table", 0, |n, d| qb!(d, Query::select().column(a("c")).from((a("d"), a("s"), a(n))))),
        p("from-db.schema.table-alias/db", 0, |n, d| qb!(d, Query::select().column(a("c")).from_as((a(n), a("s"), a("t")), a("x")))),
        p("from-db.schema.table-alias/schema", 0, |n, d| qb!(d, Query::select().column(a("c")).from_as((a("d"), a(n), a("t")), a("x")))),
        p("from-db.schema.table-alias/table", 0, |n, d| qb!(d, Query::select().column(a("c")).from_as((a("d"), a("s"), a(n)), a("x")))),
        p("from-db.schema.table-alias/alias", 0, |n, d| qb!(d, Query::select().column(a("c")).from_as((a("d"), a("s"), a("t")), a(n)))),
        p("join-db.schema.table-alias/schema", 0, |n, d| qb!(d, sel().join_as(JoinType::LeftJoin, (a("d"), a(n), a("u")), a("x"), Expr::col((a("x"), a("c"))).eq(1)))),
        p("delete-schema.table", 0, |n, d| qb!(d, Query::delete().from_table((a(n), a("t"))).and_where(Expr::col(a("c")).eq(1)))),
        p("from-table-alias", 0, |n, d| qb!(d, Query::select().column(a("c")).from_as(a("t"), a(n)))),
        p("from-schema-table-alias", 0, |n, d| qb!(d, Query::select().column(a("c")).from_as((a("s"), a("t")), a(n)))),
        p("select-column", 0, |n, d| qb!(d, Query::select().column(a(n)).from(a("t")))),
        p("select-table.column/table", 0, |n, d| qb!(d, Query::select().column((a(n), a("c"))).from(a("t")))),
        p("select-table.column/column", 0, |n, d| qb!(d, Query::select().column((a("t"), a(n))).from(a("t")))),
        p("select-schema.table.column/schema", 0, |n, d| qb!(d, Query::select().column((a(n), a("t"), a("c"))).from(a("t")))),
        p("select-schema.table.column/column", 0, |n, d| qb!(d, Query::select().column((a("s"), a("t"), a(n))).from(a("t")))),
        p("select-table.*", 0, |n, d| qb!(d, Query::select().column((a(n), Asterisk)).from(a("t")))),
        p("select-alias", 1, |n, d| qb!(d, Query::select().expr_as(Expr::val(1), a(n)))),
        p("where-column", 0, |n, d| qb!(d, sel().and_where(Expr::col(a(n)).eq(1)))),
        p("where-table.column", 0, |n, d| qb!(d, sel().and_where(Expr::col((a(n), a("c"))).eq(1)))),
        p("order-by-column", 0, |n, d| qb!(d, sel().order_by(a(n), Order::Asc))),
        p("order-by-table.column", 0, |n, d| qb!(d, sel().order_by((a("t"), a(n)), Order::Desc))),
        p("group-by-column", 0, |n, d| qb!(d, sel().group_by_col(a(n)))),
        p("join-table", 0, |n, d| qb!(d, sel().left_join(a(n), Expr::col((a("t"), a("c"))).equals((a("u"), a("c")))))),
        p("join-alias", 0, |n, d| qb!(d, sel().join_as(JoinType::InnerJoin, a("u"), a(n), Expr::col((a("t"), a("c"))).eq(1)))),
        p("join-on-column", 0, |n, d| qb!(d, sel().inner_join(a("u"), Expr::col((a("t"), a("c"))).equals((a("u"), a(n)))))),
        p("subquery-alias", 0, |n, d| qb!(d, Query::select().column(a("c")).from_subquery(sel(), a(n)))),
        p("join-subquery-alias", 0, |n, d| qb!(d, sel().join_subquery(JoinType::LeftJoin, sel(), a(n), Expr::col((a("t"), a("c"))).eq(1)))),
        p("values-alias", 0, |n, d| qb!(d, Query::select().column(Asterisk).from_values([(1i32, 2i32)], a(n)))),
        p("function-table-alias", 0, |n, d| qb!(d, Query::select().column(Asterisk).from_function(Func::cust(a("f")).arg(1), a(n)))),
        p("window-name/definition", 0, |n, d| qb!(d, sel().expr_window_name_as(Expr::col(a("c")), a(n), a("x")).window(a(n), WindowStatement::partition_by(a("c"))))),
        p("window-partition-column", 0, |n, d| qb!(d, sel().expr_window_as(Expr::col(a("c")), WindowStatement::partition_by(a(n)), a("x")))),
        p("cte-name", 0, |n, d| qb!(d, sel().with(WithClause::new().cte(CommonTableExpression::new().query(sel()).table_name(a(n)).column(a("c")).to_owned()).to_owned()))),
        p("cte-column", 0, |n, d| qb!(d, sel().with(WithClause::new().cte(CommonTableExpression::new().query(sel()).table_name(a("w")).column(a(n)).to_owned()).to_owned()))),
        p("insert-table", 0, |n, d| qb!(d, Query::insert().into_table(a(n)).columns([a("c")]).values_panic([1.into()]))),
        p("insert-column", 0, |n, d| qb!(d, Query::insert().into_table(a("t")).columns([a("b"), a(n)]).values_panic([1.into(), 2.into()]))),
        p("insert-returning-column", 0, |n, d| qb!(d, Query::insert().into_table(a("t")).columns([a("c")]).values_panic([1.into()]).returning_col(a(n)))),
        p("on-conflict-target", 0, |n, d| qb!(d, Query::insert().into_table(a("t")).columns([a("c")]).values_panic([1.into()]).on_conflict(OnConflict::column(a(n)).do_nothing().to_owned()))),
        p("on-conflict-update-column", 0, |n, d| qb!(d, Query::insert().into_table(a("t")).columns([a("c")]).values_panic([1.into()]).on_conflict(OnConflict::column(a("c")).update_column(a(n)).to_owned()))),
        p("on-conflict-value-column", 0, |n, d| qb!(d, Query::insert().into_table(a("t")).columns([a("c")]).values_panic([1.into()]).on_conflict(OnConflict::column(a("c")).value(a(n), 1).to_owned()))),
        p("on-conflict-do-nothing-on", 0, |n, d| qb!(d, Query::insert().into_table(a("t")).columns([a("c")]).values_panic([1.into()]).on_conflict(OnConflict::column(a("c")).do_nothing_on([a(n)]).to_owned()))),
        p("update-table", 0, |n, d| qb!(d, Query::update().table(a(n)).value(a("c"), 1))),
        p("update-column", 0, |n, d| qb!(d, Query::update().table(a("t")).value(a(n), 1))),
        p("update-column-with-from", 0, |n, d| qb!(d, Query::update().table(a("t")).value(a(n), 1).from(a("u")).and_where(Expr::col((a("t"), a("c"))).equals((a("u"), a("c")))))),
        p("update-table-with-from", 0, |n, d| qb!(d, Query::update().table(a(n)).value(a("c"), 1).value(a("b"), 2).from(a("u")).and_where(Expr::col((a(n), a("c"))).equals((a("u"), a("c")))))),
        p("update-schema.table-with-from", 0, |n, d| qb!(d, Query::update().table((a("s"), a(n))).value(a("c"), 1).from(a("u")))),
        p("update-from-table", 0, |n, d| qb!(d, Query::update().table(a("t")).value(a("c"), 1).from(a(n)))),
        p("update-returning-column", 0, |n, d| qb!(d, Query::update().table(a("t")).value(a("c"), 1).returning(Query::returning().column(a(n))))),
        p("delete-table", 0, |n, d| qb!(d, Query::delete().from_table(a(n)))),
        p("delete-returning-table.column", 0, |n, d| qb!(d, Query::delete().from_table(a("t")).returning(Query::returning().column((a("t"), a(n)))))),
        p("lock-of-table", 0, |n, d| qb!(d, sel().lock_with_tables(LockType::Update, [a(n)]))),
        p("mysql-index-hint", 0, |n, d| qb!(d, sel().use_index(a(n), IndexHintScope::All))),
        p("pg-distinct-on", 0, |n, d| qb!(d, sel().distinct_on([a(n)]))),
        p("pg-search-set-name", 0, |n, d| qb!(d, sel().with(WithClause::new().recursive(true).cte(CommonTableExpression::new().query(sel()).table_name(a("w")).column(a("c")).to_owned()).search(Search::new_from_order_and_expr(SearchOrder::BREADTH, SelectExpr { expr: Expr::col(a("c")).into(), alias: Some(a(n).into_iden()), window: None })).to_owned()))),
        p("pg-cycle-set-name", 0, |n, d| qb!(d, sel().with(WithClause::new().recursive(true).cte(CommonTableExpression::new().query(sel()).table_name(a("w")).column(a("c")).to_owned()).cycle(Cycle::new_from_expr_set_using(Expr::col(a("c")), a(n), a("p"))).to_owned()))),
        p("pg-cycle-using-name", 0, |n, d| qb!(d, sel().with(WithClause::new().recursive(true).cte(CommonTableExpression::new().query(sel()).table_name(a("w")).column(a("c")).to_owned()).cycle(Cycle::new_from_expr_set_using(Expr::col(a("c")), a("q"), a(n))).to_owned()))),
        p("as-enum-cast-type", 0, |n, d| qb!(d, Query::select().expr(Expr::col(a("c")).as_enum(a(n))))),
        p("cast-as-quoted-type", 0, |n, d| {
            let q = match d {
                Dialect::Mysql => QuotedBuilder::quote(&MysqlQueryBuilder),
                Dialect::Postgres => QuotedBuilder::quote(&PostgresQueryBuilder),
                Dialect::Sqlite => QuotedBuilder::quote(&SqliteQueryBuilder),
            };
            qb!(d, Query::select().expr(SimpleExpr::from(Expr::col(a("c"))).cast_as_quoted(a(n), q)).expr(Func::cast_as_quoted("x", a(n), q)))
        }),
        p("cast-as-type-custom-function-arg", 0, |n, d| qb!(d, Query::select().expr(Func::max(Expr::col(a(n)))))),
        // ---- schema statements
        p("create-table/table", 2, |n, d| qb!(d, Table::create().table(a(n)).col(ColumnDef::new(a("c")).integer()))),
        p("create-table/schema", 0, |n, d| qb!(d, Table::create().table((a(n), a("t"))).col(ColumnDef::new(a("c")).integer()))),
        p("create-table/column", 3, |n, d| qb!(d, Table::create().table(a("t")).col(ColumnDef::new(a(n)).integer()))),
        p("create-table/primary-key-column", 0, |n, d| qb!(d, Table::create().table(a("t")).col(ColumnDef::new(a(n)).integer()).primary_key(Index::create().col(a(n))))),
        p("create-table/index-name", 0, |n, d| qb!(d, Table::create().table(a("t")).col(ColumnDef::new(a("c")).integer()).index(Index::create().unique().name(n).col(a("c"))))),
        p("create-table/index-column", 0, |n, d| qb!(d, Table::create().table(a("t")).col(ColumnDef::new(a("c")).integer()).index(Index::create().unique().name("i").col(a(n))))),
        p("create-table/fk-name", 0, |n, d| qb!(d, Table::create().table(a("t")).col(ColumnDef::new(a("c")).integer()).foreign_key(ForeignKey::create().name(n).from(a("t"), a("c")).to(a("u"), a("k"))))),
        p("create-table/fk-column", 0, |n, d| qb!(d, Table::create().table(a("t")).col(ColumnDef::new(a("c")).integer()).foreign_key(ForeignKey::create().name("f").from(a("t"), a(n)).to(a("u"), a("k"))))),
        p("create-table/fk-ref-table", 0, |n, d| qb!(d, Table::create().table(a("t")).col(ColumnDef::new(a("c")).integer()).foreign_key(ForeignKey::create().name("f").from(a("t"), a("c")).to(a(n), a("k"))))),
        p("create-table/fk-ref-column", 0, |n, d| qb!(d, Table::create().table(a("t")).col(ColumnDef::new(a("c")).integer()).foreign_key(ForeignKey::create().name("f").from(a("t"), a("c")).to(a("u"), a(n))))),
        p("alter-table/table", 0, |n, d| qb!(d, Table::alter().table(a(n)).add_column(ColumnDef::new(a("c")).integer()))),
        p("alter-table/add-column", 0, |n, d| qb!(d, Table::alter().table(a("t")).add_column(ColumnDef::new(a(n)).integer()))),
        p("alter-table/modify-column-with-specs", 0, |n, d| qb!(d, Table::alter().table(a("t")).modify_column(ColumnDef::new(a(n)).integer().not_null().default(1).unique_key()))),
        p("alter-table/modify-column-null-primary-key", 0, |n, d| qb!(d, Table::alter().table(a("t")).modify_column(ColumnDef::new(a(n)).integer().null().primary_key()))),
        p("alter-table/add-column-with-specs", 0, |n, d| qb!(d, Table::alter().table(a("t")).add_column(ColumnDef::new(a(n)).integer().not_null().default(1).unique_key().check(Expr::col(a(n)).gt(0))))),
        p("alter-table/rename-column-from", 0, |n, d| qb!(d, Table::alter().table(a("t")).rename_column(a(n), a("k")))),
        p("alter-table/rename-column-to", 0, |n, d| qb!(d, Table::alter().table(a("t")).rename_column(a("c"), a(n)))),
        p("alter-table/drop-column", 0, |n, d| qb!(d, Table::alter().table(a("t")).drop_column(a(n)))),
        p("alter-table/drop-foreign-key", 0, |n, d| qb!(d, Table::alter().table(a("t")).drop_foreign_key(a(n)))),
        p("alter-table/add-foreign-key-name", 0, |n, d| qb!(d, Table::alter().table(a("t")).add_foreign_key(TableForeignKey::new().name(n).from_tbl(a("t")).from_col(a("c")).to_tbl(a("u")).to_col(a("k"))))),
        p("rename-table/from", 0, |n, d| qb!(d, Table::rename().table(a(n), a("u")))),
        p("rename-table/to", 0, |n, d| qb!(d, Table::rename().table(a("t"), a(n)))),
        p("drop-table", 0, |n, d| qb!(d, Table::drop().table(a("t")).table(a(n)))),
        p("truncate-table", 0, |n, d| qb!(d, Table::truncate().table(a(n)))),
        p("create-index/name", 4, |n, d| qb!(d, Index::create().name(n).table(a("t")).col(a("c")))),
        p("create-index/table", 0, |n, d| qb!(d, Index::create().name("i").table(a(n)).col(a("c")))),
        p("create-index/column", 0, |n, d| qb!(d, Index::create().name("i").table(a("t")).col(a("b")).col(a(n)))),
        p("pg-create-index/include-column", 0, |n, d| qb!(d, Index::create().name("i").table(a("t")).col(a("c")).include(a(n)))),
        p("drop-index/name", 0, |n, d| qb!(d, Index::drop().name(n).table(a("t")))),
        p("drop-index/table", 0, |n, d| qb!(d, Index::drop().name("i").table(a(n)))),
        p("create-foreign-key/name", 0, |n, d| qb!(d, ForeignKey::create().name(n).from(a("t"), a("c")).to(a("u"), a("k")))),
        p("create-foreign-key/table", 0, |n, d| qb!(d, ForeignKey::create().name("f").from(a(n), a("c")).to(a("u"), a("k")))),
        p("drop-foreign-key/name", 0, |n, d| qb!(d, ForeignKey::drop().name(n).table(a("t")))),
        p("pg-create-type/name", 0, |n, _| Type::create().as_enum(a(n)).values([a("x")]).to_string(PostgresQueryBuilder)),
        p("pg-create-type/schema", 0, |n, _| Type::create().as_enum((a(n), a("e"))).values([a("x")]).to_string(PostgresQueryBuilder)),
        p("pg-drop-type/name", 0, |n, _| Type::drop().name(a(n)).to_string(PostgresQueryBuilder)),
        p("pg-alter-type/name", 0, |n, _| Type::alter().name(a(n)).add_value(a("x")).to_string(PostgresQueryBuilder)),
        p("pg-column-enum-type-name", 0, |n, d| qb!(d, Table::create().table(a("t")).col(ColumnDef::new(a("c")).enumeration(a(n), [a("x")])))),
    ]
}

thread_local! {
    static SKEL: RefCell<HashMap<(usize, Dialect), Option<(Vec<String>, Vec<usize>)>>> = RefCell::new(HashMap::new());
    static DB: RefCell<Option<Db>> = RefCell::new(None);
}

/// skeleton with the marker name and the token indexes carrying it; None = position not rendered / not supported on this dialect
fn marker_skeleton(pi: usize, p: &Pos, d: Dialect) -> Option<(Vec<String>, Vec<usize>)> {
    if let Some(x) = SKEL.with(|c| c.borrow().get(&(pi, d)).cloned()) {
        return x;
    }
    let r = (|| {
        // positions of one dialect's own statements (CREATE TYPE, index hints, ..) are rendered by that backend only
        if (p.name.starts_with("pg-") && d != Dialect::Postgres) || (p.name.starts_with("mysql-") && d != Dialect::Mysql) {
            return None;
        }
        let sql = catch(|| (p.render)(MARK, d)).ok()?;
        let toks = match lex(d, &sql) {
            Ok(t) => t,
            Err(_) if sql.contains(MARK) => return Some((vec![format!("BROKEN:{sql}")], vec![])),
            Err(_) => return None,
        };
        let slots: Vec<usize> = toks.iter().enumerate().filter(|(_, t)| matches!(&t.tok, Tok::Ident(s) if s == MARK)).map(|(i, _)| i).collect();
        if slots.is_empty() {
            // the dialect does not render this position at all (an index hint on PostgreSQL, ..): not applicable. But a
            // benign name that IS written and is not an identifier token of its own is a broken rendering, not a reason
            // to skip the position
            if sql.contains(MARK) {
                return Some((vec![format!("BROKEN:{sql}")], vec![]));
            }
            return None;
        }
        Some((skeleton(&toks), slots))
    })();
    SKEL.with(|c| c.borrow_mut().insert((pi, d), r.clone()));
    r
}

pub fn check_one(pi: usize, p: &Pos, d: Dialect, name: &str, engine_runs: &Counter) -> Result<bool, (String, String)> {
    let Some((sk0, slots)) = marker_skeleton(pi, p, d) else { return Ok(false) };
    if slots.is_empty() {
        return Err(("benign-name-is-not-an-identifier-token".into(), format!("with the benign name {MARK:?} the statement is {:?}: the name is written but is not a quoted-identifier token of its own", sk0[0].trim_start_matches("BROKEN:"))));
    }
    if p.name == "as-enum-cast-type" && name.ends_with("[]") {
        return Ok(false); // `name[]` is the documented spelling of an enum-array cast, not an identifier
    }
    let sql = match catch(|| (p.render)(name, d)) {
        Ok(s) => s,
        Err(e) => return Err(("panic".into(), format!("rendering panicked: {e}"))),
    };
    let toks = lex(d, &sql).map_err(|e| ("does-not-lex".to_string(), format!("{sql:?}: {} at byte {}", e.msg, e.at)))?;
    let sk = skeleton(&toks);
    if sk != sk0 {
        return Err(("identifier-escapes-its-quotes".into(), format!("{sql:?} lexes to a different token sequence than with a benign name: {:?}", sk)));
    }
    for &s in &slots {
        match &toks[s].tok {
            Tok::Ident(x) if x == name => {}
            other => return Err(("decoded-differs".into(), format!("{sql:?}: identifier token decodes to {:?}, supplied {:?}", other, name))),
        }
    }
    if d == Dialect::Sqlite && p.engine > 0 {
        engine_runs.inc();
        let got: Result<Option<String>, String> = DB.with(|c| {
            let mut g = c.borrow_mut();
            let db = g.get_or_insert_with(Db::open_memory);
            let txt = |v: Option<SqlVal>| match v {
                Some(SqlVal::Text(t)) => Some(String::from_utf8_lossy(&t).into_owned()),
                _ => None,
            };
            let reset = |db: &Db| {
                for t in db.query("SELECT name FROM sqlite_master WHERE type='table'", &[]).map(|r| r.rows).unwrap_or_default() {
                    if let Some(SqlVal::Text(n)) = t.get(0) {
                        db.exec(&format!("DROP TABLE \"{}\"", String::from_utf8_lossy(n).replace('"', "\"\""))).ok();
                    }
                }
            };
            match p.engine {
                1 => db.query(&sql, &[]).map(|r| r.names.get(0).cloned()),
                2 => {
                    reset(db);
                    db.exec(&sql)?;
                    db.query("SELECT name FROM sqlite_master WHERE type='table'", &[]).map(|r| txt(r.rows.get(0).and_then(|r| r.get(0)).cloned()))
                }
                3 => {
                    reset(db);
                    db.exec(&sql)?;
                    db.query("SELECT name FROM pragma_table_xinfo('t')", &[]).map(|r| txt(r.rows.get(0).and_then(|r| r.get(0)).cloned()))
                }
                _ => {
                    reset(db);
                    db.exec("CREATE TABLE \"t\" (\"c\" integer)")?;
                    db.exec(&sql)?;
                    db.query("SELECT name FROM sqlite_master WHERE type='index'", &[]).map(|r| txt(r.rows.get(0).and_then(|r| r.get(0)).cloned()))
                }
            }
        });
        match got {
            Ok(Some(v)) if v == name => {}
            other => return Err(("engine-decodes-differently".into(), format!("sqlite3 on {sql:?}: {:?}, expected name {:?}", other, name))),
        }
    }
    Ok(true)
}

// ---------------------------------------------------------------------------------------------
// identifiers whose `Iden::prepare` is GENERATED by #[derive(Iden)] (the derive writes a quoting fast path of its own):
// container renames and variant renames over the quote characters, with the shapes that select the fast path
mod derived {
    use sea_query::Iden;
    #[derive(Iden)]
    #[iden = "we\"ird"]
    pub enum Dq { Table, Id }
    #[derive(Iden)]
    #[iden = "we`ird"]
    pub enum Bt { Table, Id }
    #[derive(Iden)]
    #[iden = "we]i[rd"]
    pub enum Br { Table, Id }
    #[derive(Iden)]
    #[iden = "pl ain"]
    pub enum Sp { Table, #[iden = "i\"d"] Id, Other }
    #[derive(Iden)]
    pub enum Vr { Table, #[iden = "a`b"] A, #[iden(rename = "c\"d")] C, Plain }
    #[derive(Iden)]
    #[iden = "q\"1"]
    pub struct UnitDq;
    #[derive(Iden)]
    #[iden = "q`1"]
    pub struct UnitBt;
    #[derive(Iden)]
    pub enum Fl { Table, #[iden(flatten)] Inner(Vr), Id }
}

fn derived_family(rep: &Report) -> u64 {
    use derived::*;
    use sea_query::{DynIden, IntoIden};
    let cases: Vec<(&str, DynIden, &str)> = vec![
        ("Dq::Table", Dq::Table.into_iden(), "we\"ird"),
        ("Dq::Id", Dq::Id.into_iden(), "id"),
        ("Bt::Table", Bt::Table.into_iden(), "we`ird"),
        ("Br::Table", Br::Table.into_iden(), "we]i[rd"),
        ("Sp::Table", Sp::Table.into_iden(), "pl ain"),
        ("Sp::Id", Sp::Id.into_iden(), "i\"d"),
        ("Sp::Other", Sp::Other.into_iden(), "other"),
        ("Vr::Table", Vr::Table.into_iden(), "vr"),
        ("Vr::A", Vr::A.into_iden(), "a`b"),
        ("Vr::C", Vr::C.into_iden(), "c\"d"),
        ("Vr::Plain", Vr::Plain.into_iden(), "plain"),
        ("UnitDq", UnitDq.into_iden(), "q\"1"),
        ("UnitBt", UnitBt.into_iden(), "q`1"),
        ("Fl::Inner(Vr::A)", Fl::Inner(Vr::A).into_iden(), "a`b"),
        ("Fl::Inner(Vr::C)", Fl::Inner(Vr::C).into_iden(), "c\"d"),
        ("Fl::Id", Fl::Id.into_iden(), "id"),
    ];
    let mut n = 0;
    for (label, iden, want) in &cases {
        for d in crate::lex::DIALECTS {
            n += 1;
            let q = Query::select().column(iden.clone()).from(iden.clone()).to_owned();
            let sql = match catch(|| match d {
                Dialect::Mysql => q.to_string(MysqlQueryBuilder),
                Dialect::Postgres => q.to_string(PostgresQueryBuilder),
                Dialect::Sqlite => q.to_string(SqliteQueryBuilder),
            }) {
                Ok(s) => s,
                Err(p) => {
                    rep.raw_failures.inc();
                    rep.violation(Violation { key: format!("derived-iden|{}|panic|{label}", d.name()), what: format!("{label} on {}: rendering panicked: {p}", d.name()), case: json!({"derived": label, "dialect": d.name()}) });
                    continue;
                }
            };
            let names: Result<Vec<String>, String> = lex(d, &sql).map(|t| t.iter().filter_map(|t| if let Tok::Ident(s) = &t.tok { Some(s.clone()) } else { None }).collect()).map_err(|e| e.msg);
            let ok = matches!(&names, Ok(v) if v.len() == 2 && v[0] == *want && v[1] == *want) && lex(d, &sql).map(|t| t.len() == 4).unwrap_or(false);
            if !ok {
                rep.raw_failures.inc();
                rep.violation(Violation { key: format!("derived-iden|{}|does-not-decode-to-name|{label}", d.name()), what: format!("{label} (name {want:?}) on {}: {sql:?} tokenises to identifiers {:?}", d.name(), names), case: json!({"derived": label, "dialect": d.name()}) });
            }
        }
    }
    n
}

pub fn run(rep: &Arc<Report>) {
    let n = if rep.thorough() { 5 } else { 3 };
    let poss = positions();
    let evals = Counter::new();
    let engine_runs = Counter::new();
    let na = Counter::new();
    let (states, transitions) = for_each_string(SIGMA_ID, n, |_w, name| {
        if name.is_empty() {
            return;
        }
        for (pi, p) in poss.iter().enumerate() {
            for d in crate::lex::DIALECTS {
                match check_one(pi, p, d, name, &engine_runs) {
                    Ok(true) => evals.inc(),
                    Ok(false) => na.inc(),
                    Err((sig, _)) => {
                        evals.inc();
                        rep.raw_failures.inc();
                        let min = minimize(name.to_string(), &sig, |x| string_reductions_in(x, SIGMA_ID).into_iter().filter(|s| !s.is_empty()).collect(), |x| check_one(pi, p, d, x, &engine_runs).err().map(|e| e.0));
                        let det = check_one(pi, p, d, &min, &engine_runs).err().map(|e| e.1).unwrap_or_default();
                        rep.violation(Violation {
                            key: format!("{}|{}|{}|{}", p.name, d.name(), sig, show(&min)),
                            what: format!("{} on {}: name {:?}: {}", p.name, d.name(), min, det),
                            case: json!({"position": p.name, "dialect": d.name(), "name": min}),
                        });
                    }
                }
            }
        }
    });
    // long names: every position x dialect x lengths on both sides of 64 / 128 / 256 (engines limit identifier lengths; the
    // builder must not), plain, non-ASCII, and with a quote character where a cut at the limit would split its doubling.
    // The first failing length of a (position, dialect, shape) is reported; not minimised character by character.
    let long_cases = Counter::new();
    for (pi, p) in poss.iter().enumerate() {
        for d in crate::lex::DIALECTS {
            for shape in 0..5usize {
                for len in [62usize, 63, 64, 65, 127, 128, 129, 255, 256, 257] {
                    let name: String = match shape {
                        0 => "a".repeat(len),
                        1 => "\u{e9}".repeat(len),
                        2 => format!("{}\"b", "a".repeat(len - 2)),
                        3 => format!("{}`b", "a".repeat(len - 2)),
                        _ => format!("{}\"\"", "a".repeat(len - 2)),
                    };
                    long_cases.inc();
                    match check_one(pi, p, d, &name, &engine_runs) {
                        Ok(true) => evals.inc(),
                        Ok(false) => na.inc(),
                        Err((sig, det)) => {
                            evals.inc();
                            rep.raw_failures.inc();
                            let det: String = det.chars().take(500).collect();
                            rep.violation(Violation {
                                key: format!("{}|{}|{}|long name shape {} of {} characters", p.name, d.name(), sig, shape, len),
                                what: format!("{} on {}: a name of {} characters (shape {}: 0 plain, 1 non-ASCII, 2 .. 4 with quote characters at the end): {}", p.name, d.name(), len, shape, det),
                                case: json!({"position": p.name, "dialect": d.name(), "name": name}),
                            });
                            break;
                        }
                    }
                }
            }
        }
    }
    rep.set("long_name_cases", json!(long_cases.get()));
    // which (position, dialect) pairs are live
    let mut live = vec![];
    for (pi, p) in poss.iter().enumerate() {
        let ds: Vec<&str> = crate::lex::DIALECTS.iter().filter(|d| marker_skeleton(pi, p, **d).is_some()).map(|d| d.name()).collect();
        live.push(json!({"position": p.name, "dialects": ds}));
    }
    let dn = derived_family(rep);
    rep.set("derived_identifier_cases", json!(dn));
    rep.set("alphabet", json!(SIGMA_ID.iter().map(|c| show(&c.to_string())).collect::<Vec<_>>()));
    rep.set("max_len", json!(n));
    rep.set("positions", json!(live));
    rep.set("states", json!(states - 1));
    rep.set("transitions", json!(transitions));
    rep.set("evaluations", json!(evals.get()));
    rep.set("position_not_rendered_on_dialect", json!(na.get()));
    rep.set("traces_validated_against_impl", json!(engine_runs.get()));
    rep.set("distinct_nontrivial", json!(evals.get()));
    rep.set("rule", json!("each (name, position, dialect) triple is one case: rendered by the real code, lexed by the dialect's reference lexer, compared with the marker skeleton, identifier token decoded; traces_validated_against_impl = cases where the real SQLite engine read the name back"));
    rep.set("exhaustive", json!(true));
    for (nm, d, pi) in [("a\"b", Dialect::Postgres, 0usize), ("a`b", Dialect::Mysql, 7), ("x\"; DROP", Dialect::Sqlite, 13)] {
        rep.sample(json!({"name": nm, "dialect": d.name(), "position": poss[pi].name, "sql": (poss[pi].render)(nm, d)}));
    }
    rep.assume("MySQL identifiers: backtick quoting with doubled backtick, no backslash escapes; PostgreSQL/SQLite: double quote with doubled quote (from the manuals; SQLite validated against the engine)");
}

pub fn replay(case: &serde_json::Value) -> Option<String> {
    if let Some(label) = case["derived"].as_str() {
        let rep = Report::new("C04", "quick");
        derived_family(&rep);
        return rep.find_violation(&format!("derived-iden|{}|", case["dialect"].as_str().unwrap_or(""))).filter(|v| v.contains(label));
    }
    let poss = positions();
    let name = case["name"].as_str().unwrap_or("");
    let pos = case["position"].as_str().unwrap_or("");
    let d = Dialect::from_name(case["dialect"].as_str().unwrap_or("sqlite"));
    let (pi, p) = poss.iter().enumerate().find(|(_, p)| p.name == pos)?;
    let er = Counter::new();
    check_one(pi, p, d, name, &er).err().map(|(sig, det)| format!("{} on {}: name {:?}: [{}] {}", pos, d.name(), name, sig, det))
}
