//! C17 — escape_string / unescape_string are inverse on every backend (DESIGN §3.17).

use crate::enumerate::for_each_string;
use crate::report::{minimize, string_reductions_in, Report, Violation};
use crate::util::{catch, show, Counter};
use sea_query::{EscapeBuilder, MysqlQueryBuilder, PostgresQueryBuilder, SqliteQueryBuilder};
use serde_json::json;
use std::collections::HashSet;
use std::sync::{Arc, Mutex};

pub const SIGMA_ESC: &[char] = &[
    'a', 'z', 'b', 't', 'n', 'r', '0', 'x', '%', '_', '\'', '"', '\\', '`', '\u{8}', '\t', '\n', '\r', '\u{1a}', 'é', '😀',
];

pub const BACKENDS: [&str; 3] = ["mysql", "postgres", "sqlite"];

pub fn esc(b: &str, s: &str) -> String {
    match b {
        "mysql" => MysqlQueryBuilder.escape_string(s),
        "postgres" => PostgresQueryBuilder.escape_string(s),
        _ => SqliteQueryBuilder.escape_string(s),
    }
}
pub fn unesc(b: &str, s: &str) -> String {
    match b {
        "mysql" => MysqlQueryBuilder.unescape_string(s),
        "postgres" => PostgresQueryBuilder.unescape_string(s),
        _ => SqliteQueryBuilder.unescape_string(s),
    }
}

fn check_one(b: &str, s: &str) -> Result<String, (String, String)> {
    match catch(|| {
        let e = esc(b, s);
        let u = unesc(b, &e);
        (e, u)
    }) {
        Err(p) => Err(("panic".into(), format!("panicked: {p}"))),
        Ok((e, u)) => {
            if u == s {
                Ok(e)
            } else {
                Err(("roundtrip".into(), format!("escape = {:?}, unescape(escape) = {:?}, expected {:?}", e, u, s)))
            }
        }
    }
}

pub fn run(rep: &Arc<Report>) {
    let n = if rep.thorough() { 6 } else { 4 };
    let mut alphabet: Vec<char> = SIGMA_ESC.to_vec();
    alphabet.push('\0');
    let nw = crate::util::n_workers();
    let changed = Counter::new();
    let evals = Counter::new();
    let outcomes: Vec<Mutex<HashSet<u64>>> = (0..nw).map(|_| Mutex::new(HashSet::new())).collect();
    let visit = |w: usize, s: &str| {
        for b in BACKENDS {
            evals.inc();
            match check_one(b, s) {
                Ok(e) => {
                    if e != s {
                        changed.inc();
                        if s.chars().count() <= 3 {
                            outcomes[w].lock().unwrap().insert(crate::util::fp_str(&e) as u64);
                        }
                    }
                }
                Err((sig, _)) => {
                    rep.raw_failures.inc();
                    let min = minimize(s.to_string(), &sig, |x| string_reductions_in(x, SIGMA_ESC), |t| check_one(b, t).err().map(|e| e.0));
                    let d = check_one(b, &min).err().map(|e| e.1).unwrap_or_default();
                    rep.violation(Violation {
                        key: format!("{}|{}|{}", b, sig, show(&min)),
                        what: format!("{b}: input {:?}: {}", min, d),
                        case: json!({"backend": b, "input": min}),
                    });
                }
            }
        }
    };
    let (states, transitions) = for_each_string(&alphabet, n, visit);
    // every Unicode scalar alone, after a backslash, and before a quote
    let chars: Vec<u32> = (0..=0x10FFFFu32).filter(|c| char::from_u32(*c).is_some()).collect();
    let uni = Counter::new();
    crate::util::par_range(chars.len() as u64, 4096, |w, i| {
        let c = char::from_u32(chars[i as usize]).unwrap();
        for s in [c.to_string(), format!("\\{c}"), format!("{c}'"), format!("a{c}\\")] {
            uni.inc();
            visit(w, &s);
        }
    });
    let mut all = HashSet::new();
    for o in &outcomes {
        all.extend(o.lock().unwrap().iter().copied());
    }
    rep.set("alphabet", json!(alphabet.iter().map(|c| show(&c.to_string())).collect::<Vec<_>>()));
    rep.set("max_len", json!(n));
    rep.set("backends", json!(BACKENDS));
    rep.set("states", json!(states + uni.get()));
    rep.set("transitions", json!(transitions + uni.get()));
    rep.set("traces_validated_against_impl", json!(evals.get()));
    rep.set("evaluations", json!(evals.get()));
    rep.set("inputs_changed_by_escaping", json!(changed.get()));
    rep.set("distinct_nontrivial", json!(all.len()));
    rep.set("rule", json!("every string over the 22-symbol alphabet up to max_len x 3 backends, plus every Unicode scalar in 4 contexts; distinct_nontrivial = distinct escaped forms (of inputs up to 3 chars) that differ from their input"));
    rep.set("exhaustive", json!(true));
    for s in ["a\\'b", "\\z", "\u{1a}\\", "'\\\"\0"] {
        rep.sample(json!({"input": s, "mysql_escaped": esc("mysql", s), "sqlite_escaped": esc("sqlite", s)}));
    }
}

pub fn replay(case: &serde_json::Value) -> Option<String> {
    let b = case["backend"].as_str().unwrap_or("mysql").to_string();
    let s = case["input"].as_str().unwrap_or("");
    check_one(&b, s).err().map(|(sig, d)| format!("{b}: input {:?}: [{sig}] {d}", s))
}
