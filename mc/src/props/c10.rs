//! C10 — INSERT rows always match the column list; mismatches are reported (DESIGN §3.10).
//!
//! State machine over the real `InsertStatement`; reference model = plain lists. Every history
//! up to the depth bound is explored; per step the Result / panic is compared with the contract,
//! per state the rendering on 3 backends x 2 modes is parsed back and compared with the model.

use crate::explore::{explore, replay_ops, Fail, Model};
use crate::lex::{lex, Dialect, Tok, DIALECTS};
use crate::report::Report;
use crate::util::{catch, fp_str};
use sea_query::error::Error;
use sea_query::*;
use serde_json::json;
use std::sync::Arc;

#[derive(Clone, Debug, PartialEq)]
pub enum Op {
    Columns(usize),
    ColumnsAlt(usize),
    Values(usize),
    /// the row handed over as a lazy iterator whose size hint is not exact: 0 = a `filter` (upper bound one too high),
    /// 1 = `from_fn` (no upper bound)
    ValuesLazy(usize, u8),
    /// a row of m cells each of which is a two-element tuple expression (one cell, whatever it looks like)
    ValuesTuple(usize),
    /// a column list naming the same column k times (the statement is what the caller asked for: k columns)
    ColumnsRepeated(usize),
    ValuesPanic(usize),
    ValuesFromPanic(usize, usize),
    SelectFrom(usize),
    /// a select whose first item is `*` followed by j - 1 values
    SelectFromStar(usize),
    OrDefaultValues,
    OrDefaultValuesMany(u32),
}

#[derive(Clone, Debug, PartialEq)]
pub enum Src {
    None,
    Values(Vec<Vec<i64>>),
    Select(Vec<i64>),
}

#[derive(Clone, Debug)]
pub struct Ref {
    cols: Vec<String>,
    src: Src,
    default: Option<u32>,
    accepted: i64, // number of accepted row-adding / select calls so far (feeds the tags)
}

pub struct InsertModel;

fn col_names(k: usize, alt: bool) -> Vec<String> {
    (0..k).map(|i| format!("{}{}", if alt { "y" } else { "x" }, i + 1)).collect()
}

fn row_exprs(tags: &[i64]) -> Vec<SimpleExpr> {
    tags.iter().map(|t| Expr::val(*t).into()).collect()
}

fn select_with(tags: &[i64]) -> SelectStatement {
    let mut s = Query::select();
    for t in tags {
        if *t == STAR {
            s.column(Asterisk); // a wildcard is ONE select item for the column count
        } else {
            s.expr(Expr::val(*t));
        }
    }
    s
}
/// the tag standing for a `*` select item
const STAR: i64 = -1;

impl Ref {
    fn row_tags(&self, m: usize, k: i64) -> Vec<i64> {
        (0..m).map(|i| 10 * (self.accepted + k + 1) + i as i64).collect()
    }
}

/// What the contract says a row-adding call must do.
fn expect_row(r: &Ref, m: usize) -> Result<(), (usize, usize)> {
    if m == r.cols.len() {
        Ok(())
    } else {
        Err((r.cols.len(), m))
    }
}

fn accept_row(r: &mut Ref, tags: Vec<i64>) {
    r.accepted += 1;
    if tags.is_empty() {
        return;
    }
    match &mut r.src {
        Src::Values(rows) => rows.push(tags),
        _ => r.src = Src::Values(vec![tags]),
    }
}

fn unchanged(before: &InsertStatement, after: &InsertStatement, what: &str) -> Result<(), Fail> {
    if before != after || format!("{:?}", before) != format!("{:?}", after) {
        return Err(Fail::new(
            "rejected-call-left-trace",
            format!("{what}: statement changed by a rejected call:\n before {:?}\n after  {:?}", before, after),
        ));
    }
    Ok(())
}

impl Model for InsertModel {
    type Sys = InsertStatement;
    type Ref = Ref;
    type Op = Op;
    fn name(&self) -> &'static str {
        "insert"
    }
    fn init(&self) -> (InsertStatement, Ref) {
        let mut s = Query::insert();
        s.into_table(Alias::new("t"));
        (s, Ref { cols: vec![], src: Src::None, default: None, accepted: 0 })
    }
    fn enabled(&self, _r: &Ref, _depth: usize) -> Vec<Op> {
        let mut v = vec![];
        for k in 0..=3 {
            v.push(Op::Columns(k));
        }
        v.push(Op::ColumnsAlt(2));
        for m in 0..=4 {
            v.push(Op::Values(m));
        }
        for m in 0..=3 {
            v.push(Op::ValuesPanic(m));
        }
        for m in 1..=3 {
            v.push(Op::ValuesLazy(m, 0));
            v.push(Op::ValuesLazy(m, 1));
        }
        v.push(Op::ValuesTuple(1));
        v.push(Op::ValuesTuple(2));
        v.push(Op::ColumnsRepeated(2));
        v.push(Op::ColumnsRepeated(3));
        for (a, b) in [(1, 1), (2, 2), (1, 2), (2, 1), (0, 1), (3, 3)] {
            v.push(Op::ValuesFromPanic(a, b));
        }
        for j in 0..=3 {
            v.push(Op::SelectFrom(j));
        }
        for j in 1..=3 {
            v.push(Op::SelectFromStar(j));
        }
        v.push(Op::OrDefaultValues);
        v.push(Op::OrDefaultValuesMany(2));
        v.push(Op::OrDefaultValuesMany(3));
        v
    }
    fn step(&self, s: &mut InsertStatement, r: &mut Ref, op: &Op) -> Result<(), Fail> {
        let before = s.clone();
        match op {
            Op::Columns(k) | Op::ColumnsAlt(k) | Op::ColumnsRepeated(k) => {
                let names = if matches!(op, Op::ColumnsRepeated(_)) { vec!["x1".to_string(); *k] } else { col_names(*k, matches!(op, Op::ColumnsAlt(_))) };
                s.columns(names.iter().map(|n| Alias::new(n.as_str())));
                r.cols = names;
            }
            Op::Values(m) | Op::ValuesLazy(m, _) | Op::ValuesTuple(m) => {
                let tags = r.row_tags(*m, 0);
                let tuple = matches!(op, Op::ValuesTuple(_));
                let got = match op {
                    Op::ValuesTuple(_) => s.values(tags.iter().map(|t| SimpleExpr::from(Expr::tuple([Expr::val(*t).into(), Expr::val(*t).into()])))).map(|_| ()),
                    Op::ValuesLazy(_, 0) => {
                        let mut cells = row_exprs(&tags);
                        cells.push(Expr::val(-1).into());
                        let m = *m;
                        s.values(cells.into_iter().enumerate().filter(move |(i, _)| *i != m).map(|(_, e)| e)).map(|_| ())
                    }
                    Op::ValuesLazy(_, _) => {
                        let mut cells = row_exprs(&tags).into_iter();
                        s.values(std::iter::from_fn(move || cells.next())).map(|_| ())
                    }
                    _ => s.values(row_exprs(&tags)).map(|_| ()),
                };
                let tags: Vec<i64> = if tuple { tags.iter().map(|t| -*t - 10).collect() } else { tags };
                match (expect_row(r, *m), got) {
                    (Ok(()), Ok(())) => accept_row(r, tags),
                    (Err((c, v)), Err(Error::ColValNumMismatch { col_len, val_len })) => {
                        if (c, v) != (col_len, val_len) {
                            return Err(Fail::new("wrong-error-counts", format!("values({m}) with {c} columns: error carries col_len={col_len}, val_len={val_len}")));
                        }
                        unchanged(&before, s, "values()")?;
                    }
                    (Ok(()), Err(e)) => return Err(Fail::new("rejected-matching-row", format!("values({m}) with {} columns returned {:?}", r.cols.len(), e))),
                    (Err((c, v)), Ok(())) => return Err(Fail::new("accepted-mismatched-row", format!("values() with {v} expressions was accepted for {c} columns"))),
                }
            }
            Op::ValuesPanic(m) => {
                let tags = r.row_tags(*m, 0);
                let got = catch(|| {
                    s.values_panic(row_exprs(&tags));
                });
                match (expect_row(r, *m), got) {
                    (Ok(()), Ok(())) => accept_row(r, tags),
                    (Err(_), Err(_)) => unchanged(&before, s, "values_panic()")?,
                    (Ok(()), Err(p)) => return Err(Fail::new("rejected-matching-row", format!("values_panic({m}) with {} columns panicked: {p}", r.cols.len()))),
                    (Err((c, v)), Ok(())) => return Err(Fail::new("accepted-mismatched-row", format!("values_panic() with {v} expressions was accepted for {c} columns"))),
                }
            }
            Op::ValuesFromPanic(a, b) => {
                let t1 = r.row_tags(*a, 0);
                let t2 = r.row_tags(*b, 1);
                let got = catch(|| {
                    s.values_from_panic([row_exprs(&t1), row_exprs(&t2)]);
                });
                // contract: rows are taken in order, the first mismatching one panics
                let e1 = expect_row(r, *a);
                let e2 = expect_row(r, *b);
                if e1.is_ok() {
                    accept_row(r, t1);
                    if e2.is_ok() {
                        accept_row(r, t2);
                    }
                }
                let expect_ok = e1.is_ok() && e2.is_ok();
                match (expect_ok, got) {
                    (true, Ok(())) | (false, Err(_)) => {
                        if e1.is_err() {
                            unchanged(&before, s, "values_from_panic()")?;
                        }
                    }
                    (true, Err(p)) => return Err(Fail::new("rejected-matching-row", format!("values_from_panic([{a},{b}]) panicked: {p}"))),
                    (false, Ok(())) => return Err(Fail::new("accepted-mismatched-row", format!("values_from_panic([{a},{b}]) was accepted for {} columns", r.cols.len()))),
                }
            }
            Op::SelectFrom(j) | Op::SelectFromStar(j) => {
                let mut tags: Vec<i64> = (0..*j).map(|i| 500 + 10 * (r.accepted + 1) + i as i64).collect();
                if matches!(op, Op::SelectFromStar(_)) {
                    tags[0] = STAR;
                }
                let got = s.select_from(select_with(&tags)).map(|_| ());
                match (expect_row(r, *j), got) {
                    (Ok(()), Ok(())) => {
                        r.accepted += 1;
                        r.src = Src::Select(tags);
                    }
                    (Err((c, v)), Err(Error::ColValNumMismatch { col_len, val_len })) => {
                        if (c, v) != (col_len, val_len) {
                            return Err(Fail::new("wrong-error-counts", format!("select_from({j} items) with {c} columns: error carries col_len={col_len}, val_len={val_len}")));
                        }
                        unchanged(&before, s, "select_from()")?;
                    }
                    (Ok(()), Err(e)) => return Err(Fail::new("rejected-matching-select", format!("select_from({j} items) with {} columns returned {:?}", r.cols.len(), e))),
                    (Err((c, v)), Ok(())) => return Err(Fail::new("accepted-mismatched-select", format!("select_from() with {v} select items was accepted for {c} columns"))),
                }
            }
            Op::OrDefaultValues => {
                s.or_default_values();
                r.default = Some(1);
            }
            Op::OrDefaultValuesMany(n) => {
                s.or_default_values_many(*n);
                r.default = Some(*n);
            }
        }
        Ok(())
    }
    fn op_class(&self, op: &Op) -> String {
        match op {
            Op::Columns(_) | Op::ColumnsAlt(_) | Op::ColumnsRepeated(_) => "columns",
            Op::Values(_) | Op::ValuesLazy(..) | Op::ValuesTuple(_) | Op::ValuesPanic(_) | Op::ValuesFromPanic(..) => "row",
            Op::SelectFrom(_) => "select",
            Op::SelectFromStar(_) => "select",
            Op::OrDefaultValues | Op::OrDefaultValuesMany(_) => "default",
        }
        .to_string()
    }
    fn canon(&self, s: &InsertStatement, r: &Ref) -> u128 {
        fp_str(&format!("{:?}#{:?}", s, r))
    }
    fn outcome(&self, s: &InsertStatement, _r: &Ref) -> u64 {
        fp_str(&catch(|| s.to_string(SqliteQueryBuilder)).unwrap_or_default()) as u64
    }
    fn check(&self, s: &InsertStatement, r: &Ref) -> Vec<Fail> {
        let mut fails: Vec<Fail> = vec![];
        for d in DIALECTS {
            for mode in ["inline", "build"] {
                let (sql, vals) = match render(s, d, mode == "build") {
                    Ok(x) => x,
                    Err(p) => {
                        fails.push(Fail::new("render-panic", format!("{}/{mode}: rendering panicked: {p}", d.name())));
                        continue;
                    }
                };
                match parse_insert(d, &sql, &vals) {
                    Err(e) => fails.push(Fail::new("unparsable", format!("{}/{mode}: {e} in {sql:?}", d.name()))),
                    Ok(p) => fails.extend(compare(d, mode, &sql, &p, r)),
                }
            }
        }
        // one failure per signature is enough per state
        fails.dedup_by(|a, b| a.sig == b.sig);
        let mut seen = std::collections::HashSet::new();
        fails.retain(|f| seen.insert(f.sig.clone()));
        fails
    }
}

pub fn render(s: &InsertStatement, d: Dialect, build: bool) -> Result<(String, Vec<Value>), String> {
    catch(|| {
        if build {
            let (sql, v) = match d {
                Dialect::Mysql => s.build(MysqlQueryBuilder),
                Dialect::Postgres => s.build(PostgresQueryBuilder),
                Dialect::Sqlite => s.build(SqliteQueryBuilder),
            };
            (sql, v.0)
        } else {
            let sql = match d {
                Dialect::Mysql => s.to_string(MysqlQueryBuilder),
                Dialect::Postgres => s.to_string(PostgresQueryBuilder),
                Dialect::Sqlite => s.to_string(SqliteQueryBuilder),
            };
            (sql, vec![])
        }
    })
}

#[derive(Debug, Default)]
pub struct Parsed {
    cols: Option<Vec<String>>,
    rows: Option<Vec<Vec<i64>>>,
    select: Option<Vec<i64>>,
    /// Some(None) = `DEFAULT VALUES`; Some(Some(n)) = n default rows
    default: Option<Option<u32>>,
}

/// Reference parser for the INSERT shapes of this model (independent of sea-query's tokenizer).
fn parse_insert(d: Dialect, sql: &str, vals: &[Value]) -> Result<Parsed, String> {
    let toks = lex(d, sql).map_err(|e| format!("lex error at {}: {}", e.at, e.msg))?;
    let t: Vec<&Tok> = toks.iter().map(|t| &t.tok).collect();
    let mut i = 0;
    let mut next_param = 0usize;
    let word = |i: usize, w: &str| matches!(t.get(i), Some(Tok::Word(x)) if x.eq_ignore_ascii_case(w));
    let punct = |i: usize, p: &str| matches!(t.get(i), Some(Tok::Punct(x)) if x == p);
    if !(word(i, "INSERT") || word(i, "REPLACE")) {
        return Err("expected INSERT".into());
    }
    i += 1;
    if !word(i, "INTO") {
        return Err("expected INTO".into());
    }
    i += 1;
    match t.get(i) {
        Some(Tok::Ident(n)) if n == "t" => i += 1,
        other => return Err(format!("expected table \"t\", got {:?}", other)),
    }
    let mut p = Parsed::default();
    let mut cell = |i: &mut usize, next_param: &mut usize| -> Result<i64, String> {
        let tok = t.get(*i).ok_or("unexpected end")?;
        let v = match tok {
            Tok::Num(s) => s.parse::<i64>().map_err(|_| format!("bad number {s}"))?,
            Tok::Param(pn) => {
                let idx = match (d, pn) {
                    (Dialect::Postgres, Some(n)) => {
                        if *n as usize != *next_param + 1 {
                            return Err(format!("placeholder ${n} out of sequence (expected ${})", *next_param + 1));
                        }
                        *n as usize - 1
                    }
                    (Dialect::Postgres, None) => return Err("bare ? on postgres".into()),
                    (_, None) => *next_param,
                    (_, Some(_)) => return Err("numbered placeholder on a ?-backend".into()),
                };
                *next_param += 1;
                match vals.get(idx) {
                    Some(Value::BigInt(Some(x))) => *x,
                    other => return Err(format!("placeholder #{} bound to {:?}", idx + 1, other)),
                }
            }
            Tok::Punct(p) if p == "*" => STAR,
            Tok::Punct(p) if p == "(" => return Err("TUPLE".into()),
            other => return Err(format!("expected a cell, got {:?}", other)),
        };
        *i += 1;
        Ok(v)
    };
    // default-values forms
    if word(i, "DEFAULT") && word(i + 1, "VALUES") {
        p.default = Some(None);
        i += 2;
    } else if word(i, "VALUES") {
        i += 1;
        let mut n = 0;
        loop {
            if !punct(i, "(") {
                return Err("expected ( in default rows".into());
            }
            i += 1;
            if d == Dialect::Postgres {
                if !word(i, "DEFAULT") {
                    return Err("expected DEFAULT".into());
                }
                i += 1;
            }
            if !punct(i, ")") {
                return Err("expected ) in default rows".into());
            }
            i += 1;
            n += 1;
            if punct(i, ",") {
                i += 1;
            } else {
                break;
            }
        }
        p.default = Some(Some(n));
    } else {
        if !punct(i, "(") {
            return Err(format!("expected column list, got {:?}", t.get(i)));
        }
        i += 1;
        let mut cols = vec![];
        if !punct(i, ")") {
            loop {
                match t.get(i) {
                    Some(Tok::Ident(n)) => cols.push(n.clone()),
                    other => return Err(format!("expected column name, got {:?}", other)),
                }
                i += 1;
                if punct(i, ",") {
                    i += 1;
                } else {
                    break;
                }
            }
        }
        if !punct(i, ")") {
            return Err("expected ) after column list".into());
        }
        i += 1;
        p.cols = Some(cols);
        if word(i, "VALUES") {
            i += 1;
            let mut rows = vec![];
            loop {
                if !punct(i, "(") {
                    return Err("expected ( starting a row".into());
                }
                i += 1;
                let mut row = vec![];
                if !punct(i, ")") {
                    loop {
                        if punct(i, "(") {
                            // a tuple cell `(x, x)`: one cell; encoded as -x - 10
                            i += 1;
                            let x = cell(&mut i, &mut next_param)?;
                            if !punct(i, ",") {
                                return Err("expected , inside a tuple cell".into());
                            }
                            i += 1;
                            let y = cell(&mut i, &mut next_param)?;
                            if !punct(i, ")") || x != y {
                                return Err(format!("malformed tuple cell ({x}, {y}"));
                            }
                            i += 1;
                            row.push(-x - 10);
                        } else {
                            row.push(cell(&mut i, &mut next_param)?);
                        }
                        if punct(i, ",") {
                            i += 1;
                        } else {
                            break;
                        }
                    }
                }
                if !punct(i, ")") {
                    return Err("expected ) ending a row".into());
                }
                i += 1;
                rows.push(row);
                if punct(i, ",") {
                    i += 1;
                } else {
                    break;
                }
            }
            p.rows = Some(rows);
        } else if word(i, "SELECT") {
            i += 1;
            let mut items = vec![];
            if i < t.len() {
                loop {
                    items.push(cell(&mut i, &mut next_param)?);
                    if punct(i, ",") {
                        i += 1;
                    } else {
                        break;
                    }
                }
            }
            p.select = Some(items);
        }
    }
    if i != t.len() {
        return Err(format!("trailing tokens from {:?}", t.get(i)));
    }
    if next_param != vals.len() {
        return Err(format!("{} placeholders but {} values", next_param, vals.len()));
    }
    Ok(p)
}

fn compare(d: Dialect, mode: &str, sql: &str, p: &Parsed, r: &Ref) -> Vec<Fail> {
    let mut out = vec![];
    let ctx = format!("{}/{mode} {sql:?}", d.name());
    // rectangularity, from the rendered text alone
    if let (Some(cols), Some(rows)) = (&p.cols, &p.rows) {
        if let Some(row) = rows.iter().find(|row| row.len() != cols.len()) {
            out.push(Fail::new("non-rectangular", format!("{ctx}: a VALUES row has {} cells for {} columns", row.len(), cols.len())));
        }
    }
    if let (Some(cols), Some(sel)) = (&p.cols, &p.select) {
        if sel.len() != cols.len() {
            out.push(Fail::new("non-rectangular", format!("{ctx}: SELECT source has {} items for {} columns", sel.len(), cols.len())));
        }
    }
    let default_form = r.default.is_some() && r.cols.is_empty() && r.src == Src::None;
    if default_form {
        let want = if d == Dialect::Sqlite { None } else { r.default };
        if p.default != Some(want) {
            out.push(Fail::new("default-form", format!("{ctx}: expected the default-values form with {:?} rows, parsed {:?}", want, p)));
        }
        return out;
    }
    if p.default.is_some() {
        out.push(Fail::new("default-form", format!("{ctx}: default-values form rendered although columns/values were supplied (model {:?})", r)));
    }
    if p.cols.as_ref() != Some(&r.cols) {
        out.push(Fail::new("columns", format!("{ctx}: column list {:?}, model {:?}", p.cols, r.cols)));
    }
    match &r.src {
        Src::None => {
            if p.rows.is_some() || p.select.is_some() {
                out.push(Fail::new("rows", format!("{ctx}: rows rendered but none were accepted")));
            }
        }
        Src::Values(rows) => {
            if p.rows.as_ref() != Some(rows) {
                out.push(Fail::new("rows", format!("{ctx}: rows {:?}, accepted rows in call order {:?}", p.rows, rows)));
            }
        }
        Src::Select(tags) => {
            if p.select.as_ref() != Some(tags) {
                out.push(Fail::new("rows", format!("{ctx}: select items {:?}, model {:?}", p.select, tags)));
            }
        }
    }
    out
}

pub fn run(rep: &Arc<Report>) {
    let depth = if rep.thorough() { 8 } else { 6 };
    let m = InsertModel;
    let st = explore(&m, depth, u64::MAX, rep);
    rep.set("states", json!(st.states));
    rep.set("transitions", json!(st.transitions));
    rep.set("max_depth", json!(st.max_depth));
    rep.set("level_sizes", json!(st.level_sizes));
    rep.set("distinct_outcomes", json!(st.outcomes));
    rep.set("per_op_transitions", json!(st.per_op));
    rep.set("traces_validated_against_impl", json!(st.transitions));
    rep.set("evaluations", json!(st.transitions));
    rep.set("distinct_nontrivial", json!(st.outcomes));
    rep.set("rule", json!("BFS over all histories of the 27-op INSERT alphabet up to max_depth on the real InsertStatement; a state is non-trivial/distinct by its SQLite rendering; every state is rendered on 3 backends x {to_string, build} and parsed back"));
    rep.set("exhaustive", json!(st.exhaustive));
    rep.set("alphabet", json!(m.enabled(&m.init().1, 0).iter().map(|o| format!("{:?}", o)).collect::<Vec<_>>()));
    let (mut s, mut r) = m.init();
    for op in [Op::Columns(2), Op::Values(2), Op::Values(1), Op::ValuesFromPanic(2, 2)] {
        let _ = m.step(&mut s, &mut r, &op);
    }
    rep.sample(json!({"history": "Columns(2); Values(2); Values(1) [rejected]; ValuesFromPanic(2,2)", "sqlite": s.to_string(SqliteQueryBuilder), "model": format!("{:?}", r)}));
    rep.assume("select_from() replaces accepted rows and values() after select_from() starts a new row list (INSERT has one source); the default-values form applies iff no columns and no source were supplied (doc of or_default_values)");
}

pub fn replay(case: &serde_json::Value) -> Option<String> {
    let ops: Vec<String> = case["ops"].as_array().map(|a| a.iter().filter_map(|x| x.as_str().map(String::from)).collect()).unwrap_or_default();
    replay_ops(&InsertModel, &ops)
}
