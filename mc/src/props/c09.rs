//! C09 — portable statements denote the same query on all three backends (DESIGN §3.9).
//!
//! Every state of the portable-subset state machines: the MySQL and Postgres renderings are
//! transliterated token by token through the reference lexers into SQLite spelling (identifier
//! quotes, placeholder style, literal syntax, set-operation parentheses — regrouped by the SQL
//! standard's INTERSECT precedence that MySQL and PostgreSQL implement —, VALUES ROW, and the
//! documented function-name substitutions; nothing else) and all three are executed on identical
//! SQLite databases; results and final table contents must be pairwise identical.

use crate::dml::{dml_menu, dop_class, run_dml, DOp, DSpec, DSys, DmlModel, Kind};
use crate::explore::{explore, replay_ops, Fail};
use crate::lex::{lex, Dialect, LexTok, Tok};
use crate::qmodel::*;
use crate::lex::DIALECTS;
use crate::report::{Report, Violation};
use crate::smodel::{bind_value, row_list, row_multiset, select_menu, with_db, SelModel, SelSys};
use crate::util::{catch, Counter};
use sea_query::*;
use serde_json::json;
use std::sync::Arc;

pub static EXECUTED: Counter = Counter::new();
pub static SKIPPED: Counter = Counter::new();
pub static REGROUPED: Counter = Counter::new();

fn q_ident(s: &str) -> String {
    format!("\"{}\"", s.replace('"', "\"\""))
}
fn q_str(s: &str) -> String {
    format!("'{}'", s.replace('\'', "''"))
}

fn is_w(t: Option<&LexTok>, w: &str) -> bool {
    matches!(t.map(|t| &t.tok), Some(Tok::Word(x)) if x.eq_ignore_ascii_case(w))
}
fn is_p(t: Option<&LexTok>, p: &str) -> bool {
    matches!(t.map(|t| &t.tok), Some(Tok::Punct(x)) if x == p)
}

/// index of the parenthesis matching the one at `open`
fn matching(toks: &[LexTok], open: usize) -> Option<usize> {
    let mut depth = 0;
    for (i, t) in toks.iter().enumerate().skip(open) {
        if is_p(Some(t), "(") {
            depth += 1;
        } else if is_p(Some(t), ")") {
            depth -= 1;
            if depth == 0 {
                return Some(i);
            }
        }
    }
    None
}

/// one token in SQLite spelling
fn spell(d: Dialect, t: &Tok, prev_is_values_kw: bool) -> Result<String, String> {
    let _ = prev_is_values_kw;
    Ok(match t {
        Tok::Ident(s) => q_ident(s),
        // PostgreSQL writes a byte string as the text literal '\x<hex>' (bytea hex input)
        Tok::Str(s) if d == Dialect::Postgres && s.starts_with("\\x") && crate::lex::pg_bytea_hex(s).is_some() => format!("x'{}'", crate::lex::pg_bytea_hex(s).unwrap().iter().map(|x| format!("{:02X}", x)).collect::<String>()),
        Tok::Str(s) if d == Dialect::Postgres && s.starts_with("\\x") => return Err(format!("byte-string literal {s:?} is not valid bytea hex input")),
        Tok::Str(s) => q_str(s),
        Tok::Blob(b) => format!("x'{}'", b.iter().map(|x| format!("{:02X}", x)).collect::<String>()),
        Tok::Num(n) => n.clone(),
        Tok::Param(None) => "?".into(),
        Tok::Param(Some(n)) => format!("?{n}"),
        Tok::Punct(p) => p.clone(),
        Tok::Word(w) => {
            let u = w.to_ascii_uppercase();
            match (d, u.as_str()) {
                // the documented function-name substitutions
                (_, "GREATEST") => "MAX".into(),
                (_, "LEAST") => "MIN".into(),
                (_, "CHAR_LENGTH") => "LENGTH".into(),
                (Dialect::Mysql, "RAND") => "RANDOM".into(),
                _ => w.clone(),
            }
        }
    })
}

/// transliterate a token range; set-operation arms in parentheses are unwrapped, and a chain that
/// mixes INTERSECT with UNION / EXCEPT is regrouped the way MySQL and PostgreSQL read it
fn translit_range(d: Dialect, toks: &[LexTok], lo: usize, hi: usize) -> Result<String, String> {
    // find the top-level set operators of this range: (kw_start, arm_open, arm_close)
    let mut ops: Vec<(usize, usize, usize, String)> = vec![];
    let mut i = lo;
    let mut depth = 0;
    while i < hi {
        let t = &toks[i];
        if is_p(Some(t), "(") {
            depth += 1;
        } else if is_p(Some(t), ")") {
            depth -= 1;
        } else if depth == 0 && (is_w(Some(t), "UNION") || is_w(Some(t), "INTERSECT") || is_w(Some(t), "EXCEPT")) {
            let mut name = match &t.tok {
                Tok::Word(w) => w.to_ascii_uppercase(),
                _ => unreachable!(),
            };
            let mut j = i + 1;
            if is_w(toks.get(j), "ALL") {
                name.push_str(" ALL");
                j += 1;
            }
            if is_p(toks.get(j), "(") && is_w(toks.get(j + 1), "SELECT") {
                let close = matching(toks, j).ok_or("unbalanced parentheses")?;
                ops.push((i, j, close, name));
                i = close + 1;
                continue;
            } else {
                return Err("set operation arm without parentheses".into());
            }
        }
        i += 1;
    }
    if ops.is_empty() {
        return translit_flat(d, toks, lo, hi);
    }
    let head = translit_flat(d, toks, lo, ops[0].0)?;
    let arms: Vec<String> = ops.iter().map(|(_, o, c, _)| translit_range(d, toks, o + 1, *c)).collect::<Result<_, _>>()?;
    let tail_start = ops.last().unwrap().2 + 1;
    let tail = translit_flat(d, toks, tail_start, hi)?;
    // SQL standard (MySQL 8, PostgreSQL): INTERSECT binds tighter than UNION / EXCEPT; SQLite evaluates left to right.
    // Fold the operand list into left-to-right form, wrapping INTERSECT groups that do not start the chain.
    let mut parts: Vec<String> = vec![head];
    let mut names: Vec<String> = vec![];
    for (k, (_, _, _, name)) in ops.iter().enumerate() {
        names.push(name.clone());
        parts.push(arms[k].clone());
    }
    // group maximal INTERSECT runs
    let mut out_parts: Vec<String> = vec![parts[0].clone()];
    let mut out_ops: Vec<String> = vec![];
    let mut k = 0;
    while k < names.len() {
        if names[k] == "INTERSECT" && !out_ops.is_empty() {
            // the previous operand and this one form a tighter group: op_prev ( prev INTERSECT this ... )
            let prev = out_parts.pop().unwrap();
            let mut group = format!("{} INTERSECT {}", prev, parts[k + 1]);
            k += 1;
            while k < names.len() && names[k] == "INTERSECT" {
                group = format!("{} INTERSECT {}", group, parts[k + 1]);
                k += 1;
            }
            REGROUPED.inc();
            DID_REGROUP.with(|c| c.set(true));
            out_parts.push(format!("SELECT * FROM ({})", group));
        } else {
            out_ops.push(names[k].clone());
            out_parts.push(parts[k + 1].clone());
            k += 1;
        }
    }
    let mut s = out_parts[0].clone();
    for (o, p) in out_ops.iter().zip(out_parts.iter().skip(1)) {
        s.push_str(&format!(" {} {}", o, p));
    }
    if !tail.is_empty() {
        s.push(' ');
        s.push_str(&tail);
    }
    Ok(s)
}

fn translit_flat(d: Dialect, toks: &[LexTok], lo: usize, hi: usize) -> Result<String, String> {
    let mut out: Vec<String> = vec![];
    let mut i = lo;
    while i < hi {
        let t = &toks[i];
        // nested parenthesised range (subquery, function arguments, ...): recurse so that set operations inside are handled
        if is_p(Some(t), "(") {
            let close = matching(toks, i).ok_or("unbalanced parentheses")?;
            if close >= hi {
                return Err("unbalanced parentheses in range".into());
            }
            out.push(format!("({})", translit_range(d, toks, i + 1, close)?));
            i = close + 1;
            continue;
        }
        // MySQL's LENGTH() counts bytes (CHAR_LENGTH counts characters); PostgreSQL's and SQLite's LENGTH of a text counts
        // characters
        if d == Dialect::Mysql && is_w(Some(t), "LENGTH") && is_p(toks.get(i + 1), "(") {
            let close = matching(toks, i + 1).ok_or("unbalanced parentheses")?;
            if close >= hi {
                return Err("unbalanced parentheses in range".into());
            }
            out.push(format!("LENGTH(CAST(({}) AS BLOB))", translit_range(d, toks, i + 2, close)?));
            i = close + 1;
            continue;
        }
        // MySQL VALUES ROW(..)
        if d == Dialect::Mysql && is_w(Some(t), "ROW") && is_p(toks.get(i + 1), "(") {
            i += 1;
            continue;
        }
        // a MySQL table value constructor (VALUES at the start of a parenthesised range) takes ROW(..) rows only
        if d == Dialect::Mysql && i == lo && lo > 0 && is_w(Some(t), "VALUES") && is_p(toks.get(lo - 1), "(") {
            let mut k = i + 1;
            while k < hi {
                if is_p(toks.get(k), "(") {
                    if !(k > 0 && is_w(toks.get(k - 1), "ROW")) {
                        return Err("a MySQL VALUES table constructor row is written without ROW".into());
                    }
                    k = matching(toks, k).ok_or("unbalanced parentheses")? + 1;
                } else {
                    k += 1;
                }
            }
        }
        out.push(spell(d, &t.tok, false)?);
        i += 1;
    }
    Ok(out.join(" "))
}

thread_local! {
    static DID_REGROUP: std::cell::Cell<bool> = std::cell::Cell::new(false);
}

pub fn transliterate(d: Dialect, sql: &str) -> Result<String, String> {
    let toks = lex(d, sql).map_err(|e| format!("does not lex: {}", e.msg))?;
    translit_range(d, &toks, 0, toks.len())
}

fn portable_x(x: &XS) -> bool {
    match x {
        XS::CustReorder(..) | XS::CustQuoted(_) => false,
        XS::Bin(_, l, r) => portable_x(l) && portable_x(r),
        XS::Not(x) | XS::IsNull(x, _) | XS::In(x, _, _) | XS::EmptyIn(x, _) | XS::Between(x, _, _) | XS::Like(x, _, _) => portable_x(x),
        XS::Case(a, b, c) => portable_x(a) && portable_x(b) && portable_x(c),
        XS::Func(_, args) => args.iter().all(portable_x),
        XS::InSub(x, _) => portable_x(x),
        _ => true,
    }
}

fn portable_select_menu(thorough: bool) -> Vec<SelOp> {
    select_menu(thorough, true)
        .into_iter()
        .filter(|op| match op {
            SelOp::Join(JoinK::FullOuter, ..) => false,
            SelOp::Item(Item::Expr(x, _)) => portable_x(x),
            SelOp::Where(CondS::One(x)) => portable_x(x),
            _ => true,
        })
        .collect()
}

fn portable_dml_menu(kind: Kind, thorough: bool) -> Vec<DOp> {
    dml_menu(kind, thorough)
        .into_iter()
        .filter(|op| match (kind, dop_class(op)) {
            (_, "replace") | (_, "or_default_values") => false,
            (_, c) if c.starts_with("on_conflict") || c.starts_with("returning") => false,
            (Kind::Update | Kind::Delete, "order_by" | "order_by_nulls" | "order_by_field" | "limit") => false,
            (Kind::Update, "update-from") => false,
            (_, "set-value") => !matches!(op, DOp::Set(_, XS::TCol("t2", _))),
            (_, "and_where") => !matches!(op, DOp::Where(CondS::One(XS::Bin(_, l, _))) if matches!(**l, XS::TCol("t2", _))),
            _ => true,
        })
        .collect()
}

fn three_texts(f: impl Fn(Dialect) -> String) -> Result<[String; 3], String> {
    let my = catch(|| f(Dialect::Mysql))?;
    let pg = catch(|| f(Dialect::Postgres))?;
    let sl = catch(|| f(Dialect::Sqlite))?;
    Ok([transliterate(Dialect::Mysql, &my).map_err(|e| format!("mysql {my:?}: {e}"))?, transliterate(Dialect::Postgres, &pg).map_err(|e| format!("postgres {pg:?}: {e}"))?, sl])
}

pub fn check_select(sys: &SelSys, spec: &SelSpec) -> Vec<Fail> {
    if spec.items.is_empty() {
        return vec![];
    }
    // the portable meaning is fixed by the explicit reference rendering; out of domain if the engine rejects that
    if with_db(|db| db.query(&spec.ref_sql(), &[])).is_err() {
        SKIPPED.inc();
        return vec![];
    }
    // SQLite accepts only result columns as ORDER BY terms of a compound select: MySQL's `x IS NULL` emulation
    // cannot be executed there (an artefact of the arbiter engine, not of the rendering)
    if !spec.unions.is_empty() && spec.orders.iter().any(|o| matches!(o.1, OrderK::Nulls(..))) {
        SKIPPED.inc();
        return vec![];
    }
    DID_REGROUP.with(|c| c.set(false));
    let texts = match three_texts(|d| match d {
        Dialect::Mysql => sys.stmt(d).to_string(MysqlQueryBuilder),
        Dialect::Postgres => sys.stmt(d).to_string(PostgresQueryBuilder),
        Dialect::Sqlite => sys.stmt(d).to_string(SqliteQueryBuilder),
    }) {
        Ok(t) => t,
        Err(e) => return vec![Fail::new("cannot-transliterate", e)],
    };
    let regrouped = DID_REGROUP.with(|c| c.get());
    EXECUTED.inc();
    if spec.order_is_arbitrary() && (spec.limit.is_some() || spec.offset.is_some()) {
        // which rows survive LIMIT depends on an arbitrary order: nothing to compare
        SKIPPED.inc();
        return vec![];
    }
    let ordered = !spec.orders.is_empty() && !spec.order_is_arbitrary();
    let mut results = vec![];
    for (i, t) in texts.iter().enumerate() {
        match with_db(|db| db.query(t, &[])) {
            Ok(r) => results.push(if ordered { row_list(&r) } else { row_multiset(&r) }),
            Err(e) => return vec![Fail::new("engine-rejects-transliteration", format!("{} rendering, transliterated to {:?}, is rejected by sqlite3: {e} (the sqlite rendering is {:?})", ["mysql", "postgres", "sqlite"][i], t, texts[2]))],
        }
    }
    let mut fails = vec![];
    for i in 0..2 {
        if results[i] != results[2] {
            let f = Fail::new(
                format!("{}-denotes-a-different-query", ["mysql", "postgres"][i]),
                format!("{} rendering (as {:?}) returns {:?}; the sqlite rendering {:?} returns {:?}", ["mysql", "postgres"][i], texts[i], results[i], texts[2], results[2]),
            );
            if regrouped {
                // the oracle names the input class itself: a set-operation chain with INTERSECT after UNION / EXCEPT
                let mut g = f;
                g.sig = "intersect-after-union-or-except-binds-tighter-than-on-sqlite".into();
                fails.push(g.keyed(["mysql", "postgres"][i]));
            } else {
                fails.push(f);
            }
        }
    }
    // bound form as well: placeholders must line up across backends
    if let (Ok((ms, mv)), Ok((ps, pv)), Ok((ss, sv))) = (catch(|| sys.stmt(Dialect::Mysql).build(MysqlQueryBuilder)), catch(|| sys.stmt(Dialect::Postgres).build(PostgresQueryBuilder)), catch(|| sys.stmt(Dialect::Sqlite).build(SqliteQueryBuilder))) {
        let run = |d: Dialect, sql: &str, vals: &Values| -> Option<Vec<String>> {
            let t = transliterate(d, sql).ok()?;
            let b: Vec<_> = vals.0.iter().map(bind_value).collect::<Option<Vec<_>>>()?;
            with_db(|db| db.query(&t, &b)).ok().map(|r| if ordered { row_list(&r) } else { row_multiset(&r) })
        };
        let rs = [run(Dialect::Mysql, &ms, &mv), run(Dialect::Postgres, &ps, &pv), run(Dialect::Sqlite, &ss, &sv)];
        for i in 0..2 {
            if rs[i].is_some() && rs[2].is_some() && rs[i] != rs[2] && !regrouped {
                fails.push(Fail::new(format!("{}-bound-form-denotes-a-different-query", ["mysql", "postgres"][i]), format!("{:?} with {:?} returns {:?}; sqlite {:?} with {:?} returns {:?}", [&ms, &ps][i], [&mv, &pv][i].0, rs[i], ss, sv.0, rs[2])));
            }
        }
    }
    fails
}

pub fn check_dml(kind: Kind, sys: &DSys, spec: &DSpec) -> Vec<Fail> {
    if run_dml(&spec.ref_sql(kind), &[]).is_err() {
        SKIPPED.inc();
        return vec![];
    }
    let texts = match three_texts(|d| sys.stmt(d).to_string_d(d)) {
        Ok(t) => t,
        Err(e) => return vec![Fail::new("cannot-transliterate", e)],
    };
    EXECUTED.inc();
    let mut effects = vec![];
    for (i, t) in texts.iter().enumerate() {
        match run_dml(t, &[]) {
            Ok(e) => effects.push(e),
            Err(e) => return vec![Fail::new("engine-rejects-transliteration", format!("{} rendering, transliterated to {:?}, is rejected by sqlite3: {e}", ["mysql", "postgres", "sqlite"][i], t))],
        }
    }
    let mut fails = vec![];
    for i in 0..2 {
        if effects[i] != effects[2] {
            fails.push(Fail::new(format!("{}-denotes-a-different-statement", ["mysql", "postgres"][i]), format!("{} rendering (as {:?}) has effect {:?}; the sqlite rendering {:?} has {:?}", ["mysql", "postgres"][i], texts[i], effects[i], texts[2], effects[2])));
        }
    }
    fails
}

/// expression trees, three-way: every tree with up to 2 (quick) / 3 (thorough) operator nodes over the operators whose
/// meaning is the same on the three engines (arithmetic without division, shifts, bit operators, comparisons, AND / OR /
/// NOT, IS [NOT] NULL) is rendered for each backend; each text is read by ITS OWN dialect's reference grammar, the reading
/// is printed fully parenthesised and evaluated by the SQLite engine over the value table of C05. The three readings must
/// evaluate alike row by row: the same builder calls denote the same expression everywhere.
fn run_expr_trees(rep: &Arc<Report>) -> (u64, u64) {
    use crate::exprparse::{parse_expression, print_full};
    use crate::props::c05::{build, eval_sqlite, ops, render, trees, Class, Ctor, E};
    let portable = ["And", "Or", "Equal", "NotEqual", "SmallerThan", "GreaterThan", "SmallerThanOrEqual", "GreaterThanOrEqual", "Add", "Sub", "Mul", "Mod", "LShift", "RShift", "BitAnd", "BitOr"];
    let all_ops: Vec<_> = DIALECTS.iter().map(|d| ops(*d)).collect();
    let base = &all_ops[0];
    let mut cs: Vec<Ctor> = (0..base.len()).filter(|i| portable.contains(&base[*i].name)).map(Ctor::Bin).collect();
    // the shared operators have the same index in every dialect's table
    for o in &all_ops {
        for c in &cs {
            if let Ctor::Bin(i) = c {
                assert_eq!(o[*i].name, base[*i].name);
            }
        }
    }
    cs.push(Ctor::Not);
    cs.push(Ctor::IsNull(false));
    cs.push(Ctor::IsNull(true));
    let max_nodes = if rep.thorough() { 3 } else { 2 };
    let mut memo = std::collections::BTreeMap::new();
    let mut all: Vec<E> = vec![];
    for n in 1..=max_nodes {
        all.extend(trees(n, &cs, &mut memo));
    }
    let evaluated = crate::util::Counter::new();
    let skipped = crate::util::Counter::new();
    let shape = |e: &E| -> String {
        fn go(e: &E, ops: &[crate::props::c05::OpDef]) -> String {
            match e {
                E::Bin(i, l, r) => format!("{:?}({}, {})", ops[*i].class, go(l, ops), go(r, ops)),
                E::Not(x) => format!("Not({})", go(x, ops)),
                E::IsNull(n, x) => format!("{}({})", if *n { "IsNotNull" } else { "IsNull" }, go(x, ops)),
                _ => "c".into(),
            }
        }
        go(e, base)
    };
    let _ = Class::Logic;
    crate::util::par_items(&all, |_w, e| {
        let mut rows: Vec<(Dialect, String, Option<Vec<String>>)> = vec![];
        for (k, d) in DIALECTS.iter().enumerate() {
            let mut n = 0;
            let built = match catch(|| build(e, *d, &all_ops[k], &mut n)) {
                Ok(b) => b,
                Err(_) => return,
            };
            let Ok(sql) = render(&built, *d) else { return };
            let Some(expr_sql) = sql.strip_prefix("SELECT ") else { return };
            match parse_expression(*d, expr_sql) {
                Ok(p) => rows.push((*d, expr_sql.to_string(), eval_sqlite(&print_full(&p)))),
                Err(_) => {
                    // a text its own grammar rejects is C05's finding; nothing to compare here
                    skipped.inc();
                    return;
                }
            }
        }
        if rows.iter().any(|r| r.2.is_none()) {
            skipped.inc();
            return;
        }
        evaluated.inc();
        let sqlite = rows.iter().find(|r| r.0 == Dialect::Sqlite).unwrap().clone();
        for r in &rows {
            if r.2 != sqlite.2 {
                rep.raw_failures.inc();
                rep.violation(Violation {
                    key: format!("expr-tree|{}|reads-differently-from-sqlite|{}", r.0.name(), shape(e)),
                    what: format!("built {}: {} renders {:?}, sqlite renders {:?}; read by their own grammars and evaluated over the value table they give {:?} vs {:?}", crate::props::c05::show(e, base), r.0.name(), r.1, sqlite.1, r.2.as_ref().unwrap(), sqlite.2.as_ref().unwrap()),
                    case: json!({"kind": "expr-tree", "tree": crate::props::c05::show(e, base), "dialect": r.0.name()}),
                });
            }
        }
    });
    (evaluated.get(), skipped.get())
}

/// literal values, three-way: text with every character class the escapers treat specially, byte strings (small bytes,
/// long runs), integers at the edges, doubles and chars, inlined in `SELECT <value>, ..` and in a WHERE comparison on each
/// backend; the MySQL and PostgreSQL texts are transliterated and all three are executed: the engine must return the
/// same typed values.
/// the portable construct families of C08 (named WINDOW, window frames and shapes, VALUES tables, CTEs derived from a
/// SELECT, DISTINCT x ORDER BY x LIMIT x OFFSET) three-way: the MySQL and PostgreSQL renderings are transliterated and
/// executed, and must return what the SQLite rendering of the same builder calls returns
fn run_constructs(rep: &Arc<Report>) -> (u64, u64) {
    let portable = ["named-window", "window-frame", "values-table", "cte-from-select", "distinct-limit-offset"];
    let ex = crate::props::c08::extras(rep.thorough());
    let (mut executed, mut skipped) = (0u64, 0u64);
    for e in &ex {
        let family = crate::props::c08::family_of(&e.name);
        // a locking clause is no part of the portable subset (SQLite has none)
        if !portable.contains(&family.as_str()) || e.name.contains("lock=true") {
            continue;
        }
        let Ok(lite) = catch(|| (e.real)(Dialect::Sqlite, false)) else { continue };
        if !(lite.starts_with("SELECT") || lite.starts_with("WITH")) {
            continue;
        }
        let Ok(want) = with_db(|db| db.query(&lite, &[])) else {
            skipped += 1; // SQLite's own rendering is C07's business
            continue;
        };
        let ordered = lite.rfind(" ORDER BY ").map_or(false, |i| lite.rfind(')').map_or(true, |j| i > j));
        let canon = |r: &crate::sqlite::Rows| if ordered { row_list(r) } else { row_multiset(r) };
        for d in [Dialect::Mysql, Dialect::Postgres] {
            // a construct the dialect does not have (its reference is None) is not portable to it
            if (e.reference)(d, false).is_none() {
                continue;
            }
            let mut fail = |sig: &str, detail: String| {
                rep.raw_failures.inc();
                rep.violation(Violation { key: format!("construct|{}|{sig}|{family}", d.name()), what: format!("{}: {detail}", e.name), case: json!({"kind": "construct", "name": e.name, "dialect": d.name()}) });
            };
            let real = match catch(|| (e.real)(d, false)) {
                Ok(s) => s,
                Err(p) => {
                    fail("render-panic", format!("to_string panicked: {p}"));
                    continue;
                }
            };
            let t = match transliterate(d, &real) {
                Ok(t) => t,
                Err(m) => {
                    fail("cannot-transliterate", format!("{real:?}: {m}"));
                    continue;
                }
            };
            executed += 1;
            match with_db(|db| db.query(&t, &[])) {
                Err(m) => fail("transliterated-form-rejected", format!("{} rendering {real:?}, transliterated {t:?}, is rejected by sqlite3 ({m}); the SQLite rendering {lite:?} is accepted", d.name())),
                Ok(r) => {
                    if canon(&r) != canon(&want) {
                        fail("denotes-a-different-query", format!("{} rendering {real:?} returns {:?}; the SQLite rendering {lite:?} returns {:?}", d.name(), canon(&r), canon(&want)));
                    }
                }
            }
        }
    }
    (executed, skipped)
}

fn run_literals(rep: &Arc<Report>) -> u64 {
    let mut vals: Vec<Value> = vec![];
    for t in ["", "plain", "it's", "a\\b", "tab\there", "l1\nl2", "cr\rx", "q\"q", "sub\u{1a}z", "bs\u{8}x", "pct%_", "é😀", "'; --", "\\", "\\'"] {
        vals.push(t.into());
    }
    for b in [vec![], vec![0u8], vec![1, 2], vec![0xde, 0x0a, 0xbe], vec![0x0f; 9], (0u8..20).collect::<Vec<u8>>(), vec![0x27, 0x5c, 0x00]] {
        vals.push(Value::Bytes(Some(Box::new(b))));
    }
    for i in [0i64, 1, -1, 42, i64::MAX, i64::MIN + 1] {
        vals.push(i.into());
    }
    for f in [1.5f64, -0.25, 1e10, 123456.789] {
        vals.push(f.into());
    }
    for c in ['a', 'é', '\'', '\\'] {
        vals.push(c.into());
    }
    let mut n = 0;
    // VALUES tables of 1, 2 and 3 columns x 1 and 2 rows
    for cols in 1..=3usize {
        for rows in 1..=2usize {
            n += 1;
            let mk = |d: Dialect| {
                let mut q = Query::select();
                q.column(Asterisk);
                match cols {
                    1 => q.from_values((0..rows).map(|r| 10 + r as i32).collect::<Vec<_>>(), Alias::new("vv")),
                    2 => q.from_values((0..rows).map(|r| (10 + r as i32, "it's")).collect::<Vec<_>>(), Alias::new("vv")),
                    _ => q.from_values((0..rows).map(|r| (10 + r as i32, "it's", 2.5f64)).collect::<Vec<_>>(), Alias::new("vv")),
                };
                match d {
                    Dialect::Mysql => q.to_string(MysqlQueryBuilder),
                    Dialect::Postgres => q.to_string(PostgresQueryBuilder),
                    Dialect::Sqlite => q.to_string(SqliteQueryBuilder),
                }
            };
            let fail = |sig: &str, detail: String| {
                rep.raw_failures.inc();
                rep.violation(Violation { key: format!("values-table|{sig}|{cols} columns"), what: format!("VALUES table of {cols} columns x {rows} rows: {detail}"), case: json!({"kind": "literal", "values_table": [cols, rows]}) });
            };
            match three_texts(mk) {
                Err(e) => fail("cannot-transliterate", e),
                Ok(texts) => {
                    let rows_: Vec<Result<Vec<String>, String>> = texts.iter().map(|t| with_db(|db| db.query(t, &[])).map(|r| row_list(&r))).collect();
                    if rows_[0] != rows_[2] || rows_[1] != rows_[2] || rows_[2].is_err() {
                        fail("denotes-different-rows", format!("renderings (as {:?}) return {:?}", texts, rows_));
                    }
                }
            }
        }
    }
    for v in &vals {
        for form in ["select", "where"] {
            n += 1;
            let mk = |d: Dialect| {
                let mut q = Query::select();
                match form {
                    "select" => {
                        q.expr(Expr::val(v.clone())).expr(Func::cust(Alias::new("typeof")).arg(Expr::val(v.clone())));
                    }
                    _ => {
                        q.expr(Func::count(Expr::col(Asterisk))).from(Alias::new("t1")).and_where(Expr::col(Alias::new("s")).ne(Expr::val(v.clone()))).and_where(Expr::val(v.clone()).eq(Expr::val(v.clone())));
                    }
                }
                match d {
                    Dialect::Mysql => q.to_string(MysqlQueryBuilder),
                    Dialect::Postgres => q.to_string(PostgresQueryBuilder),
                    Dialect::Sqlite => q.to_string(SqliteQueryBuilder),
                }
            };
            let fail = |sig: &str, detail: String| {
                rep.raw_failures.inc();
                rep.violation(Violation { key: format!("literal|{sig}|{}", crate::props::c12::variant(v)), what: format!("{form} with {:?}: {detail}", v), case: json!({"kind": "literal", "value": format!("{:?}", v), "form": form}) });
            };
            let texts = match three_texts(mk) {
                Ok(t) => t,
                Err(e) => {
                    fail("cannot-transliterate", e);
                    continue;
                }
            };
            let rows: Vec<Result<Vec<String>, String>> = texts.iter().map(|t| with_db(|db| db.query(t, &[])).map(|r| row_list(&r))).collect();
            let names = ["mysql", "postgres", "sqlite"];
            match &rows[2] {
                Err(e) => fail("sqlite-text-rejected", format!("{:?}: {e}", texts[2])),
                Ok(want) => {
                    for k in 0..2 {
                        match &rows[k] {
                            Err(e) => fail(&format!("{}-text-rejected", names[k]), format!("{} rendering (as {:?}): {e}; the sqlite rendering {:?} is accepted", names[k], texts[k], texts[2])),
                            Ok(got) if got != want => fail(&format!("{}-denotes-a-different-value", names[k]), format!("{} rendering (as {:?}) returns {:?}; the sqlite rendering {:?} returns {:?}", names[k], texts[k], got, texts[2], want)),
                            _ => {}
                        }
                    }
                }
            }
        }
    }
    n
}

pub fn run(rep: &Arc<Report>) {
    let (ds, dd) = if rep.thorough() { (5, 5) } else { (4, 4) };
    let m = SelModel { name: "select", menu: portable_select_menu(rep.thorough()), checks: vec![Box::new(check_select)], sqlite_only: true };
    let st = explore(&m, ds, u64::MAX, rep);
    let mut states = st.states;
    let mut transitions = st.transitions;
    let mut outcomes = st.outcomes;
    let mut exhaustive = st.exhaustive;
    for kind in [Kind::Insert, Kind::Update, Kind::Delete] {
        let dm = DmlModel { kind, menu: portable_dml_menu(kind, rep.thorough()), checks: vec![Box::new(check_dml)] };
        let s2 = explore(&dm, dd, u64::MAX, rep);
        states += s2.states;
        transitions += s2.transitions;
        outcomes += s2.outcomes;
        exhaustive &= s2.exhaustive;
    }
    rep.set("portable_select_menu_size", json!(m.menu.len()));
    let (cx, cs) = run_constructs(rep);
    rep.set("construct_family_statements_executed_three_way", json!(cx));
    rep.set("construct_family_statements_skipped", json!(cs));
    let lits = run_literals(rep);
    rep.set("literal_cases_executed_three_way", json!(lits));
    let (te, ts) = run_expr_trees(rep);
    rep.set("expression_trees_evaluated_three_way", json!(te));
    rep.set("expression_trees_not_evaluable", json!(ts));
    rep.set("states", json!(states));
    rep.set("transitions", json!(transitions));
    rep.set("max_depth", json!({"select": ds, "dml": dd}));
    rep.set("states_executed_three_ways", json!(EXECUTED.get()));
    rep.set("states_skipped_reference_rejected", json!(SKIPPED.get()));
    rep.set("set_operation_chains_regrouped_by_standard_precedence", json!(REGROUPED.get()));
    rep.set("traces_validated_against_impl", json!(EXECUTED.get() * 3));
    rep.set("evaluations", json!(transitions));
    rep.set("distinct_nontrivial", json!(outcomes));
    rep.set("rule", json!("BFS over builder-call histories restricted to the portable feature subset; every state whose reference rendering the engine accepts is rendered on 3 backends, the MySQL / Postgres texts are transliterated lexically, and all three are executed on identical SQLite databases"));
    rep.set("exhaustive", json!(exhaustive));
    let q = Query::select().column(Alias::new("a")).from(Alias::new("t1")).order_by_with_nulls(Alias::new("a"), Order::Asc, NullOrdering::Last).to_owned();
    rep.sample(json!({"mysql": q.to_string(MysqlQueryBuilder), "transliterated": transliterate(Dialect::Mysql, &q.to_string(MysqlQueryBuilder)).unwrap_or_default(), "sqlite": q.to_string(SqliteQueryBuilder)}));
    rep.assume("the transliteration is purely lexical except for set operations, which are regrouped by the SQL-standard INTERSECT precedence that MySQL 8 and PostgreSQL implement (SQLite evaluates compound selects left to right); LIKE is executed with SQLite's case rules on all three");
}

pub fn replay(case: &serde_json::Value) -> Option<String> {
    if case["kind"].as_str() == Some("literal") {
        let rep = Arc::new(Report::new("C09", "quick"));
        run_literals(&rep);
        return rep.find_violation("literal|");
    }
    if case["kind"].as_str() == Some("expr-tree") {
        let rep = Arc::new(Report::new("C09", "thorough"));
        run_expr_trees(&rep);
        return rep.find_violation(&format!("expr-tree|{}|", case["dialect"].as_str().unwrap_or("")));
    }
    let ops: Vec<String> = case["ops"].as_array().map(|a| a.iter().filter_map(|x| x.as_str().map(String::from)).collect()).unwrap_or_default();
    match case["model"].as_str().unwrap_or("") {
        "select" => replay_ops(&SelModel { name: "select", menu: portable_select_menu(true), checks: vec![Box::new(check_select)], sqlite_only: true }, &ops),
        k => {
            let kind = match k {
                "insert" => Kind::Insert,
                "update" => Kind::Update,
                _ => Kind::Delete,
            };
            replay_ops(&DmlModel { kind, menu: portable_dml_menu(kind, true), checks: vec![Box::new(check_dml)] }, &ops)
        }
    }
}
