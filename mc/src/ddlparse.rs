//! Reference DDL parsers for MySQL 8.0 and PostgreSQL (CREATE / ALTER / DROP / RENAME / TRUNCATE
//! TABLE, CREATE / DROP INDEX, foreign keys, PostgreSQL CREATE / ALTER / DROP TYPE and EXTENSION),
//! transcribed from the statement synopses of the manuals. Built on the reference lexer and the
//! reference expression parser. Independent of sea-query.

use crate::exprparse::{PExpr, Parser};
use crate::lex::{lex, Dialect, LexTok, Tok};

#[derive(Clone, Debug, PartialEq, Default)]
pub struct PType {
    /// upper-cased type words joined by a space, e.g. "DOUBLE PRECISION", "TIMESTAMP WITH TIME ZONE"; a quoted
    /// or custom name is kept as written
    pub name: String,
    pub args: Vec<String>,
    pub unsigned: bool,
    pub array_dims: usize,
    /// ENUM('a', 'b') labels (MySQL)
    pub labels: Vec<String>,
}

#[derive(Clone, Debug, PartialEq)]
pub enum PSpec {
    Null,
    NotNull,
    Default(PExpr),
    AutoIncrement,
    Unique,
    PrimaryKey,
    Check(PExpr),
    Generated(PExpr, bool),
    Comment(String),
    Collate(String),
}

#[derive(Clone, Debug, PartialEq, Default)]
pub struct PCol {
    pub name: String,
    pub ty: Option<PType>,
    pub specs: Vec<PSpec>,
}

#[derive(Clone, Debug, PartialEq)]
pub struct PKeyPart {
    pub col: String,
    pub prefix: Option<String>,
    pub desc: Option<bool>,
}

#[derive(Clone, Debug, PartialEq)]
pub enum PElem {
    PrimaryKey { name: Option<String>, cols: Vec<PKeyPart> },
    Unique { name: Option<String>, cols: Vec<PKeyPart>, nulls_not_distinct: bool, include: Vec<String> },
    Index { name: Option<String>, cols: Vec<PKeyPart>, fulltext: bool, using: Option<String> },
    ForeignKey(PFk),
    Check(PExpr),
}

#[derive(Clone, Debug, PartialEq, Default)]
pub struct PFk {
    pub name: Option<String>,
    pub cols: Vec<String>,
    pub ref_table: Vec<String>,
    pub ref_cols: Vec<String>,
    pub on_delete: Option<String>,
    pub on_update: Option<String>,
}

#[derive(Clone, Debug, PartialEq, Default)]
pub struct PCreateTable {
    pub temporary: bool,
    pub if_not_exists: bool,
    pub name: Vec<String>,
    pub cols: Vec<PCol>,
    pub elems: Vec<PElem>,
    /// table options in order: (ENGINE | COLLATE | CHARSET | COMMENT, value)
    pub options: Vec<(String, String)>,
}

#[derive(Clone, Debug, PartialEq)]
pub enum PAlter {
    AddColumn { if_not_exists: bool, col: PCol },
    ModifyColumn(PCol),
    AlterType { col: String, ty: PType, using: Option<PExpr> },
    SetNotNull(String),
    DropNotNull(String),
    SetDefault(String, PExpr),
    AddUnique(Vec<String>),
    AddPrimaryKey(Vec<String>),
    AddCheck(PExpr),
    RenameColumn(String, String),
    DropColumn(String),
    AddForeignKey(PFk),
    DropForeignKey(String),
    DropConstraint(String),
}

#[derive(Clone, Debug, PartialEq)]
pub enum PStmt {
    CreateTable(PCreateTable),
    AlterTable { name: Vec<String>, actions: Vec<PAlter> },
    RenameTable { from: Vec<String>, to: Vec<String> },
    DropTable { if_exists: bool, names: Vec<Vec<String>>, opt: Option<String> },
    TruncateTable(Vec<String>),
    CreateIndex { unique: bool, fulltext: bool, if_not_exists: bool, name: String, table: Vec<String>, using: Option<String>, cols: Vec<PKeyPart>, include: Vec<String>, nulls_not_distinct: bool, filter: Option<PExpr> },
    DropIndex { if_exists: bool, name: Vec<String>, table: Option<Vec<String>> },
    CreateType { name: Vec<String>, labels: Vec<String> },
    DropType { if_exists: bool, names: Vec<Vec<String>>, opt: Option<String> },
    AlterTypeAddValue { name: Vec<String>, if_not_exists: bool, value: String, before: Option<String>, after: Option<String> },
    AlterTypeRename { name: Vec<String>, to: String },
    AlterTypeRenameValue { name: Vec<String>, from: String, to: String },
    CreateExtension { if_not_exists: bool, name: String, schema: Option<String>, version: Option<String>, cascade: bool },
    DropExtension { if_exists: bool, name: String, cascade: bool, restrict: bool },
}

pub type R<T> = Result<T, String>;

struct P<'a> {
    d: Dialect,
    t: &'a [LexTok],
    src: &'a str,
    i: usize,
}

impl<'a> P<'a> {
    fn peek(&self) -> Option<&Tok> {
        self.t.get(self.i).map(|t| &t.tok)
    }
    fn is_w(&self, w: &str) -> bool {
        matches!(self.peek(), Some(Tok::Word(x)) if x.eq_ignore_ascii_case(w))
    }
    fn is_w_at(&self, k: usize, w: &str) -> bool {
        matches!(self.t.get(self.i + k).map(|t| &t.tok), Some(Tok::Word(x)) if x.eq_ignore_ascii_case(w))
    }
    fn is_p(&self, p: &str) -> bool {
        matches!(self.peek(), Some(Tok::Punct(x)) if x == p)
    }
    fn eat_w(&mut self, w: &str) -> bool {
        if self.is_w(w) {
            self.i += 1;
            true
        } else {
            false
        }
    }
    fn eat_ws(&mut self, ws: &[&str]) -> bool {
        for (k, w) in ws.iter().enumerate() {
            if !self.is_w_at(k, w) {
                return false;
            }
        }
        self.i += ws.len();
        true
    }
    fn eat_p(&mut self, p: &str) -> bool {
        if self.is_p(p) {
            self.i += 1;
            true
        } else {
            false
        }
    }
    fn exp_w(&mut self, w: &str) -> R<()> {
        if self.eat_w(w) {
            Ok(())
        } else {
            Err(format!("expected {w} at token {} ({:?})", self.i, self.peek()))
        }
    }
    fn exp_p(&mut self, p: &str) -> R<()> {
        if self.eat_p(p) {
            Ok(())
        } else {
            Err(format!("expected `{p}` at token {} ({:?})", self.i, self.peek()))
        }
    }
    fn end(&self) -> bool {
        self.i >= self.t.len()
    }
    fn ident(&mut self) -> R<String> {
        match self.peek().cloned() {
            Some(Tok::Ident(s)) => {
                self.i += 1;
                Ok(s)
            }
            other => Err(format!("expected a quoted identifier at token {} ({:?})", self.i, other)),
        }
    }
    /// [db.][schema.]name
    fn qname(&mut self) -> R<Vec<String>> {
        let mut v = vec![self.ident()?];
        while self.is_p(".") {
            self.i += 1;
            v.push(self.ident()?);
        }
        Ok(v)
    }
    fn string(&mut self) -> R<String> {
        match self.peek().cloned() {
            Some(Tok::Str(s)) => {
                self.i += 1;
                Ok(s)
            }
            other => Err(format!("expected a string literal at token {} ({:?})", self.i, other)),
        }
    }
    fn expr(&mut self) -> R<PExpr> {
        let mut ep = Parser::new(self.d, self.t, self.src);
        ep.i = self.i;
        let e = ep.parse_expr(0)?;
        self.i = ep.i;
        Ok(e.strip())
    }
    /// expression that must not swallow a following keyword operator (DEFAULT x NOT NULL ...)
    fn default_expr(&mut self) -> R<PExpr> {
        if self.is_p("(") {
            return self.expr_atom_level();
        }
        self.expr_atom_level()
    }
    fn expr_atom_level(&mut self) -> R<PExpr> {
        let mut ep = Parser::new(self.d, self.t, self.src);
        ep.i = self.i;
        // binding power above every keyword operator and comparison: literals, signed numbers, function calls, parenthesised expressions
        let e = ep.parse_expr(61)?;
        self.i = ep.i;
        Ok(e.strip())
    }
    fn paren_expr(&mut self) -> R<PExpr> {
        self.exp_p("(")?;
        let e = self.expr()?;
        self.exp_p(")")?;
        Ok(e)
    }
    fn name_list(&mut self) -> R<Vec<String>> {
        self.exp_p("(")?;
        let mut v = vec![];
        loop {
            v.push(self.ident()?);
            if !self.eat_p(",") {
                break;
            }
        }
        self.exp_p(")")?;
        Ok(v)
    }
    fn key_parts(&mut self) -> R<Vec<PKeyPart>> {
        self.exp_p("(")?;
        let mut v = vec![];
        loop {
            let col = self.ident()?;
            let mut prefix = None;
            if self.is_p("(") {
                self.i += 1;
                match self.peek().cloned() {
                    Some(Tok::Num(n)) => {
                        self.i += 1;
                        prefix = Some(n);
                    }
                    other => return Err(format!("expected a prefix length, got {:?}", other)),
                }
                self.exp_p(")")?;
            }
            let desc = if self.eat_w("ASC") {
                Some(false)
            } else if self.eat_w("DESC") {
                Some(true)
            } else {
                None
            };
            v.push(PKeyPart { col, prefix, desc });
            if !self.eat_p(",") {
                break;
            }
        }
        self.exp_p(")")?;
        Ok(v)
    }

    fn data_type(&mut self) -> R<PType> {
        let mut ty = PType::default();
        match self.peek().cloned() {
            Some(Tok::Ident(s)) => {
                // a quoted (custom / enum) type name
                self.i += 1;
                ty.name = format!("\"{s}\"");
            }
            Some(Tok::Word(w)) => {
                let u = w.to_ascii_uppercase();
                self.i += 1;
                let mut words = vec![u.clone()];
                // multi-word type names
                let follow: &[&[&str]] = &[&["DOUBLE", "PRECISION"], &["CHARACTER", "VARYING"], &["BIT", "VARYING"]];
                for f in follow {
                    if u == f[0] && self.is_w(f[1]) {
                        self.i += 1;
                        words.push(f[1].to_string());
                    }
                }
                if u == "ENUM" && self.d == Dialect::Mysql {
                    self.exp_p("(")?;
                    loop {
                        ty.labels.push(self.string()?);
                        if !self.eat_p(",") {
                            break;
                        }
                    }
                    self.exp_p(")")?;
                    ty.name = "ENUM".into();
                    return Ok(ty);
                }
                if u == "INTERVAL" && self.d == Dialect::Postgres {
                    // interval [fields] [(p)]
                    while let Some(Tok::Word(x)) = self.peek() {
                        let xu = x.to_ascii_uppercase();
                        if ["YEAR", "MONTH", "DAY", "HOUR", "MINUTE", "SECOND", "TO"].contains(&xu.as_str()) {
                            words.push(xu);
                            self.i += 1;
                        } else {
                            break;
                        }
                    }
                }
                ty.name = words.join(" ");
            }
            other => return Err(format!("expected a data type at token {} ({:?})", self.i, other)),
        }
        if self.is_p("(") {
            self.i += 1;
            loop {
                match self.peek().cloned() {
                    Some(Tok::Num(n)) => {
                        self.i += 1;
                        ty.args.push(n);
                    }
                    other => return Err(format!("expected a type parameter, got {:?}", other)),
                }
                if !self.eat_p(",") {
                    break;
                }
            }
            self.exp_p(")")?;
        }
        // time zone suffixes
        if (ty.name == "TIMESTAMP" || ty.name == "TIME") && self.d == Dialect::Postgres {
            if self.eat_ws(&["WITHOUT", "TIME", "ZONE"]) {
                ty.name.push_str(" WITHOUT TIME ZONE");
            } else if self.eat_ws(&["WITH", "TIME", "ZONE"]) {
                ty.name.push_str(" WITH TIME ZONE");
            }
        }
        if self.d == Dialect::Mysql && self.eat_w("UNSIGNED") {
            ty.unsigned = true;
        }
        while self.d == Dialect::Postgres && self.is_p("[") {
            self.i += 1;
            if let Some(Tok::Num(_)) = self.peek() {
                self.i += 1;
            }
            self.exp_p("]")?;
            ty.array_dims += 1;
        }
        Ok(ty)
    }

    fn starts_column_constraint(&self) -> bool {
        ["NOT", "NULL", "DEFAULT", "AUTO_INCREMENT", "UNIQUE", "PRIMARY", "KEY", "CHECK", "GENERATED", "COMMENT", "COLLATE", "REFERENCES", "CONSTRAINT"].iter().any(|w| self.is_w(w))
    }

    fn column_def(&mut self, type_required: bool) -> R<PCol> {
        let mut c = PCol { name: self.ident()?, ..Default::default() };
        if !self.starts_column_constraint() && !self.is_p(",") && !self.is_p(")") && !self.end() {
            c.ty = Some(self.data_type()?);
        } else if type_required {
            return Err(format!("column {:?} has no data type", c.name));
        }
        loop {
            if self.eat_ws(&["NOT", "NULL"]) {
                c.specs.push(PSpec::NotNull);
            } else if self.eat_w("NULL") {
                c.specs.push(PSpec::Null);
            } else if self.eat_w("DEFAULT") {
                c.specs.push(PSpec::Default(self.default_expr()?));
            } else if self.d == Dialect::Mysql && self.eat_w("AUTO_INCREMENT") {
                c.specs.push(PSpec::AutoIncrement);
            } else if self.eat_ws(&["PRIMARY", "KEY"]) {
                c.specs.push(PSpec::PrimaryKey);
            } else if self.is_w("UNIQUE") {
                self.i += 1;
                if self.d == Dialect::Mysql {
                    self.eat_w("KEY");
                }
                c.specs.push(PSpec::Unique);
            } else if self.d == Dialect::Mysql && self.eat_w("KEY") {
                c.specs.push(PSpec::PrimaryKey);
            } else if self.eat_w("CHECK") {
                c.specs.push(PSpec::Check(self.paren_expr()?));
            } else if self.eat_ws(&["GENERATED", "ALWAYS", "AS"]) {
                let e = self.paren_expr()?;
                let stored = if self.eat_w("STORED") {
                    true
                } else if self.d == Dialect::Mysql && self.eat_w("VIRTUAL") {
                    false
                } else if self.d == Dialect::Mysql {
                    false
                } else {
                    return Err("PostgreSQL generated columns must be STORED".into());
                };
                c.specs.push(PSpec::Generated(e, stored));
            } else if self.d == Dialect::Mysql && self.eat_w("COMMENT") {
                c.specs.push(PSpec::Comment(self.string()?));
            } else if self.eat_w("COLLATE") {
                match self.peek().cloned() {
                    Some(Tok::Word(w)) | Some(Tok::Ident(w)) => {
                        self.i += 1;
                        c.specs.push(PSpec::Collate(w));
                    }
                    other => return Err(format!("expected a collation name, got {:?}", other)),
                }
            } else {
                break;
            }
        }
        Ok(c)
    }

    fn fk_action(&mut self) -> R<String> {
        for (ws, name) in [(&["SET", "NULL"][..], "SET NULL"), (&["SET", "DEFAULT"][..], "SET DEFAULT"), (&["NO", "ACTION"][..], "NO ACTION"), (&["RESTRICT"][..], "RESTRICT"), (&["CASCADE"][..], "CASCADE")] {
            if self.eat_ws(ws) {
                return Ok(name.to_string());
            }
        }
        Err(format!("expected a referential action at token {} ({:?})", self.i, self.peek()))
    }

    /// FOREIGN KEY (cols) REFERENCES t (cols) [ON DELETE a] [ON UPDATE a]   (after an optional CONSTRAINT name)
    fn foreign_key(&mut self, name: Option<String>) -> R<PFk> {
        self.exp_w("FOREIGN")?;
        self.exp_w("KEY")?;
        let mut fk = PFk { name, ..Default::default() };
        fk.cols = self.name_list()?;
        self.exp_w("REFERENCES")?;
        fk.ref_table = self.qname()?;
        fk.ref_cols = self.name_list()?;
        loop {
            if self.eat_ws(&["ON", "DELETE"]) {
                if fk.on_delete.is_some() {
                    return Err("ON DELETE given twice".into());
                }
                fk.on_delete = Some(self.fk_action()?);
            } else if self.eat_ws(&["ON", "UPDATE"]) {
                if fk.on_update.is_some() {
                    return Err("ON UPDATE given twice".into());
                }
                fk.on_update = Some(self.fk_action()?);
            } else {
                break;
            }
        }
        Ok(fk)
    }

    fn table_element(&mut self) -> R<Option<PElem>> {
        let mut cname: Option<String> = None;
        let save = self.i;
        if self.eat_w("CONSTRAINT") {
            if let Some(Tok::Ident(_)) = self.peek() {
                cname = Some(self.ident()?);
            } else if self.d == Dialect::Postgres {
                return Err("CONSTRAINT without a name".into());
            }
        }
        if self.eat_ws(&["PRIMARY", "KEY"]) {
            // MySQL's grammar (sql_yacc.yy: constraint_key_type opt_index_name_and_type) takes an index name here
            // and ignores it: the primary key's index is always called PRIMARY
            if self.d == Dialect::Mysql {
                if let Some(Tok::Ident(_)) = self.peek() {
                    let n = self.ident()?;
                    cname = cname.or(Some(n));
                }
                if self.eat_w("USING") {
                    self.i += 1;
                }
            }
            let cols = self.key_parts()?;
            return Ok(Some(PElem::PrimaryKey { name: cname, cols }));
        }
        if self.is_w("UNIQUE") {
            self.i += 1;
            let mut name = cname;
            let mut nnd = false;
            if self.d == Dialect::Mysql {
                let _ = self.eat_w("KEY") || self.eat_w("INDEX");
                if let Some(Tok::Ident(_)) = self.peek() {
                    name = Some(self.ident()?);
                }
                if self.eat_w("USING") {
                    self.i += 1;
                }
            } else if self.eat_ws(&["NULLS", "NOT", "DISTINCT"]) {
                nnd = true;
            }
            let cols = self.key_parts()?;
            let mut include = vec![];
            if self.d == Dialect::Postgres && self.eat_w("INCLUDE") {
                include = self.name_list()?;
            }
            return Ok(Some(PElem::Unique { name, cols, nulls_not_distinct: nnd, include }));
        }
        if self.d == Dialect::Mysql && (self.is_w("KEY") || self.is_w("INDEX") || self.is_w("FULLTEXT")) && cname.is_none() {
            let fulltext = self.eat_w("FULLTEXT");
            if !(self.eat_w("KEY") || self.eat_w("INDEX")) && !fulltext {
                return Err("expected KEY".into());
            }
            let mut name = None;
            if let Some(Tok::Ident(_)) = self.peek() {
                name = Some(self.ident()?);
            }
            let mut using = None;
            if self.eat_w("USING") {
                if let Some(Tok::Word(w)) = self.peek().cloned() {
                    self.i += 1;
                    using = Some(w.to_ascii_uppercase());
                }
            }
            let cols = self.key_parts()?;
            if self.eat_w("USING") {
                if let Some(Tok::Word(w)) = self.peek().cloned() {
                    self.i += 1;
                    using = Some(w.to_ascii_uppercase());
                }
            }
            return Ok(Some(PElem::Index { name, cols, fulltext, using }));
        }
        if self.is_w("FOREIGN") {
            return Ok(Some(PElem::ForeignKey(self.foreign_key(cname)?)));
        }
        if self.eat_w("CHECK") {
            return Ok(Some(PElem::Check(self.paren_expr()?)));
        }
        if cname.is_some() || self.i != save {
            return Err(format!("CONSTRAINT not followed by a constraint at token {} ({:?})", self.i, self.peek()));
        }
        Ok(None)
    }

    fn create_table(&mut self, temporary: bool) -> R<PStmt> {
        let mut t = PCreateTable { temporary, ..Default::default() };
        if self.eat_ws(&["IF", "NOT", "EXISTS"]) {
            t.if_not_exists = true;
        }
        t.name = self.qname()?;
        self.exp_p("(")?;
        loop {
            if let Some(e) = self.table_element()? {
                t.elems.push(e);
            } else {
                if !t.elems.is_empty() {
                    // MySQL and PostgreSQL allow columns after constraints; keep the order information
                }
                t.cols.push(self.column_def(true)?);
            }
            if !self.eat_p(",") {
                break;
            }
        }
        self.exp_p(")")?;
        // table options (MySQL)
        while !self.end() {
            if self.d != Dialect::Mysql {
                return Err(format!("trailing tokens after the table definition at token {} ({:?})", self.i, self.peek()));
            }
            let key = if self.eat_w("ENGINE") {
                "ENGINE"
            } else if self.eat_w("COLLATE") {
                "COLLATE"
            } else if self.eat_ws(&["DEFAULT", "CHARSET"]) || self.eat_w("CHARSET") || self.eat_ws(&["DEFAULT", "CHARACTER", "SET"]) || self.eat_ws(&["CHARACTER", "SET"]) {
                "CHARSET"
            } else if self.eat_w("COMMENT") {
                "COMMENT"
            } else {
                return Err(format!("unknown table option at token {} ({:?})", self.i, self.peek()));
            };
            self.eat_p("=");
            let val = match self.peek().cloned() {
                Some(Tok::Word(w)) => w,
                Some(Tok::Str(s)) => s,
                Some(Tok::Ident(s)) => s,
                other => return Err(format!("expected a value for table option {key}, got {:?}", other)),
            };
            self.i += 1;
            t.options.push((key.to_string(), val));
            self.eat_p(",");
        }
        Ok(PStmt::CreateTable(t))
    }

    fn alter_table(&mut self) -> R<PStmt> {
        let name = self.qname()?;
        let mut actions = vec![];
        loop {
            if self.eat_w("ADD") {
                if self.is_w("CONSTRAINT") || self.is_w("FOREIGN") {
                    let mut cname = None;
                    if self.eat_w("CONSTRAINT") {
                        if let Some(Tok::Ident(_)) = self.peek() {
                            cname = Some(self.ident()?);
                        }
                    }
                    if self.is_w("FOREIGN") {
                        actions.push(PAlter::AddForeignKey(self.foreign_key(cname)?));
                    } else {
                        return Err("ADD CONSTRAINT: only FOREIGN KEY is expected here".into());
                    }
                } else if self.eat_w("UNIQUE") {
                    actions.push(PAlter::AddUnique(self.name_list()?));
                } else if self.eat_ws(&["PRIMARY", "KEY"]) {
                    actions.push(PAlter::AddPrimaryKey(self.name_list()?));
                } else if self.eat_w("CHECK") {
                    actions.push(PAlter::AddCheck(self.paren_expr()?));
                } else {
                    self.eat_w("COLUMN");
                    let mut ine = false;
                    if self.eat_ws(&["IF", "NOT", "EXISTS"]) {
                        if self.d == Dialect::Mysql {
                            return Err("MySQL has no ADD COLUMN IF NOT EXISTS".into());
                        }
                        ine = true;
                    }
                    actions.push(PAlter::AddColumn { if_not_exists: ine, col: self.column_def(true)? });
                }
            } else if self.d == Dialect::Mysql && self.eat_w("MODIFY") {
                self.eat_w("COLUMN");
                actions.push(PAlter::ModifyColumn(self.column_def(true)?));
            } else if self.d == Dialect::Postgres && self.eat_w("ALTER") {
                self.eat_w("COLUMN");
                let col = self.ident()?;
                if self.eat_w("TYPE") || self.eat_ws(&["SET", "DATA", "TYPE"]) {
                    let ty = self.data_type()?;
                    let using = if self.eat_w("USING") { Some(self.expr()?) } else { None };
                    actions.push(PAlter::AlterType { col, ty, using });
                } else if self.eat_ws(&["SET", "NOT", "NULL"]) {
                    actions.push(PAlter::SetNotNull(col));
                } else if self.eat_ws(&["DROP", "NOT", "NULL"]) {
                    actions.push(PAlter::DropNotNull(col));
                } else if self.eat_ws(&["SET", "DEFAULT"]) {
                    let e = self.default_expr()?;
                    actions.push(PAlter::SetDefault(col, e));
                } else {
                    return Err(format!("unknown ALTER COLUMN action at token {} ({:?})", self.i, self.peek()));
                }
            } else if self.eat_w("RENAME") {
                self.exp_w("COLUMN")?;
                let a = self.ident()?;
                self.exp_w("TO")?;
                let b = self.ident()?;
                actions.push(PAlter::RenameColumn(a, b));
            } else if self.eat_w("DROP") {
                if self.eat_ws(&["FOREIGN", "KEY"]) {
                    if self.d != Dialect::Mysql {
                        return Err("DROP FOREIGN KEY is MySQL syntax".into());
                    }
                    actions.push(PAlter::DropForeignKey(self.ident()?));
                } else if self.eat_w("CONSTRAINT") {
                    actions.push(PAlter::DropConstraint(self.ident()?));
                } else {
                    self.eat_w("COLUMN");
                    actions.push(PAlter::DropColumn(self.ident()?));
                }
            } else {
                return Err(format!("expected an ALTER TABLE action at token {} ({:?})", self.i, self.peek()));
            }
            if !self.eat_p(",") {
                break;
            }
        }
        if self.d == Dialect::Postgres && actions.len() > 1 && actions.iter().any(|a| matches!(a, PAlter::RenameColumn(..))) {
            return Err("PostgreSQL: RENAME COLUMN cannot be combined with other actions in one ALTER TABLE".into());
        }
        Ok(PStmt::AlterTable { name, actions })
    }

    fn create_index(&mut self, unique: bool, fulltext: bool) -> R<PStmt> {
        let mut ine = false;
        if self.eat_ws(&["IF", "NOT", "EXISTS"]) {
            if self.d == Dialect::Mysql {
                return Err("MySQL has no CREATE INDEX IF NOT EXISTS".into());
            }
            ine = true;
        }
        let name = self.ident()?;
        self.exp_w("ON")?;
        let table = self.qname()?;
        let mut using = None;
        if self.eat_w("USING") {
            match self.peek().cloned() {
                Some(Tok::Word(w)) => {
                    self.i += 1;
                    using = Some(w.to_ascii_uppercase())
                }
                other => return Err(format!("expected an index method, got {:?}", other)),
            }
        }
        let cols = self.key_parts()?;
        if self.d == Dialect::Mysql && self.eat_w("USING") {
            match self.peek().cloned() {
                Some(Tok::Word(w)) => {
                    self.i += 1;
                    using = Some(w.to_ascii_uppercase())
                }
                other => return Err(format!("expected an index method, got {:?}", other)),
            }
        }
        let mut include = vec![];
        let mut nnd = false;
        let mut filter = None;
        if self.d == Dialect::Postgres {
            if self.eat_w("INCLUDE") {
                include = self.name_list()?;
            }
            if self.eat_ws(&["NULLS", "NOT", "DISTINCT"]) {
                nnd = true;
            }
            if self.eat_w("WHERE") {
                filter = Some(self.expr()?);
            }
        }
        Ok(PStmt::CreateIndex { unique, fulltext, if_not_exists: ine, name, table, using, cols, include, nulls_not_distinct: nnd, filter })
    }

    fn statement(&mut self) -> R<PStmt> {
        let s = if self.eat_w("CREATE") {
            if self.eat_w("TEMPORARY") {
                self.exp_w("TABLE")?;
                self.create_table(true)?
            } else if self.eat_w("TABLE") {
                self.create_table(false)?
            } else if self.eat_w("UNIQUE") {
                self.exp_w("INDEX")?;
                self.create_index(true, false)?
            } else if self.d == Dialect::Mysql && self.eat_w("FULLTEXT") {
                self.exp_w("INDEX")?;
                self.create_index(false, true)?
            } else if self.eat_w("INDEX") {
                self.create_index(false, false)?
            } else if self.d == Dialect::Postgres && self.eat_w("TYPE") {
                let name = self.qname()?;
                self.exp_w("AS")?;
                self.exp_w("ENUM")?;
                self.exp_p("(")?;
                let mut labels = vec![];
                if !self.is_p(")") {
                    loop {
                        labels.push(self.string()?);
                        if !self.eat_p(",") {
                            break;
                        }
                    }
                }
                self.exp_p(")")?;
                PStmt::CreateType { name, labels }
            } else if self.d == Dialect::Postgres && self.eat_w("EXTENSION") {
                let ine = self.eat_ws(&["IF", "NOT", "EXISTS"]);
                let name = self.obj_name()?;
                let mut schema = None;
                let mut version = None;
                let mut cascade = false;
                self.eat_w("WITH");
                loop {
                    if self.eat_w("SCHEMA") {
                        schema = Some(self.obj_name()?);
                    } else if self.eat_w("VERSION") {
                        version = Some(self.obj_name()?);
                    } else if self.eat_w("CASCADE") {
                        cascade = true;
                    } else {
                        break;
                    }
                }
                PStmt::CreateExtension { if_not_exists: ine, name, schema, version, cascade }
            } else {
                return Err(format!("unknown CREATE statement at token {} ({:?})", self.i, self.peek()));
            }
        } else if self.eat_w("ALTER") {
            if self.eat_w("TABLE") {
                // RENAME TO is a statement of its own
                let save = self.i;
                let name = self.qname()?;
                if self.eat_ws(&["RENAME", "TO"]) {
                    let to = self.qname()?;
                    PStmt::RenameTable { from: name, to }
                } else {
                    self.i = save;
                    self.alter_table()?
                }
            } else if self.d == Dialect::Postgres && self.eat_w("TYPE") {
                let name = self.qname()?;
                if self.eat_ws(&["ADD", "VALUE"]) {
                    let ine = self.eat_ws(&["IF", "NOT", "EXISTS"]);
                    let value = self.string()?;
                    let mut before = None;
                    let mut after = None;
                    if self.eat_w("BEFORE") {
                        before = Some(self.string()?);
                    } else if self.eat_w("AFTER") {
                        after = Some(self.string()?);
                    }
                    PStmt::AlterTypeAddValue { name, if_not_exists: ine, value, before, after }
                } else if self.eat_ws(&["RENAME", "TO"]) {
                    // the grammar wants a name here
                    let to = match self.peek().cloned() {
                        Some(Tok::Ident(s)) => s,
                        Some(Tok::Word(w)) => w,
                        other => return Err(format!("ALTER TYPE .. RENAME TO must be followed by a name, got {:?}", other)),
                    };
                    self.i += 1;
                    PStmt::AlterTypeRename { name, to }
                } else if self.eat_ws(&["RENAME", "VALUE"]) {
                    let from = self.string()?;
                    self.exp_w("TO")?;
                    let to = self.string()?;
                    PStmt::AlterTypeRenameValue { name, from, to }
                } else {
                    return Err(format!("unknown ALTER TYPE action at token {} ({:?})", self.i, self.peek()));
                }
            } else {
                return Err("unknown ALTER statement".into());
            }
        } else if self.d == Dialect::Mysql && self.eat_ws(&["RENAME", "TABLE"]) {
            let from = self.qname()?;
            self.exp_w("TO")?;
            let to = self.qname()?;
            PStmt::RenameTable { from, to }
        } else if self.eat_w("DROP") {
            if self.eat_w("TABLE") {
                let ie = self.eat_ws(&["IF", "EXISTS"]);
                let mut names = vec![];
                loop {
                    names.push(self.qname()?);
                    if !self.eat_p(",") {
                        break;
                    }
                }
                let opt = if self.eat_w("CASCADE") {
                    Some("CASCADE".to_string())
                } else if self.eat_w("RESTRICT") {
                    Some("RESTRICT".to_string())
                } else {
                    None
                };
                PStmt::DropTable { if_exists: ie, names, opt }
            } else if self.eat_w("INDEX") {
                let ie = self.eat_ws(&["IF", "EXISTS"]);
                if ie && self.d == Dialect::Mysql {
                    return Err("MySQL has no DROP INDEX IF EXISTS".into());
                }
                let name = self.qname()?;
                let mut table = None;
                if self.d == Dialect::Mysql {
                    self.exp_w("ON")?;
                    table = Some(self.qname()?);
                }
                PStmt::DropIndex { if_exists: ie, name, table }
            } else if self.d == Dialect::Postgres && self.eat_w("TYPE") {
                let ie = self.eat_ws(&["IF", "EXISTS"]);
                let mut names = vec![];
                loop {
                    names.push(self.qname()?);
                    if !self.eat_p(",") {
                        break;
                    }
                }
                let opt = if self.eat_w("CASCADE") {
                    Some("CASCADE".to_string())
                } else if self.eat_w("RESTRICT") {
                    Some("RESTRICT".to_string())
                } else {
                    None
                };
                PStmt::DropType { if_exists: ie, names, opt }
            } else if self.d == Dialect::Postgres && self.eat_w("EXTENSION") {
                let ie = self.eat_ws(&["IF", "EXISTS"]);
                let name = self.obj_name()?;
                let cascade = self.eat_w("CASCADE");
                let restrict = self.eat_w("RESTRICT");
                if cascade && restrict {
                    return Err("CASCADE and RESTRICT are exclusive".into());
                }
                PStmt::DropExtension { if_exists: ie, name, cascade, restrict }
            } else {
                return Err("unknown DROP statement".into());
            }
        } else if self.eat_ws(&["TRUNCATE", "TABLE"]) {
            PStmt::TruncateTable(self.qname()?)
        } else {
            return Err(format!("unknown statement at token {} ({:?})", self.i, self.peek()));
        };
        if !self.end() {
            return Err(format!("trailing tokens at token {} ({:?})", self.i, self.peek()));
        }
        Ok(s)
    }

    fn obj_name(&mut self) -> R<String> {
        match self.peek().cloned() {
            Some(Tok::Word(w)) | Some(Tok::Ident(w)) | Some(Tok::Str(w)) => {
                self.i += 1;
                Ok(w)
            }
            Some(Tok::Num(n)) => {
                self.i += 1;
                Ok(n)
            }
            other => Err(format!("expected a name at token {} ({:?})", self.i, other)),
        }
    }
}

pub fn parse_ddl(d: Dialect, sql: &str) -> R<PStmt> {
    let toks = lex(d, sql).map_err(|e| format!("lex error at byte {}: {}", e.at, e.msg))?;
    let mut p = P { d, t: &toks, src: sql, i: 0 };
    p.statement()
}
