//! QModel — query-statement operation alphabet, reference state (QSpec) and the independent,
//! fully explicit SQLite reference renderer (DESIGN §2). Used by C01, C02, C07, C09, C15.
//!
//! Every op is applied in lock-step to the REAL sea-query statement and to plain-list reference
//! state. Values carry unique tags whose thousands digit names the clause they were given to.

use crate::lex::Dialect;
use sea_query::*;

// ---------------------------------------------------------------------------------------------
// values and expressions

#[derive(Clone, Debug, PartialEq)]
pub enum V {
    Int(i64),
    Str(String),
}
impl V {
    pub fn value(&self) -> Value {
        match self {
            V::Int(i) => Value::BigInt(Some(*i)),
            V::Str(s) => Value::String(Some(Box::new(s.clone()))),
        }
    }
    pub fn sql(&self) -> String {
        match self {
            V::Int(i) => format!("{i}"),
            V::Str(s) => format!("'{}'", s.replace('\'', "''")),
        }
    }
}

#[derive(Clone, Copy, Debug, PartialEq)]
pub enum BOp {
    Add,
    Sub,
    Mul,
    Eq,
    Ne,
    Lt,
    Gt,
    And,
    Or,
}
impl BOp {
    fn sql(self) -> &'static str {
        match self {
            BOp::Add => "+",
            BOp::Sub => "-",
            BOp::Mul => "*",
            BOp::Eq => "=",
            BOp::Ne => "<>",
            BOp::Lt => "<",
            BOp::Gt => ">",
            BOp::And => "AND",
            BOp::Or => "OR",
        }
    }
    fn oper(self) -> BinOper {
        match self {
            BOp::Add => BinOper::Add,
            BOp::Sub => BinOper::Sub,
            BOp::Mul => BinOper::Mul,
            BOp::Eq => BinOper::Equal,
            BOp::Ne => BinOper::NotEqual,
            BOp::Lt => BinOper::SmallerThan,
            BOp::Gt => BinOper::GreaterThan,
            BOp::And => BinOper::And,
            BOp::Or => BinOper::Or,
        }
    }
}

#[derive(Clone, Copy, Debug, PartialEq)]
pub enum FuncK {
    Max,
    Min,
    Sum,
    Count,
    Abs,
    Coalesce,
    IfNull,
    Lower,
    Upper,
    CharLength,
    Greatest,
    Least,
}

/// expression specification: the reference-side description of an expression
#[derive(Clone, Debug, PartialEq)]
pub enum XS {
    Col(&'static str),
    TCol(&'static str, &'static str),
    Val(V),
    Constant(V),
    Bin(BOp, Box<XS>, Box<XS>),
    Not(Box<XS>),
    IsNull(Box<XS>, bool),
    In(Box<XS>, Vec<V>, bool),
    /// `x IN ()` -> rewritten by sea-query to `1 = 2` (two bound values)
    EmptyIn(Box<XS>, bool),
    Between(Box<XS>, V, V),
    Like(Box<XS>, String, Option<char>),
    Case(Box<XS>, Box<XS>, Box<XS>),
    Func(FuncK, Vec<XS>),
    CountStar,
    /// custom template `? + ?` / `$1 + $2` with two values
    CustAdd(V, V),
    /// Postgres-style reordering template: `$2 - $1` (on ?-backends: `? - ?` with the values swapped by the caller)
    CustReorder(V, V),
    /// template with a quoted literal that contains an escaped quote and a placeholder mark, then a real placeholder
    CustQuoted(V),
    Scalar(Box<SelSpec>),
    Exists(Box<SelSpec>),
    InSub(Box<XS>, Box<SelSpec>),
}

fn a(s: &str) -> Alias {
    Alias::new(s)
}

impl XS {
    pub fn build(&self, d: Dialect) -> SimpleExpr {
        match self {
            XS::Col(c) => Expr::col(a(c)).into(),
            XS::TCol(t, c) => Expr::col((a(t), a(c))).into(),
            XS::Val(v) => SimpleExpr::Value(v.value()),
            XS::Constant(v) => SimpleExpr::Constant(v.value()),
            XS::Bin(op, l, r) => l.build(d).binary(op.oper(), r.build(d)),
            XS::Not(x) => x.build(d).not(),
            XS::IsNull(x, neg) => {
                if *neg {
                    x.build(d).is_not_null()
                } else {
                    x.build(d).is_null()
                }
            }
            XS::In(x, vs, neg) => {
                let items: Vec<SimpleExpr> = vs.iter().map(|v| SimpleExpr::Value(v.value())).collect();
                if *neg {
                    x.build(d).is_not_in(items)
                } else {
                    x.build(d).is_in(items)
                }
            }
            XS::EmptyIn(x, neg) => {
                let items: Vec<SimpleExpr> = vec![];
                if *neg {
                    x.build(d).is_not_in(items)
                } else {
                    x.build(d).is_in(items)
                }
            }
            XS::Between(x, lo, hi) => x.build(d).between(SimpleExpr::Value(lo.value()), SimpleExpr::Value(hi.value())),
            XS::Like(x, p, e) => {
                let mut l = LikeExpr::new(p.clone());
                if let Some(c) = e {
                    l = l.escape(*c);
                }
                x.build(d).like(l)
            }
            XS::Case(c, t, e) => CaseStatement::new().case(c.build(d), t.build(d)).finally(e.build(d)).into(),
            XS::Func(k, args) => {
                let mut it = args.iter().map(|x| x.build(d));
                let f = match k {
                    FuncK::Max => Func::max(it.next().unwrap()),
                    FuncK::Min => Func::min(it.next().unwrap()),
                    FuncK::Sum => Func::sum(it.next().unwrap()),
                    FuncK::Count => Func::count(it.next().unwrap()),
                    FuncK::Abs => Func::abs(it.next().unwrap()),
                    FuncK::Coalesce => Func::coalesce(it.collect::<Vec<_>>()),
                    FuncK::IfNull => {
                        let x = it.next().unwrap();
                        Func::if_null(x, it.next().unwrap())
                    }
                    FuncK::Lower => Func::lower(it.next().unwrap()),
                    FuncK::Upper => Func::upper(it.next().unwrap()),
                    FuncK::CharLength => Func::char_length(it.next().unwrap()),
                    FuncK::Greatest => Func::greatest(it.collect::<Vec<_>>()),
                    FuncK::Least => Func::least(it.collect::<Vec<_>>()),
                };
                f.into()
            }
            XS::CountStar => Func::count(Expr::col(Asterisk)).into(),
            XS::CustAdd(x, y) => {
                let t = if d == Dialect::Postgres { "$1 + $2" } else { "? + ?" };
                Expr::cust_with_values(t, [x.value(), y.value()])
            }
            XS::CustReorder(x, y) => {
                if d == Dialect::Postgres {
                    Expr::cust_with_values("$2 - $1", [x.value(), y.value()])
                } else {
                    Expr::cust_with_values("? - ?", [y.value(), x.value()])
                }
            }
            XS::CustQuoted(x) => {
                let t = match d {
                    Dialect::Mysql => "CONCAT('q\\'?', ?)",
                    Dialect::Postgres => "E'q\\'$1' || $1",
                    Dialect::Sqlite => "'q''?' || ?",
                };
                Expr::cust_with_values(t, [x.value()])
            }
            XS::Scalar(s) => SimpleExpr::SubQuery(None, Box::new(s.build(d).into_sub_query_statement())),
            XS::Exists(s) => Expr::exists(s.build(d)),
            XS::InSub(x, s) => x.build(d).in_subquery(s.build(d)),
        }
    }

    /// independent, fully parenthesised SQLite text
    pub fn ref_sql(&self) -> String {
        match self {
            XS::Col(c) => format!("\"{c}\""),
            XS::TCol(t, c) => format!("\"{t}\".\"{c}\""),
            XS::Val(v) | XS::Constant(v) => v.sql(),
            XS::Bin(op, l, r) => format!("({} {} {})", l.ref_sql(), op.sql(), r.ref_sql()),
            XS::Not(x) => format!("(NOT {})", x.ref_sql()),
            XS::IsNull(x, neg) => format!("({} IS {}NULL)", x.ref_sql(), if *neg { "NOT " } else { "" }),
            XS::In(x, vs, neg) => format!("({} {}IN ({}))", x.ref_sql(), if *neg { "NOT " } else { "" }, vs.iter().map(|v| v.sql()).collect::<Vec<_>>().join(", ")),
            // the documented meaning of an empty list: IN () is false, NOT IN () is true
            XS::EmptyIn(_, neg) => if *neg { "(1 = 1)" } else { "(1 = 2)" }.to_string(),
            XS::Between(x, lo, hi) => format!("({} BETWEEN {} AND {})", x.ref_sql(), lo.sql(), hi.sql()),
            XS::Like(x, p, e) => format!("({} LIKE {}{})", x.ref_sql(), V::Str(p.clone()).sql(), e.map(|c| format!(" ESCAPE {}", V::Str(c.to_string()).sql())).unwrap_or_default()),
            XS::Case(c, t, e) => format!("(CASE WHEN {} THEN {} ELSE {} END)", c.ref_sql(), t.ref_sql(), e.ref_sql()),
            XS::Func(k, args) => {
                let name = match k {
                    FuncK::Max => "MAX",
                    FuncK::Min => "MIN",
                    FuncK::Sum => "SUM",
                    FuncK::Count => "COUNT",
                    FuncK::Abs => "ABS",
                    FuncK::Coalesce => "COALESCE",
                    FuncK::IfNull => "IFNULL",
                    FuncK::Lower => "LOWER",
                    FuncK::Upper => "UPPER",
                    FuncK::CharLength => "LENGTH",
                    FuncK::Greatest => "MAX",
                    FuncK::Least => "MIN",
                };
                format!("{}({})", name, args.iter().map(|x| x.ref_sql()).collect::<Vec<_>>().join(", "))
            }
            XS::CountStar => "COUNT(*)".into(),
            XS::CustAdd(x, y) => format!("({} + {})", x.sql(), y.sql()),
            XS::CustReorder(x, y) => format!("({} - {})", y.sql(), x.sql()),
            XS::CustQuoted(x) => format!("('q''?' || {})", x.sql()),
            XS::Scalar(s) => format!("({})", s.ref_sql()),
            XS::Exists(s) => format!("(EXISTS ({}))", s.ref_sql()),
            XS::InSub(x, s) => format!("({} IN ({}))", x.ref_sql(), s.ref_sql()),
        }
    }

    /// the values that must be bound, in the order the dialect's text reads them
    pub fn tags(&self, d: Dialect, out: &mut Vec<V>) {
        match self {
            XS::Col(_) | XS::TCol(..) | XS::Constant(_) | XS::CountStar => {}
            XS::Val(v) => out.push(v.clone()),
            XS::Bin(_, l, r) => {
                l.tags(d, out);
                r.tags(d, out);
            }
            XS::Not(x) | XS::IsNull(x, _) => x.tags(d, out),
            XS::In(x, vs, _) => {
                x.tags(d, out);
                out.extend(vs.iter().cloned());
            }
            XS::EmptyIn(_, neg) => {
                out.push(V::Int(1));
                out.push(V::Int(if *neg { 1 } else { 2 }));
            }
            XS::Between(x, lo, hi) => {
                x.tags(d, out);
                out.push(lo.clone());
                out.push(hi.clone());
            }
            XS::Like(x, p, _) => {
                x.tags(d, out);
                out.push(V::Str(p.clone()));
            }
            XS::Case(c, t, e) => {
                c.tags(d, out);
                t.tags(d, out);
                e.tags(d, out);
            }
            XS::Func(_, args) => {
                for x in args {
                    x.tags(d, out);
                }
            }
            XS::CustAdd(x, y) => {
                out.push(x.clone());
                out.push(y.clone());
            }
            XS::CustReorder(x, y) => {
                // text order is `y - x` on every dialect
                out.push(y.clone());
                out.push(x.clone());
            }
            XS::CustQuoted(x) => out.push(x.clone()),
            XS::Scalar(s) | XS::Exists(s) => s.tags(d, out),
            XS::InSub(x, s) => {
                x.tags(d, out);
                s.tags(d, out);
            }
        }
    }
}

// ---------------------------------------------------------------------------------------------
// SELECT reference state

#[derive(Clone, Copy, Debug, PartialEq)]
pub enum JoinK {
    Inner,
    Left,
    Cross,
    Right,
    FullOuter,
    Plain,
}
#[derive(Clone, Copy, Debug, PartialEq)]
pub enum UK {
    All,
    Distinct,
    Intersect,
    Except,
}

#[derive(Clone, Debug, PartialEq)]
pub enum FromItem {
    Table(&'static str),
    TableAs(&'static str, &'static str),
    Sub(Box<SelSpec>, &'static str),
    Values(Vec<(V, V)>, &'static str),
}

#[derive(Clone, Debug, PartialEq)]
pub enum OrderK {
    Plain(bool),
    Nulls(bool, bool),
    Field(Vec<V>),
}

#[derive(Clone, Debug, PartialEq)]
pub enum WinFrame {
    None,
    RowsBetweenPrecedingCurrent(u32),
    RowsUnboundedFollowing(u32),
    /// ROWS BETWEEN UNBOUNDED PRECEDING AND CURRENT ROW (differs from the default RANGE frame when the window order has ties)
    RowsUnboundedCurrent,
}

#[derive(Clone, Debug, PartialEq)]
pub enum Item {
    Expr(XS, Option<&'static str>),
    /// expr OVER (PARTITION BY col ORDER BY col frame) AS alias
    Window(XS, &'static str, &'static str, WinFrame, &'static str),
}

#[derive(Clone, Debug, PartialEq, Default)]
pub struct SelSpec {
    pub distinct: bool,
    pub items: Vec<Item>,
    pub from: Vec<FromItem>,
    pub joins: Vec<(JoinK, &'static str, XS)>,
    /// each entry is one added condition; `Any` groups hold their members
    pub wheres: Vec<CondS>,
    pub groups: Vec<XS>,
    pub havings: Vec<CondS>,
    pub unions: Vec<(UK, SelSpec)>,
    pub orders: Vec<(XS, OrderK)>,
    pub limit: Option<u64>,
    pub offset: Option<u64>,
    pub lock: Option<&'static str>,
    pub ctes: Vec<(&'static str, bool, SelSpec)>,
}

#[derive(Clone, Debug, PartialEq)]
pub enum CondS {
    One(XS),
    /// Cond::any() group (empty = FALSE)
    Any(Vec<XS>),
    /// Cond::all() group (empty = TRUE)
    All(Vec<XS>),
}
impl CondS {
    pub fn ref_sql(&self) -> String {
        match self {
            CondS::One(x) => x.ref_sql(),
            CondS::Any(v) if v.is_empty() => "(1 = 0)".into(),
            CondS::All(v) if v.is_empty() => "(1 = 1)".into(),
            CondS::Any(v) => format!("({})", v.iter().map(|x| x.ref_sql()).collect::<Vec<_>>().join(" OR ")),
            CondS::All(v) => format!("({})", v.iter().map(|x| x.ref_sql()).collect::<Vec<_>>().join(" AND ")),
        }
    }
    pub fn tags(&self, d: Dialect, out: &mut Vec<V>) {
        match self {
            CondS::One(x) => x.tags(d, out),
            CondS::Any(v) | CondS::All(v) => v.iter().for_each(|x| x.tags(d, out)),
        }
    }
}

fn conds_sql(kw: &str, cs: &[CondS]) -> String {
    if cs.is_empty() {
        String::new()
    } else {
        format!(" {} {}", kw, cs.iter().map(|c| format!("({})", c.ref_sql())).collect::<Vec<_>>().join(" AND "))
    }
}

fn order_sql(x: &XS, k: &OrderK) -> String {
    match k {
        OrderK::Plain(desc) => format!("{} {}", x.ref_sql(), if *desc { "DESC" } else { "ASC" }),
        OrderK::Nulls(desc, first) => format!("{} {} NULLS {}", x.ref_sql(), if *desc { "DESC" } else { "ASC" }, if *first { "FIRST" } else { "LAST" }),
        OrderK::Field(vs) => {
            let mut s = String::from("CASE");
            for (i, v) in vs.iter().enumerate() {
                s.push_str(&format!(" WHEN {} = {} THEN {}", x.ref_sql(), v.sql(), i));
            }
            s.push_str(&format!(" ELSE {} END", vs.len()));
            s
        }
    }
}

impl SelSpec {
    pub fn ref_sql(&self) -> String {
        let mut s = String::new();
        if !self.ctes.is_empty() {
            let rec = self.ctes.iter().any(|c| c.1);
            s.push_str(if rec { "WITH RECURSIVE " } else { "WITH " });
            s.push_str(&self.ctes.iter().map(|(n, _, q)| format!("\"{}\" AS ({})", n, q.ref_sql())).collect::<Vec<_>>().join(", "));
            s.push(' ');
        }
        s.push_str("SELECT ");
        if self.distinct {
            s.push_str("DISTINCT ");
        }
        s.push_str(
            &self
                .items
                .iter()
                .map(|it| match it {
                    Item::Expr(x, None) => x.ref_sql(),
                    Item::Expr(x, Some(al)) => format!("{} AS \"{}\"", x.ref_sql(), al),
                    Item::Window(x, part, ord, fr, al) => format!(
                        "{} OVER (PARTITION BY \"{}\" ORDER BY \"{}\" ASC{}) AS \"{}\"",
                        x.ref_sql(),
                        part,
                        ord,
                        match fr {
                            WinFrame::None => String::new(),
                            WinFrame::RowsBetweenPrecedingCurrent(n) => format!(" ROWS BETWEEN {n} PRECEDING AND CURRENT ROW"),
                            WinFrame::RowsUnboundedFollowing(n) => format!(" ROWS BETWEEN UNBOUNDED PRECEDING AND {n} FOLLOWING"),
                            WinFrame::RowsUnboundedCurrent => " ROWS BETWEEN UNBOUNDED PRECEDING AND CURRENT ROW".to_string(),
                        },
                        al
                    ),
                })
                .collect::<Vec<_>>()
                .join(", "),
        );
        if !self.from.is_empty() {
            s.push_str(" FROM ");
            s.push_str(
                &self
                    .from
                    .iter()
                    .map(|f| match f {
                        FromItem::Table(t) => format!("\"{t}\""),
                        FromItem::TableAs(t, al) => format!("\"{t}\" AS \"{al}\""),
                        FromItem::Sub(q, al) => format!("({}) AS \"{}\"", q.ref_sql(), al),
                        FromItem::Values(rows, al) => format!("(VALUES {}) AS \"{}\"", rows.iter().map(|(x, y)| format!("({}, {})", x.sql(), y.sql())).collect::<Vec<_>>().join(", "), al),
                    })
                    .collect::<Vec<_>>()
                    .join(", "),
            );
        }
        for (k, t, on) in &self.joins {
            let kw = match k {
                JoinK::Inner => "INNER JOIN",
                JoinK::Left => "LEFT JOIN",
                JoinK::Cross => "CROSS JOIN",
                JoinK::Right => "RIGHT JOIN",
                JoinK::FullOuter => "FULL OUTER JOIN",
                JoinK::Plain => "JOIN",
            };
            s.push_str(&format!(" {} \"{}\" ON ({})", kw, t, on.ref_sql()));
        }
        s.push_str(&conds_sql("WHERE", &self.wheres));
        if !self.groups.is_empty() {
            s.push_str(" GROUP BY ");
            s.push_str(&self.groups.iter().map(|x| x.ref_sql()).collect::<Vec<_>>().join(", "));
        }
        s.push_str(&conds_sql("HAVING", &self.havings));
        for (k, q) in &self.unions {
            s.push_str(match k {
                UK::All => " UNION ALL ",
                UK::Distinct => " UNION ",
                UK::Intersect => " INTERSECT ",
                UK::Except => " EXCEPT ",
            });
            s.push_str(&q.ref_sql());
        }
        if !self.orders.is_empty() {
            s.push_str(" ORDER BY ");
            s.push_str(&self.orders.iter().map(|(x, k)| order_sql(x, k)).collect::<Vec<_>>().join(", "));
        }
        if let Some(l) = self.limit {
            s.push_str(&format!(" LIMIT {l}"));
        }
        if let Some(o) = self.offset {
            s.push_str(&format!(" OFFSET {o}"));
        }
        s
    }

    /// values in the order the dialect's grammar reads the clauses
    pub fn tags(&self, d: Dialect, out: &mut Vec<V>) {
        for (_, _, q) in &self.ctes {
            q.tags(d, out);
        }
        for it in &self.items {
            match it {
                Item::Expr(x, _) => x.tags(d, out),
                Item::Window(x, _, _, fr, _) => {
                    x.tags(d, out);
                    match fr {
                        WinFrame::None | WinFrame::RowsUnboundedCurrent => {}
                        WinFrame::RowsBetweenPrecedingCurrent(n) | WinFrame::RowsUnboundedFollowing(n) => out.push(V::Int(*n as i64)),
                    }
                }
            }
        }
        for f in &self.from {
            match f {
                FromItem::Sub(q, _) => q.tags(d, out),
                FromItem::Values(rows, _) => {
                    for (x, y) in rows {
                        out.push(x.clone());
                        out.push(y.clone());
                    }
                }
                _ => {}
            }
        }
        for (_, _, on) in &self.joins {
            on.tags(d, out);
        }
        for c in &self.wheres {
            c.tags(d, out);
        }
        for g in &self.groups {
            g.tags(d, out);
        }
        for c in &self.havings {
            c.tags(d, out);
        }
        for (_, q) in &self.unions {
            q.tags(d, out);
        }
        for (x, k) in &self.orders {
            match k {
                OrderK::Field(_) => {
                    // MySQL's NULLS emulation is not used with FIELD here; the FIELD values are always inlined
                    let _ = x;
                }
                OrderK::Nulls(..) if d == Dialect::Mysql => {
                    // `x IS NULL ASC, x ASC`: the expression is written twice
                    x.tags(d, out);
                    x.tags(d, out);
                }
                _ => x.tags(d, out),
            }
        }
        if let Some(l) = self.limit {
            out.push(V::Int(l as i64));
        }
        if let Some(o) = self.offset {
            out.push(V::Int(o as i64));
        }
    }

    /// build the REAL statement from the specification (used for nested statements)
    pub fn build(&self, d: Dialect) -> SelectStatement {
        let mut s = Query::select();
        for op in self.as_ops() {
            apply_sel(&mut s, &op, d);
        }
        s
    }

    /// the op list that rebuilds this specification from scratch
    pub fn as_ops(&self) -> Vec<SelOp> {
        let mut v = vec![];
        if self.distinct {
            v.push(SelOp::Distinct);
        }
        for it in &self.items {
            v.push(SelOp::Item(it.clone()));
        }
        for f in &self.from {
            v.push(SelOp::From(f.clone()));
        }
        for (k, t, on) in &self.joins {
            v.push(SelOp::Join(*k, t, on.clone()));
        }
        for c in &self.wheres {
            v.push(SelOp::Where(c.clone()));
        }
        for g in &self.groups {
            v.push(SelOp::Group(g.clone()));
        }
        for c in &self.havings {
            v.push(SelOp::Having(c.clone()));
        }
        for (k, q) in &self.unions {
            v.push(SelOp::Union(*k, Box::new(q.clone())));
        }
        for (x, k) in &self.orders {
            v.push(SelOp::Order(x.clone(), k.clone()));
        }
        if let Some(l) = self.limit {
            v.push(SelOp::Limit(l));
        }
        if let Some(o) = self.offset {
            v.push(SelOp::Offset(o));
        }
        if let Some(l) = self.lock {
            v.push(SelOp::Lock(l));
        }
        for (n, rec, q) in &self.ctes {
            v.push(SelOp::Cte(n, *rec, Box::new(q.clone())));
        }
        v
    }
}

impl SelSpec {
    /// ORDER BY keys that are not determined by the rows the query returns: under GROUP BY a bare column that is not a
    /// group key, under DISTINCT an expression that is not in the select list. The engine then orders by the value of an
    /// arbitrary row of each group, so two correct texts may legitimately return different orders (and, with LIMIT,
    /// different rows).
    pub fn order_is_arbitrary(&self) -> bool {
        if self.orders.is_empty() {
            return false;
        }
        let in_items = |x: &XS| self.items.iter().any(|it| matches!(it, Item::Expr(e, _) if e == x));
        let in_groups = |x: &XS| self.groups.iter().any(|g| g == x);
        let aggregate = |x: &XS| matches!(x, XS::Func(FuncK::Max | FuncK::Min | FuncK::Sum | FuncK::Count, _) | XS::CountStar);
        let grouped = !self.groups.is_empty() || self.items.iter().any(|it| matches!(it, Item::Expr(e, _) if aggregate(e)));
        self.orders.iter().any(|(x, _)| (grouped && !in_groups(x) && !aggregate(x)) || (self.distinct && !in_items(x)))
    }
}

#[derive(Clone, Debug, PartialEq)]
pub enum SelOp {
    Distinct,
    Item(Item),
    From(FromItem),
    Join(JoinK, &'static str, XS),
    Where(CondS),
    Group(XS),
    Having(CondS),
    Union(UK, Box<SelSpec>),
    Order(XS, OrderK),
    Limit(u64),
    Offset(u64),
    Lock(&'static str),
    Cte(&'static str, bool, Box<SelSpec>),
}

pub fn op_class(op: &SelOp) -> &'static str {
    match op {
        SelOp::Distinct => "distinct",
        SelOp::Item(Item::Expr(..)) => "item",
        SelOp::Item(Item::Window(..)) => "window-item",
        SelOp::From(FromItem::Table(_)) | SelOp::From(FromItem::TableAs(..)) => "from",
        SelOp::From(FromItem::Sub(..)) => "from-subquery",
        SelOp::From(FromItem::Values(..)) => "from-values",
        SelOp::Join(..) => "join",
        SelOp::Where(CondS::One(_)) => "and_where",
        SelOp::Where(CondS::Any(v)) | SelOp::Where(CondS::All(v)) if v.is_empty() => "cond_where-empty-group",
        SelOp::Where(CondS::Any(_)) | SelOp::Where(CondS::All(_)) => "cond_where",
        SelOp::Group(_) => "group_by",
        SelOp::Having(_) => "having",
        SelOp::Union(..) => "union",
        SelOp::Order(_, OrderK::Plain(_)) => "order_by",
        SelOp::Order(_, OrderK::Nulls(..)) => "order_by_nulls",
        SelOp::Order(_, OrderK::Field(_)) => "order_by_field",
        SelOp::Limit(_) => "limit",
        SelOp::Offset(_) => "offset",
        SelOp::Lock(_) => "lock",
        SelOp::Cte(..) => "with_cte",
    }
}

pub fn cond_build(c: &CondS, d: Dialect) -> Condition {
    match c {
        CondS::One(x) => x.build(d).into_condition(),
        CondS::Any(v) | CondS::All(v) => {
            let mut c = if matches!(c, CondS::Any(_)) { Cond::any() } else { Cond::all() };
            for x in v {
                c = c.add(x.build(d));
            }
            c
        }
    }
}

/// the real builder call for one op
pub fn apply_sel(s: &mut SelectStatement, op: &SelOp, d: Dialect) {
    match op {
        SelOp::Distinct => {
            s.distinct();
        }
        SelOp::Item(Item::Expr(XS::Col(c), None)) => {
            s.column(a(c));
        }
        SelOp::Item(Item::Expr(x, None)) => {
            s.expr(x.build(d));
        }
        SelOp::Item(Item::Expr(x, Some(al))) => {
            s.expr_as(x.build(d), a(al));
        }
        SelOp::Item(Item::Window(x, part, ord, fr, al)) => {
            let mut w = WindowStatement::partition_by(a(part));
            w.order_by(a(ord), Order::Asc);
            match fr {
                WinFrame::None => {}
                WinFrame::RowsBetweenPrecedingCurrent(n) => {
                    w.frame_between(FrameType::Rows, Frame::Preceding(*n), Frame::CurrentRow);
                }
                WinFrame::RowsUnboundedFollowing(n) => {
                    w.frame_between(FrameType::Rows, Frame::UnboundedPreceding, Frame::Following(*n));
                }
                WinFrame::RowsUnboundedCurrent => {
                    w.frame_between(FrameType::Rows, Frame::UnboundedPreceding, Frame::CurrentRow);
                }
            }
            s.expr_window_as(x.build(d), w, a(al));
        }
        SelOp::From(FromItem::Table(t)) => {
            s.from(a(t));
        }
        SelOp::From(FromItem::TableAs(t, al)) => {
            s.from_as(a(t), a(al));
        }
        SelOp::From(FromItem::Sub(q, al)) => {
            s.from_subquery(q.build(d), a(al));
        }
        SelOp::From(FromItem::Values(rows, al)) => {
            s.from_values(rows.iter().map(|(x, y)| (x.value(), y.value())).collect::<Vec<_>>(), a(al));
        }
        SelOp::Join(k, t, on) => {
            let jt = match k {
                JoinK::Inner => JoinType::InnerJoin,
                JoinK::Left => JoinType::LeftJoin,
                JoinK::Cross => JoinType::CrossJoin,
                JoinK::Right => JoinType::RightJoin,
                JoinK::FullOuter => JoinType::FullOuterJoin,
                JoinK::Plain => JoinType::Join,
            };
            s.join(jt, a(t), on.build(d));
        }
        SelOp::Where(CondS::One(x)) => {
            s.and_where(x.build(d));
        }
        SelOp::Where(c) => {
            s.cond_where(cond_build(c, d));
        }
        SelOp::Group(XS::Col(c)) => {
            s.group_by_col(a(c));
        }
        SelOp::Group(x) => {
            s.add_group_by([x.build(d)]);
        }
        SelOp::Having(CondS::One(x)) => {
            s.and_having(x.build(d));
        }
        SelOp::Having(c) => {
            s.cond_having(cond_build(c, d));
        }
        SelOp::Union(k, q) => {
            let ut = match k {
                UK::All => UnionType::All,
                UK::Distinct => UnionType::Distinct,
                UK::Intersect => UnionType::Intersect,
                UK::Except => UnionType::Except,
            };
            s.union(ut, q.build(d));
        }
        SelOp::Order(XS::Col(c), OrderK::Plain(desc)) => {
            s.order_by(a(c), if *desc { Order::Desc } else { Order::Asc });
        }
        SelOp::Order(x, OrderK::Plain(desc)) => {
            s.order_by_expr(x.build(d), if *desc { Order::Desc } else { Order::Asc });
        }
        SelOp::Order(x, OrderK::Nulls(desc, first)) => {
            s.order_by_expr_with_nulls(x.build(d), if *desc { Order::Desc } else { Order::Asc }, if *first { NullOrdering::First } else { NullOrdering::Last });
        }
        SelOp::Order(x, OrderK::Field(vs)) => {
            s.order_by_expr(x.build(d), Order::Field(Values(vs.iter().map(|v| v.value()).collect())));
        }
        SelOp::Limit(n) => {
            s.limit(*n);
        }
        SelOp::Offset(n) => {
            s.offset(*n);
        }
        SelOp::Lock(k) => {
            match *k {
                "update" => s.lock(LockType::Update),
                "share" => s.lock(LockType::Share),
                "update-nowait" => s.lock_with_behavior(LockType::Update, LockBehavior::Nowait),
                _ => s.lock_with_behavior(LockType::Update, LockBehavior::SkipLocked),
            };
        }
        SelOp::Cte(n, rec, q) => {
            let cte = CommonTableExpression::new().query(q.build(d)).table_name(a(n)).to_owned();
            let mut w = WithClause::new();
            w.recursive(*rec).cte(cte);
            s.with_cte(w);
        }
    }
}

/// the reference transition for one op
pub fn apply_spec(r: &mut SelSpec, op: &SelOp) {
    match op {
        SelOp::Distinct => r.distinct = true,
        SelOp::Item(it) => r.items.push(it.clone()),
        SelOp::From(f) => r.from.push(f.clone()),
        SelOp::Join(k, t, on) => r.joins.push((*k, t, on.clone())),
        SelOp::Where(c) => r.wheres.push(c.clone()),
        SelOp::Group(x) => r.groups.push(x.clone()),
        SelOp::Having(c) => r.havings.push(c.clone()),
        SelOp::Union(k, q) => r.unions.push((*k, (**q).clone())),
        SelOp::Order(x, k) => r.orders.push((x.clone(), k.clone())),
        SelOp::Limit(n) => r.limit = Some(*n),
        SelOp::Offset(n) => r.offset = Some(*n),
        SelOp::Lock(k) => r.lock = Some(k),
        SelOp::Cte(n, rec, q) => {
            // with_cte replaces the WITH clause of the statement
            r.ctes = vec![(n, *rec, (**q).clone())];
        }
    }
}

// ---------------------------------------------------------------------------------------------
// the fixed schema and data for SQLite executions

pub const SCHEMA: &str = "
CREATE TABLE t1 (id INTEGER PRIMARY KEY, a INT, b INT, s TEXT);
CREATE TABLE t2 (id INTEGER PRIMARY KEY, t1_id INT, c INT, s TEXT);
CREATE TABLE t3 (k INT, v TEXT);
INSERT INTO t1 VALUES (1, 500, 7000, 'x'), (2, 1500, 100, 'y'), (3, 2500, 5500, 'x1'), (4, 3500, NULL, NULL), (5, NULL, 2100, 'zé你'), (6, 1500, 100, 'y');
INSERT INTO t2 VALUES (1, 1, 1200, 'x'), (2, 1, 5200, 'q'), (3, 2, NULL, 'y'), (4, 9, 800, NULL), (5, 3, 5200, 'x1');
INSERT INTO t3 VALUES (1, 'one'), (2, NULL), (NULL, 'three');
";

fn iv(n: i64) -> V {
    V::Int(n)
}
fn b(x: XS) -> Box<XS> {
    Box::new(x)
}

/// select-list expressions (value tags 100..999)
pub fn pool_items() -> Vec<XS> {
    vec![
        XS::Bin(BOp::Add, b(XS::Col("a")), b(XS::Val(iv(101)))),
        XS::Case(b(XS::Bin(BOp::Gt, b(XS::Col("a")), b(XS::Val(iv(1111))))), b(XS::Val(iv(112))), b(XS::Val(iv(113)))),
        XS::Func(FuncK::Max, vec![XS::Col("b")]),
        // a text value whose characters the escapers treat specially (no quote, no backslash): shows in the result rows
        XS::Val(V::Str("l1\nl2\t\"q\"".into())),
        XS::CountStar,
        XS::CustAdd(iv(121), iv(122)),
        XS::CustQuoted(iv(181)),
        XS::Func(FuncK::IfNull, vec![XS::Col("b"), XS::Val(iv(131))]),
        XS::Bin(BOp::Mul, b(XS::Bin(BOp::Sub, b(XS::Col("a")), b(XS::Val(iv(141))))), b(XS::Val(iv(2)))),
        XS::Val(V::Str("it's".into())),
        XS::Func(FuncK::Greatest, vec![XS::Col("a"), XS::Col("b"), XS::Val(iv(151))]),
        XS::Func(FuncK::Least, vec![XS::Col("a"), XS::Col("b"), XS::Val(iv(191))]),
        XS::CustReorder(iv(161), iv(162)),
        XS::Func(FuncK::CharLength, vec![XS::Col("s")]),
        XS::Constant(iv(171)),
    ]
}

/// boolean expressions for WHERE / ON (tags 1000..1999 / 5000..5999 chosen by the caller through `retag`)
pub fn pool_bool() -> Vec<XS> {
    vec![
        XS::Bin(BOp::Gt, b(XS::Col("a")), b(XS::Val(iv(1001)))),
        XS::In(b(XS::Col("b")), vec![iv(100), iv(5500), iv(1013)], false),
        // text with characters the escapers treat specially but neither a quote nor a backslash
        XS::Bin(BOp::Ne, b(XS::Col("s")), b(XS::Val(V::Str("l1\nl2\t\"q\"".into())))),
        XS::Between(b(XS::Col("a")), iv(1021), iv(2621)),
        XS::Like(b(XS::Col("s")), "x%".into(), None),
        XS::Like(b(XS::Col("s")), "x\\%".into(), Some('\\')),
        XS::IsNull(b(XS::Col("b")), true),
        XS::Not(b(XS::Bin(BOp::Eq, b(XS::Col("a")), b(XS::Val(iv(1500)))))),
        XS::EmptyIn(b(XS::Col("a")), true),
        XS::Bin(BOp::Or, b(XS::Bin(BOp::Lt, b(XS::Col("a")), b(XS::Val(iv(1041))))), b(XS::IsNull(b(XS::Col("a")), false))),
        XS::Like(b(XS::Col("s")), "x|%".into(), Some('|')),
        XS::In(b(XS::Col("a")), vec![iv(500), iv(2500)], true),
        XS::EmptyIn(b(XS::Col("a")), false),
    ]
}

/// shift every integer tag >= 100 of an expression by `delta` (keeps nested statements' tags unique)
pub fn retag(x: &XS, delta: i64) -> XS {
    let tv = |v: &V| match v {
        V::Int(i) if *i >= 100 && *i % 100 != 0 => V::Int(i + delta),
        other => other.clone(),
    };
    match x {
        XS::Val(v) => XS::Val(tv(v)),
        XS::Bin(o, l, r) => XS::Bin(*o, b(retag(l, delta)), b(retag(r, delta))),
        XS::Not(x) => XS::Not(b(retag(x, delta))),
        XS::IsNull(x, n) => XS::IsNull(b(retag(x, delta)), *n),
        XS::In(x, vs, n) => XS::In(b(retag(x, delta)), vs.iter().map(tv).collect(), *n),
        XS::EmptyIn(x, n) => XS::EmptyIn(b(retag(x, delta)), *n),
        XS::Between(x, lo, hi) => XS::Between(b(retag(x, delta)), tv(lo), tv(hi)),
        XS::Like(x, p, e) => XS::Like(b(retag(x, delta)), p.clone(), *e),
        XS::Case(c, t, e) => XS::Case(b(retag(c, delta)), b(retag(t, delta)), b(retag(e, delta))),
        XS::Func(k, args) => XS::Func(*k, args.iter().map(|x| retag(x, delta)).collect()),
        XS::CustAdd(x, y) => XS::CustAdd(tv(x), tv(y)),
        XS::CustReorder(x, y) => XS::CustReorder(tv(x), tv(y)),
        XS::CustQuoted(x) => XS::CustQuoted(tv(x)),
        other => other.clone(),
    }
}
