mod cparse;
mod ddlparse;
mod enumerate;
mod dml;
mod explore;
mod exprparse;
mod lex;
mod props;
mod qmodel;
mod report;
mod smodel;
mod sqlite;
mod util;

use report::Report;
use std::sync::Arc;

fn usage() -> ! {
    eprintln!("usage: vmc <C01..C19> [--tier quick|thorough] [--replay <file>]");
    std::process::exit(2)
}

fn main() {
    let args: Vec<String> = std::env::args().skip(1).collect();
    if args.is_empty() {
        usage();
    }
    let prop = args[0].clone();
    let mut tier = std::env::var("VERIF_TIER").unwrap_or_else(|_| "quick".into());
    let mut replay: Option<String> = None;
    let mut i = 1;
    while i < args.len() {
        match args[i].as_str() {
            "--tier" => {
                tier = args.get(i + 1).cloned().unwrap_or_else(|| usage());
                i += 2;
            }
            "--replay" => {
                replay = Some(args.get(i + 1).cloned().unwrap_or_else(|| usage()));
                i += 2;
            }
            _ => usage(),
        }
    }
    if tier != "quick" && tier != "thorough" {
        usage();
    }
    util::quiet_panics();
    sqlite::init();
    let Some(entry) = props::lookup(&prop) else {
        eprintln!("unknown or unbuilt property {prop}");
        std::process::exit(2)
    };
    if let Some(path) = replay {
        let txt = std::fs::read_to_string(&path).unwrap_or_else(|e| {
            eprintln!("cannot read {path}: {e}");
            std::process::exit(2)
        });
        let j: serde_json::Value = serde_json::from_str(&txt).expect("replay file is JSON");
        let case = &j["case"];
        // replay twice, assert identical observations
        let a = (entry.replay)(case);
        let b = (entry.replay)(case);
        if a != b {
            eprintln!("NONDETERMINISTIC REPLAY:\n  first : {a:?}\n  second: {b:?}");
            std::process::exit(3);
        }
        match a {
            Some(msg) => {
                println!("replay {path}: FAILS\n{msg}");
                println!("VIOLATION property={} replay={}", entry.id, path);
                std::process::exit(1)
            }
            None => {
                println!("replay {path}: passes (property holds on this case)");
                std::process::exit(0)
            }
        }
    }
    let rep = Arc::new(Report::new(entry.id, &tier));
    (entry.run)(&rep);
    let code = rep.finish();
    std::process::exit(code)
}
