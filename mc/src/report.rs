//! Violations, known findings, replay files and evidence files.

use serde_json::{json, Map, Value as J};
use std::collections::BTreeMap;
use std::sync::Mutex;
use std::time::Instant;

pub const VERIF: &str = "/verif";

#[derive(Clone, Debug)]
pub struct Violation {
    /// canonical key of the *minimised* counterexample: `<site>|<signature>|<minimal input>`
    pub key: String,
    /// human readable: expected vs observed
    pub what: String,
    /// everything `--replay` needs
    pub case: J,
}

pub struct Report {
    pub prop: &'static str,
    pub tier: String,
    start: Instant,
    violations: Mutex<BTreeMap<String, Violation>>,
    pub raw_failures: crate::util::Counter,
    cov: Mutex<Map<String, J>>,
    samples: Mutex<Vec<J>>,
    assumptions: Mutex<Vec<String>>,
}

impl Report {
    pub fn new(prop: &'static str, tier: &str) -> Self {
        Report {
            prop,
            tier: tier.to_string(),
            start: Instant::now(),
            violations: Mutex::new(BTreeMap::new()),
            raw_failures: crate::util::Counter::new(),
            cov: Mutex::new(Map::new()),
            samples: Mutex::new(Vec::new()),
            assumptions: Mutex::new(Vec::new()),
        }
    }
    pub fn thorough(&self) -> bool {
        self.tier == "thorough"
    }
    /// Record a (minimised) violation; duplicates by key are merged.
    pub fn violation(&self, v: Violation) {
        let mut g = self.violations.lock().unwrap();
        g.entry(v.key.clone()).or_insert(v);
    }
    /// first recorded violation whose key starts with `site` (used by replays that re-run a sweep)
    pub fn find_violation(&self, site: &str) -> Option<String> {
        let g = self.violations.lock().unwrap();
        g.iter().find(|(k, _)| k.starts_with(site)).map(|(k, v)| format!("[{}] {}", k, v.what))
    }
    pub fn n_violation_keys(&self) -> usize {
        self.violations.lock().unwrap().len()
    }
    pub fn set(&self, k: &str, v: J) {
        self.cov.lock().unwrap().insert(k.to_string(), v);
    }
    pub fn add_u64(&self, k: &str, n: u64) {
        let mut g = self.cov.lock().unwrap();
        let cur = g.get(k).and_then(|v| v.as_u64()).unwrap_or(0);
        g.insert(k.to_string(), json!(cur + n));
    }
    pub fn sample(&self, v: J) {
        let mut g = self.samples.lock().unwrap();
        if g.len() < 24 {
            g.push(v);
        }
    }
    pub fn assume(&self, s: &str) {
        self.assumptions.lock().unwrap().push(s.to_string());
    }

    /// Print KNOWN-FINDING / VIOLATION lines, write replay + evidence files, return the exit code.
    pub fn finish(&self) -> i32 {
        let known = load_known();
        let viol = self.violations.lock().unwrap().clone();
        let mut new_v = 0;
        let mut known_hit = Vec::new();
        std::fs::create_dir_all(format!("{VERIF}/replays")).ok();
        for (key, v) in &viol {
            let k = known
                .iter()
                .find(|k| k.property == self.prop && k.status == "known" && k.key == *key);
            if let Some(k) = k {
                println!("KNOWN-FINDING: property={} {} [{}]", self.prop, k.what, crate::util::show(key));
                known_hit.push(key.clone());
            } else {
                new_v += 1;
                if new_v > 20 {
                    continue;
                }
                let path = format!("{VERIF}/replays/{}-{}.json", self.prop, crate::util::hex64(key));
                let body = json!({"property": self.prop, "key": key, "what": v.what, "case": v.case});
                std::fs::write(&path, serde_json::to_string_pretty(&body).unwrap()).ok();
                println!("--- {} violation: key={}\n    {}", self.prop, crate::util::show(key), v.what.replace('\n', "\n    "));
                println!("VIOLATION property={} replay={}", self.prop, path);
            }
        }
        if new_v > 20 {
            let all: Vec<String> = viol.iter().map(|(k, v)| format!("{}\t{}", crate::util::show(k), v.what.replace('\n', " "))).collect();
            std::fs::write(format!("{VERIF}/replays/{}-all-keys.txt", self.prop), all.join("\n") + "\n").ok();
            println!("... and {} more distinct minimised violations of {} (not printed; fix the first ones and re-run)", new_v - 20, self.prop);
        }
        // evidence
        let mut cov = self.cov.lock().unwrap().clone();
        let samples = self.samples.lock().unwrap().clone();
        cov.insert("samples".into(), J::Array(samples));
        cov.insert("raw_failing_cases".into(), json!(self.raw_failures.get()));
        cov.insert("minimised_violation_keys".into(), json!(viol.len()));
        cov.insert("known_findings_matched".into(), json!(known_hit));
        let ev = json!({
            "property_id": self.prop,
            "tier": self.tier,
            "seed": crate::util::seed(),
            "level": "model_checking",
            "coverage": J::Object(cov),
            "assumptions": self.assumptions.lock().unwrap().clone(),
            "wall_s": (self.start.elapsed().as_secs_f64() * 1000.0).round() / 1000.0,
            "violations": new_v,
        });
        std::fs::create_dir_all(format!("{VERIF}/evidence")).ok();
        let path = format!("{VERIF}/evidence/{}{}.json", self.prop, std::env::var("VERIF_EVIDENCE_SUFFIX").unwrap_or_default());
        std::fs::write(&path, serde_json::to_string_pretty(&ev).unwrap() + "\n").expect("write evidence");
        println!(
            "{} tier={} new_violations={} known={} wall={:.1}s evidence={}",
            self.prop,
            ev["tier"].as_str().unwrap(),
            new_v,
            known_hit.len(),
            ev["wall_s"].as_f64().unwrap(),
            path
        );
        if new_v > 0 {
            1
        } else {
            0
        }
    }
}

pub struct Known {
    pub status: String,
    pub property: String,
    pub key: String,
    pub what: String,
}

pub fn load_known() -> Vec<Known> {
    let path = format!("{VERIF}/known_findings.json");
    let Ok(txt) = std::fs::read_to_string(&path) else { return vec![] };
    let j: J = serde_json::from_str(&txt).expect("known_findings.json must be valid JSON");
    let mut out = vec![];
    for e in j["findings"].as_array().cloned().unwrap_or_default() {
        out.push(Known {
            status: e["status"].as_str().unwrap_or("").to_string(),
            property: e["property"].as_str().unwrap_or("").to_string(),
            key: e["key"].as_str().unwrap_or("").to_string(),
            what: e["what"].as_str().unwrap_or("").to_string(),
        });
    }
    out
}

/// Deterministic greedy minimisation: repeatedly move to the first reduction that still fails with
/// the same signature.
pub fn minimize<C: Clone>(
    mut case: C,
    sig: &str,
    reductions: impl Fn(&C) -> Vec<C>,
    fails: impl Fn(&C) -> Option<String>,
) -> C {
    let mut budget = 20000;
    'outer: loop {
        for r in reductions(&case) {
            budget -= 1;
            if budget == 0 {
                return case;
            }
            if fails(&r).as_deref() == Some(sig) {
                case = r;
                continue 'outer;
            }
        }
        return case;
    }
}

/// Reductions of a string, simplest candidates first: delete any contiguous chunk (longest chunks
/// first), then replace one char by a lower-ranked one. Rank = index in `alphabet`; chars outside the
/// alphabet rank above all of it (by code point), so every replacement strictly decreases the rank sum
/// and minimisation terminates.
pub fn string_reductions_in(s: &String, alphabet: &[char]) -> Vec<String> {
    let cs: Vec<char> = s.chars().collect();
    let n = cs.len();
    let mut out = Vec::new();
    for len in (1..=n).rev() {
        for i in 0..=(n - len) {
            let mut t: Vec<char> = cs[..i].to_vec();
            t.extend_from_slice(&cs[i + len..]);
            out.push(t.into_iter().collect());
        }
    }
    let rank = |c: char| alphabet.iter().position(|a| *a == c).unwrap_or(alphabet.len() + c as usize);
    for i in 0..n {
        let r = rank(cs[i]);
        for (j, a) in alphabet.iter().enumerate() {
            if j < r {
                let mut t = cs.clone();
                t[i] = *a;
                out.push(t.into_iter().collect());
            }
        }
    }
    out
}

pub fn string_reductions(s: &String) -> Vec<String> {
    string_reductions_in(s, &['a'])
}
