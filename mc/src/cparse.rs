//! Reference clause-level parsers for MySQL 8.0 and PostgreSQL query statements (SELECT with CTEs,
//! set operations, windows, locking; INSERT / REPLACE with upsert; UPDATE; DELETE), transcribed from
//! the statement synopses of the two manuals. Built on the reference lexer and the reference
//! expression parser; independent of sea-query. The parser accepts exactly the dialect's own clause
//! forms in the dialect's clause order, so a clause in the wrong position, a duplicated clause or a
//! construct of the other dialect is a parse error.

use crate::exprparse::{PExpr, Parser};
use crate::lex::{lex, Dialect, LexTok, Tok};

pub type R<T> = Result<T, String>;

#[derive(Clone, Debug, PartialEq, Default)]
pub struct QOrder {
    pub expr: Option<PExpr>,
    pub desc: Option<bool>,
    pub nulls_first: Option<bool>,
}

#[derive(Clone, Debug, PartialEq, Default)]
pub struct QWindow {
    pub base: Option<String>,
    pub partition: Vec<PExpr>,
    pub order: Vec<QOrder>,
    /// normalised frame clause text, e.g. "ROWS BETWEEN 1 PRECEDING AND CURRENT ROW"
    pub frame: Option<String>,
}

#[derive(Clone, Debug, PartialEq)]
pub enum QOver {
    Name(String),
    Spec(QWindow),
}

#[derive(Clone, Debug, PartialEq)]
pub struct QItem {
    pub expr: PExpr,
    pub over: Option<QOver>,
    pub alias: Option<String>,
}

#[derive(Clone, Debug, PartialEq)]
pub enum QFromK {
    Table(Vec<String>),
    Sub(Box<QSelect>),
    Func(PExpr),
}

#[derive(Clone, Debug, PartialEq)]
pub struct QHint {
    /// USE / IGNORE / FORCE
    pub kind: String,
    /// "" / JOIN / ORDER BY / GROUP BY
    pub scope: String,
    pub indexes: Vec<String>,
}

#[derive(Clone, Debug, PartialEq)]
pub struct QFrom {
    pub lateral: bool,
    pub kind: QFromK,
    pub alias: Option<String>,
    pub hints: Vec<QHint>,
    /// TABLESAMPLE method (args) [REPEATABLE (seed)]
    pub sample: Option<(String, Vec<PExpr>, Option<PExpr>)>,
}

#[derive(Clone, Debug, PartialEq)]
pub struct QJoin {
    /// INNER / LEFT / RIGHT / FULL / CROSS / "" (bare JOIN)
    pub kind: String,
    pub target: QFrom,
    pub on: Option<PExpr>,
}

#[derive(Clone, Debug, PartialEq)]
pub struct QLock {
    pub kind: String,
    pub of: Vec<Vec<String>>,
    pub wait: Option<String>,
}

#[derive(Clone, Debug, PartialEq)]
pub struct QCte {
    pub name: String,
    pub cols: Vec<String>,
    pub materialized: Option<bool>,
    pub body: Box<QStmt>,
    /// SEARCH {BREADTH|DEPTH} FIRST BY cols SET col
    pub search: Option<(String, Vec<String>, String)>,
    /// CYCLE cols SET col USING col
    pub cycle: Option<(Vec<String>, String, String)>,
}

#[derive(Clone, Debug, PartialEq, Default)]
pub struct QWith {
    pub recursive: bool,
    pub ctes: Vec<QCte>,
}

#[derive(Clone, Debug, PartialEq, Default)]
pub struct QSelect {
    pub with: Option<QWith>,
    /// a VALUES table constructor instead of a SELECT core
    pub values: Option<Vec<Vec<PExpr>>>,
    /// ALL / DISTINCT / DISTINCTROW / DISTINCT ON
    pub distinct: Option<String>,
    pub distinct_on: Vec<PExpr>,
    pub items: Vec<QItem>,
    pub from: Vec<QFrom>,
    pub joins: Vec<QJoin>,
    pub where_: Option<PExpr>,
    pub group: Vec<PExpr>,
    pub having: Option<PExpr>,
    pub windows: Vec<(String, QWindow)>,
    /// (UNION / UNION ALL / INTERSECT / EXCEPT ..., operand) in text order
    pub setops: Vec<(String, QSelect)>,
    pub order: Vec<QOrder>,
    pub limit: Option<PExpr>,
    pub offset: Option<PExpr>,
    pub lock: Option<QLock>,
}

#[derive(Clone, Debug, PartialEq)]
pub enum QSource {
    DefaultValues,
    Values(Vec<Vec<PExpr>>),
    Query(Box<QSelect>),
}

#[derive(Clone, Debug, PartialEq)]
pub enum QConflictAction {
    Nothing,
    Update { sets: Vec<(String, PExpr)>, where_: Option<PExpr> },
}

#[derive(Clone, Debug, PartialEq)]
pub struct QConflict {
    pub target: Vec<PExpr>,
    pub target_where: Option<PExpr>,
    pub action: QConflictAction,
}

#[derive(Clone, Debug, PartialEq)]
pub struct QInsert {
    pub with: Option<QWith>,
    pub replace: bool,
    pub ignore: bool,
    pub table: Vec<String>,
    pub cols: Option<Vec<String>>,
    pub source: QSource,
    pub on_conflict: Option<QConflict>,
    pub on_duplicate: Option<Vec<(String, PExpr)>>,
    pub returning: Option<Vec<QItem>>,
}

#[derive(Clone, Debug, PartialEq)]
pub struct QUpdate {
    pub with: Option<QWith>,
    /// MySQL: every table reference of the (multi-table) UPDATE in text order; PostgreSQL: the target table
    pub tables: Vec<QFrom>,
    /// MySQL: join kinds used between the table references ("," for the comma form)
    pub join_kinds: Vec<String>,
    /// MySQL: the ON conditions of the joins, in text order
    pub join_on: Vec<PExpr>,
    pub sets: Vec<(Vec<String>, PExpr)>,
    /// PostgreSQL FROM list
    pub from: Vec<QFrom>,
    pub where_: Option<PExpr>,
    pub order: Vec<QOrder>,
    pub limit: Option<PExpr>,
    pub returning: Option<Vec<QItem>>,
}

#[derive(Clone, Debug, PartialEq)]
pub struct QDelete {
    pub with: Option<QWith>,
    pub table: Vec<String>,
    pub where_: Option<PExpr>,
    pub order: Vec<QOrder>,
    pub limit: Option<PExpr>,
    pub returning: Option<Vec<QItem>>,
}

#[derive(Clone, Debug, PartialEq)]
pub enum QStmt {
    Select(QSelect),
    Insert(QInsert),
    Update(QUpdate),
    Delete(QDelete),
}

struct P<'a> {
    d: Dialect,
    t: &'a [LexTok],
    src: &'a str,
    i: usize,
}

const CLAUSE_WORDS: [&str; 40] = [
    "FROM", "WHERE", "GROUP", "HAVING", "WINDOW", "UNION", "INTERSECT", "EXCEPT", "ORDER", "LIMIT", "OFFSET", "FOR", "LOCK", "ON", "JOIN", "INNER", "LEFT", "RIGHT", "FULL", "CROSS", "AS", "RETURNING", "SET", "VALUES", "SELECT", "USE", "IGNORE", "FORCE", "TABLESAMPLE", "INTO", "USING", "NATURAL", "FETCH", "DO", "WITH", "SEARCH", "CYCLE", "OVER", "STRAIGHT_JOIN",
    "REPEATABLE",
];

impl<'a> P<'a> {
    fn peek(&self) -> Option<&Tok> {
        self.t.get(self.i).map(|t| &t.tok)
    }
    fn is_w(&self, w: &str) -> bool {
        matches!(self.peek(), Some(Tok::Word(x)) if x.eq_ignore_ascii_case(w))
    }
    fn is_w_at(&self, k: usize, w: &str) -> bool {
        matches!(self.t.get(self.i + k).map(|t| &t.tok), Some(Tok::Word(x)) if x.eq_ignore_ascii_case(w))
    }
    fn is_p(&self, p: &str) -> bool {
        matches!(self.peek(), Some(Tok::Punct(x)) if x == p)
    }
    fn is_p_at(&self, k: usize, p: &str) -> bool {
        matches!(self.t.get(self.i + k).map(|t| &t.tok), Some(Tok::Punct(x)) if x == p)
    }
    fn eat_w(&mut self, w: &str) -> bool {
        if self.is_w(w) {
            self.i += 1;
            true
        } else {
            false
        }
    }
    fn eat_ws(&mut self, ws: &[&str]) -> bool {
        for (k, w) in ws.iter().enumerate() {
            if !self.is_w_at(k, w) {
                return false;
            }
        }
        self.i += ws.len();
        true
    }
    fn eat_p(&mut self, p: &str) -> bool {
        if self.is_p(p) {
            self.i += 1;
            true
        } else {
            false
        }
    }
    fn exp_w(&mut self, w: &str) -> R<()> {
        if self.eat_w(w) {
            Ok(())
        } else {
            Err(self.err(&format!("expected {w}")))
        }
    }
    fn exp_p(&mut self, p: &str) -> R<()> {
        if self.eat_p(p) {
            Ok(())
        } else {
            Err(self.err(&format!("expected `{p}`")))
        }
    }
    fn err(&self, m: &str) -> String {
        let at = self.t.get(self.i).map(|t| t.start).unwrap_or(self.src.len());
        format!("{m} at byte {at} (token {}: {:?})", self.i, self.peek())
    }
    fn end(&self) -> bool {
        self.i >= self.t.len()
    }
    fn ident(&mut self) -> R<String> {
        match self.peek().cloned() {
            Some(Tok::Ident(s)) => {
                self.i += 1;
                Ok(s)
            }
            _ => Err(self.err("expected a quoted identifier")),
        }
    }
    /// a name that may be written without quotes (window names, index names, sampling methods)
    fn name(&mut self) -> R<String> {
        match self.peek().cloned() {
            Some(Tok::Ident(s)) => {
                self.i += 1;
                Ok(s)
            }
            Some(Tok::Word(w)) if !CLAUSE_WORDS.iter().any(|c| c.eq_ignore_ascii_case(&w)) => {
                self.i += 1;
                Ok(w)
            }
            _ => Err(self.err("expected a name")),
        }
    }
    fn qname(&mut self) -> R<Vec<String>> {
        let mut v = vec![self.ident()?];
        while self.is_p(".") {
            self.i += 1;
            v.push(self.ident()?);
        }
        Ok(v)
    }
    fn name_list(&mut self) -> R<Vec<String>> {
        self.exp_p("(")?;
        let mut v = vec![];
        loop {
            v.push(self.ident()?);
            if !self.eat_p(",") {
                break;
            }
        }
        self.exp_p(")")?;
        Ok(v)
    }
    fn expr(&mut self) -> R<PExpr> {
        let mut ep = Parser::new(self.d, self.t, self.src);
        ep.i = self.i;
        let e = ep.parse_expr(0)?;
        self.i = ep.i;
        Ok(e.strip())
    }
    fn expr_list(&mut self) -> R<Vec<PExpr>> {
        let mut v = vec![];
        loop {
            v.push(self.expr()?);
            if !self.eat_p(",") {
                break;
            }
        }
        Ok(v)
    }
    fn paren_expr_list(&mut self) -> R<Vec<PExpr>> {
        self.exp_p("(")?;
        let v = if self.is_p(")") { vec![] } else { self.expr_list()? };
        self.exp_p(")")?;
        Ok(v)
    }

    fn order_list(&mut self) -> R<Vec<QOrder>> {
        let mut v = vec![];
        loop {
            let expr = self.expr()?;
            let desc = if self.eat_w("ASC") {
                Some(false)
            } else if self.eat_w("DESC") {
                Some(true)
            } else {
                None
            };
            let mut nulls_first = None;
            if self.is_w("NULLS") {
                if self.d != Dialect::Postgres {
                    return Err(self.err("NULLS FIRST / LAST is not MySQL syntax"));
                }
                self.i += 1;
                if self.eat_w("FIRST") {
                    nulls_first = Some(true);
                } else if self.eat_w("LAST") {
                    nulls_first = Some(false);
                } else {
                    return Err(self.err("expected FIRST or LAST"));
                }
            }
            v.push(QOrder { expr: Some(expr), desc, nulls_first });
            if !self.eat_p(",") {
                break;
            }
        }
        Ok(v)
    }

    fn frame_bound(&mut self, out: &mut Vec<String>) -> R<()> {
        if self.eat_ws(&["UNBOUNDED", "PRECEDING"]) {
            out.push("UNBOUNDED PRECEDING".into());
        } else if self.eat_ws(&["UNBOUNDED", "FOLLOWING"]) {
            out.push("UNBOUNDED FOLLOWING".into());
        } else if self.eat_ws(&["CURRENT", "ROW"]) {
            out.push("CURRENT ROW".into());
        } else {
            match self.peek().cloned() {
                Some(Tok::Num(n)) => {
                    self.i += 1;
                    out.push(n);
                }
                Some(Tok::Param(p)) => {
                    self.i += 1;
                    out.push(format!("{:?}", Tok::Param(p)));
                }
                _ => return Err(self.err("expected a frame bound")),
            }
            if self.eat_w("PRECEDING") {
                out.push("PRECEDING".into());
            } else if self.eat_w("FOLLOWING") {
                out.push("FOLLOWING".into());
            } else {
                return Err(self.err("expected PRECEDING or FOLLOWING"));
            }
        }
        Ok(())
    }

    /// ( [base] [PARTITION BY ..] [ORDER BY ..] [frame] )
    fn window_spec(&mut self) -> R<QWindow> {
        self.exp_p("(")?;
        let mut w = QWindow::default();
        if !self.is_w("PARTITION") && !self.is_w("ORDER") && !self.is_w("ROWS") && !self.is_w("RANGE") && !self.is_w("GROUPS") && !self.is_p(")") {
            w.base = Some(self.name()?);
        }
        if self.eat_ws(&["PARTITION", "BY"]) {
            w.partition = self.expr_list()?;
        }
        if self.eat_ws(&["ORDER", "BY"]) {
            w.order = self.order_list()?;
        }
        let unit = if self.eat_w("ROWS") {
            Some("ROWS")
        } else if self.eat_w("RANGE") {
            Some("RANGE")
        } else if self.is_w("GROUPS") {
            if self.d == Dialect::Mysql {
                return Err(self.err("GROUPS frames are not MySQL syntax"));
            }
            self.i += 1;
            Some("GROUPS")
        } else {
            None
        };
        if let Some(u) = unit {
            let mut parts = vec![u.to_string()];
            if self.eat_w("BETWEEN") {
                parts.push("BETWEEN".into());
                self.frame_bound(&mut parts)?;
                self.exp_w("AND")?;
                parts.push("AND".into());
                self.frame_bound(&mut parts)?;
            } else {
                self.frame_bound(&mut parts)?;
            }
            w.frame = Some(parts.join(" "));
        }
        self.exp_p(")")?;
        Ok(w)
    }

    fn select_item(&mut self) -> R<QItem> {
        let expr = self.expr()?;
        let mut over = None;
        if self.eat_w("OVER") {
            if self.is_p("(") {
                over = Some(QOver::Spec(self.window_spec()?));
            } else {
                over = Some(QOver::Name(self.name()?));
            }
        }
        let mut alias = None;
        if self.eat_w("AS") {
            alias = Some(self.ident()?);
        } else if let Some(Tok::Ident(_)) = self.peek() {
            alias = Some(self.ident()?);
        }
        Ok(QItem { expr, over, alias })
    }
    fn item_list(&mut self) -> R<Vec<QItem>> {
        let mut v = vec![];
        loop {
            v.push(self.select_item()?);
            if !self.eat_p(",") {
                break;
            }
        }
        Ok(v)
    }

    fn index_hints(&mut self) -> R<Vec<QHint>> {
        let mut v = vec![];
        loop {
            let kind = if self.is_w("USE") || self.is_w("IGNORE") || self.is_w("FORCE") {
                if !(self.is_w_at(1, "INDEX") || self.is_w_at(1, "KEY")) {
                    break;
                }
                if self.d != Dialect::Mysql {
                    return Err(self.err("index hints are MySQL syntax"));
                }
                let Some(Tok::Word(w)) = self.peek().cloned() else { unreachable!() };
                self.i += 2;
                w.to_ascii_uppercase()
            } else {
                break;
            };
            let mut scope = String::new();
            if self.eat_w("FOR") {
                if self.eat_w("JOIN") {
                    scope = "JOIN".into();
                } else if self.eat_ws(&["ORDER", "BY"]) {
                    scope = "ORDER BY".into();
                } else if self.eat_ws(&["GROUP", "BY"]) {
                    scope = "GROUP BY".into();
                } else {
                    return Err(self.err("expected JOIN, ORDER BY or GROUP BY"));
                }
            }
            self.exp_p("(")?;
            let mut indexes = vec![];
            if !self.is_p(")") {
                loop {
                    indexes.push(self.name()?);
                    if !self.eat_p(",") {
                        break;
                    }
                }
            } else if kind != "USE" {
                return Err(self.err("an empty index list is only allowed with USE INDEX"));
            }
            self.exp_p(")")?;
            v.push(QHint { kind, scope, indexes });
            // several hints are separated by blanks (commas are accepted by the server as well)
            self.eat_p(",");
        }
        Ok(v)
    }

    fn from_item(&mut self) -> R<QFrom> {
        let lateral = self.eat_w("LATERAL");
        let kind = if self.is_p("(") {
            self.i += 1;
            let q = self.query()?;
            self.exp_p(")")?;
            QFromK::Sub(Box::new(q))
        } else if let Some(Tok::Ident(_)) = self.peek() {
            QFromK::Table(self.qname()?)
        } else if matches!(self.peek(), Some(Tok::Word(_))) && self.is_p_at(1, "(") {
            QFromK::Func(self.expr()?)
        } else {
            return Err(self.err("expected a table reference"));
        };
        let mut alias = None;
        if self.eat_w("AS") {
            alias = Some(self.ident()?);
        } else if let Some(Tok::Ident(_)) = self.peek() {
            alias = Some(self.ident()?);
        }
        if matches!(kind, QFromK::Sub(_)) && alias.is_none() && self.d == Dialect::Mysql {
            return Err(self.err("every derived table must have its own alias"));
        }
        let hints = self.index_hints()?;
        if !hints.is_empty() && !matches!(kind, QFromK::Table(_)) {
            return Err(self.err("index hints need a base table"));
        }
        let mut sample = None;
        if self.is_w("TABLESAMPLE") {
            if self.d != Dialect::Postgres {
                return Err(self.err("TABLESAMPLE is PostgreSQL syntax"));
            }
            if !matches!(kind, QFromK::Table(_)) {
                return Err(self.err("TABLESAMPLE needs a base table"));
            }
            self.i += 1;
            let method = self.name()?.to_ascii_uppercase();
            let args = self.paren_expr_list()?;
            let mut seed = None;
            if self.eat_w("REPEATABLE") {
                self.exp_p("(")?;
                seed = Some(self.expr()?);
                self.exp_p(")")?;
            }
            sample = Some((method, args, seed));
        }
        Ok(QFrom { lateral, kind, alias, hints, sample })
    }

    fn join_kind(&mut self) -> Option<String> {
        let save = self.i;
        let k = if self.eat_w("INNER") {
            "INNER"
        } else if self.eat_w("CROSS") {
            "CROSS"
        } else if self.eat_w("LEFT") {
            self.eat_w("OUTER");
            "LEFT"
        } else if self.eat_w("RIGHT") {
            self.eat_w("OUTER");
            "RIGHT"
        } else if self.is_w("FULL") && (self.is_w_at(1, "JOIN") || self.is_w_at(1, "OUTER")) {
            self.i += 1;
            self.eat_w("OUTER");
            "FULL"
        } else {
            ""
        };
        if self.eat_w("JOIN") {
            Some(k.to_string())
        } else {
            self.i = save;
            None
        }
    }

    fn joins(&mut self) -> R<Vec<QJoin>> {
        let mut v = vec![];
        while let Some(kind) = self.join_kind() {
            if kind == "FULL" && self.d == Dialect::Mysql {
                return Err(self.err("FULL OUTER JOIN is not MySQL syntax"));
            }
            let target = self.from_item()?;
            let mut on = None;
            if self.eat_w("ON") {
                on = Some(self.expr()?);
            }
            match (self.d, kind.as_str(), on.is_some()) {
                (Dialect::Postgres, "CROSS", true) => return Err(self.err("CROSS JOIN takes no ON clause in PostgreSQL")),
                (Dialect::Postgres, k, false) if k != "CROSS" => return Err(self.err("this join needs an ON clause in PostgreSQL")),
                (Dialect::Mysql, "LEFT", false) | (Dialect::Mysql, "RIGHT", false) => return Err(self.err("outer joins need an ON clause in MySQL")),
                _ => {}
            }
            v.push(QJoin { kind, target, on });
        }
        Ok(v)
    }

    fn values_rows(&mut self, table_constructor: bool) -> R<Vec<Vec<PExpr>>> {
        let mut rows = vec![];
        loop {
            if self.is_w("ROW") && self.is_p_at(1, "(") {
                if self.d != Dialect::Mysql {
                    return Err(self.err("VALUES ROW(..) is MySQL syntax"));
                }
                self.i += 1;
            } else if table_constructor && self.d == Dialect::Mysql {
                return Err(self.err("a MySQL VALUES table constructor needs ROW(..)"));
            }
            rows.push(self.paren_expr_list()?);
            if !self.eat_p(",") {
                break;
            }
        }
        Ok(rows)
    }

    fn select_core(&mut self) -> R<QSelect> {
        let mut q = QSelect::default();
        if self.eat_w("VALUES") {
            q.values = Some(self.values_rows(true)?);
            return Ok(q);
        }
        self.exp_w("SELECT")?;
        if self.eat_w("ALL") {
            q.distinct = Some("ALL".into());
        } else if self.eat_w("DISTINCT") {
            if self.is_w("ON") && self.is_p_at(1, "(") {
                if self.d != Dialect::Postgres {
                    return Err(self.err("DISTINCT ON is PostgreSQL syntax"));
                }
                self.i += 1;
                q.distinct = Some("DISTINCT ON".into());
                q.distinct_on = self.paren_expr_list()?;
            } else {
                q.distinct = Some("DISTINCT".into());
            }
        } else if self.is_w("DISTINCTROW") {
            if self.d != Dialect::Mysql {
                return Err(self.err("DISTINCTROW is MySQL syntax"));
            }
            self.i += 1;
            q.distinct = Some("DISTINCTROW".into());
        }
        let no_items = self.end() || self.is_w("FROM") || self.is_p(")");
        if no_items {
            if self.d == Dialect::Mysql {
                return Err(self.err("a MySQL select list cannot be empty"));
            }
        } else {
            q.items = self.item_list()?;
        }
        if self.eat_w("FROM") {
            loop {
                q.from.push(self.from_item()?);
                if !self.eat_p(",") {
                    break;
                }
            }
            q.joins = self.joins()?;
        }
        if self.eat_w("WHERE") {
            q.where_ = Some(self.expr()?);
        }
        if self.eat_ws(&["GROUP", "BY"]) {
            q.group = self.expr_list()?;
        }
        if self.eat_w("HAVING") {
            q.having = Some(self.expr()?);
        }
        if self.eat_w("WINDOW") {
            loop {
                let n = self.name()?;
                self.exp_w("AS")?;
                let w = self.window_spec()?;
                q.windows.push((n, w));
                if !self.eat_p(",") {
                    break;
                }
            }
        }
        Ok(q)
    }

    fn lock_clause(&mut self) -> R<Option<QLock>> {
        if self.eat_ws(&["LOCK", "IN", "SHARE", "MODE"]) {
            if self.d != Dialect::Mysql {
                return Err(self.err("LOCK IN SHARE MODE is MySQL syntax"));
            }
            return Ok(Some(QLock { kind: "SHARE".into(), of: vec![], wait: None }));
        }
        if !self.is_w("FOR") {
            return Ok(None);
        }
        self.i += 1;
        let kind = if self.eat_w("UPDATE") {
            "UPDATE"
        } else if self.eat_w("SHARE") {
            "SHARE"
        } else if self.is_w("NO") || self.is_w("KEY") {
            if self.d != Dialect::Postgres {
                return Err(self.err("FOR NO KEY UPDATE / FOR KEY SHARE are PostgreSQL syntax"));
            }
            if self.eat_ws(&["NO", "KEY", "UPDATE"]) {
                "NO KEY UPDATE"
            } else if self.eat_ws(&["KEY", "SHARE"]) {
                "KEY SHARE"
            } else {
                return Err(self.err("unknown lock strength"));
            }
        } else {
            return Err(self.err("unknown lock strength"));
        };
        let mut of = vec![];
        if self.eat_w("OF") {
            loop {
                of.push(self.qname()?);
                if !self.eat_p(",") {
                    break;
                }
            }
        }
        let wait = if self.eat_w("NOWAIT") {
            Some("NOWAIT".to_string())
        } else if self.eat_ws(&["SKIP", "LOCKED"]) {
            Some("SKIP LOCKED".to_string())
        } else {
            None
        };
        Ok(Some(QLock { kind: kind.into(), of, wait }))
    }

    /// operand of a set operation: a parenthesised query or a bare SELECT / VALUES core
    fn operand(&mut self) -> R<QSelect> {
        if self.is_p("(") {
            self.i += 1;
            let q = self.query()?;
            self.exp_p(")")?;
            Ok(q)
        } else {
            self.select_core()
        }
    }

    fn with_clause(&mut self) -> R<Option<QWith>> {
        if !self.is_w("WITH") {
            return Ok(None);
        }
        self.i += 1;
        let mut w = QWith { recursive: self.eat_w("RECURSIVE"), ctes: vec![] };
        loop {
            let name = self.ident()?;
            let cols = if self.is_p("(") { self.name_list()? } else { vec![] };
            self.exp_w("AS")?;
            let mut materialized = None;
            if self.is_w("MATERIALIZED") || (self.is_w("NOT") && self.is_w_at(1, "MATERIALIZED")) {
                if self.d != Dialect::Postgres {
                    return Err(self.err("[NOT] MATERIALIZED is PostgreSQL syntax"));
                }
                let not = self.eat_w("NOT");
                self.i += 1;
                materialized = Some(!not);
            }
            self.exp_p("(")?;
            let body = self.statement_inner()?;
            if self.d == Dialect::Mysql && !matches!(body, QStmt::Select(_)) {
                return Err(self.err("a MySQL common table expression must be a query"));
            }
            self.exp_p(")")?;
            let mut search = None;
            let mut cycle = None;
            if self.is_w("SEARCH") {
                if self.d != Dialect::Postgres {
                    return Err(self.err("SEARCH is PostgreSQL syntax"));
                }
                self.i += 1;
                let order = if self.eat_w("BREADTH") {
                    "BREADTH"
                } else if self.eat_w("DEPTH") {
                    "DEPTH"
                } else {
                    return Err(self.err("expected BREADTH or DEPTH"));
                };
                self.exp_w("FIRST")?;
                self.exp_w("BY")?;
                let mut cols = vec![];
                loop {
                    cols.push(self.ident()?);
                    if !self.eat_p(",") {
                        break;
                    }
                }
                self.exp_w("SET")?;
                let set = self.ident()?;
                search = Some((order.to_string(), cols, set));
            }
            if self.is_w("CYCLE") {
                if self.d != Dialect::Postgres {
                    return Err(self.err("CYCLE is PostgreSQL syntax"));
                }
                self.i += 1;
                let mut cols = vec![];
                loop {
                    cols.push(self.ident()?);
                    if !self.eat_p(",") {
                        break;
                    }
                }
                self.exp_w("SET")?;
                let set = self.ident()?;
                self.exp_w("USING")?;
                let using = self.ident()?;
                cycle = Some((cols, set, using));
            }
            w.ctes.push(QCte { name, cols, materialized, body: Box::new(body), search, cycle });
            if !self.eat_p(",") {
                break;
            }
        }
        Ok(Some(w))
    }

    /// [WITH ..] operand { setop operand } [ORDER BY] [LIMIT / OFFSET] [locking]
    fn query(&mut self) -> R<QSelect> {
        let with = self.with_clause()?;
        let mut q = self.query_body()?;
        if with.is_some() {
            if q.with.is_some() {
                return Err(self.err("two WITH clauses on one query"));
            }
            q.with = with;
        }
        Ok(q)
    }

    fn query_body(&mut self) -> R<QSelect> {
        let first_paren = self.is_p("(");
        let mut q = self.operand()?;
        let mut n_ops = 0;
        loop {
            let op = if self.eat_w("UNION") {
                "UNION"
            } else if self.eat_w("INTERSECT") {
                "INTERSECT"
            } else if self.eat_w("EXCEPT") {
                "EXCEPT"
            } else {
                break;
            };
            let mut name = op.to_string();
            if self.eat_w("ALL") {
                name.push_str(" ALL");
            } else {
                self.eat_w("DISTINCT");
            }
            if n_ops == 0 && first_paren && (!q.order.is_empty() || q.limit.is_some() || q.offset.is_some() || q.lock.is_some() || !q.setops.is_empty()) {
                // keep a parenthesised first operand with its own trailing clauses as a nested operand
                let inner = std::mem::take(&mut q);
                q.setops.push(("FIRST".into(), inner));
            }
            let rhs = self.operand()?;
            q.setops.push((name, rhs));
            n_ops += 1;
        }
        let own_tail = n_ops == 0 && first_paren;
        if self.is_w("ORDER") && self.is_w_at(1, "BY") {
            if own_tail && !q.order.is_empty() {
                return Err(self.err("ORDER BY given twice"));
            }
            self.i += 2;
            q.order = self.order_list()?;
        }
        let mut seen_limit = own_tail && q.limit.is_some();
        let mut seen_offset = own_tail && q.offset.is_some();
        loop {
            if self.is_w("LIMIT") {
                if seen_limit {
                    return Err(self.err("LIMIT given twice"));
                }
                if seen_offset && self.d == Dialect::Mysql {
                    return Err(self.err("MySQL: LIMIT must precede OFFSET"));
                }
                self.i += 1;
                seen_limit = true;
                let a = self.expr()?;
                if self.d == Dialect::Mysql && self.eat_p(",") {
                    let b = self.expr()?;
                    q.offset = Some(a);
                    q.limit = Some(b);
                    seen_offset = true;
                } else {
                    q.limit = Some(a);
                }
            } else if self.is_w("OFFSET") {
                if seen_offset {
                    return Err(self.err("OFFSET given twice"));
                }
                if self.d == Dialect::Mysql && !seen_limit {
                    return Err(self.err("MySQL: OFFSET needs a preceding LIMIT"));
                }
                self.i += 1;
                seen_offset = true;
                q.offset = Some(self.expr()?);
                if self.d == Dialect::Postgres {
                    let _ = self.eat_w("ROWS") || self.eat_w("ROW");
                }
            } else {
                break;
            }
        }
        if let Some(l) = self.lock_clause()? {
            if own_tail && q.lock.is_some() {
                return Err(self.err("locking clause given twice"));
            }
            q.lock = Some(l);
        }
        Ok(q)
    }

    fn assignments(&mut self) -> R<Vec<(Vec<String>, PExpr)>> {
        let mut v = vec![];
        loop {
            let c = self.qname()?;
            self.exp_p("=")?;
            let e = self.expr()?;
            v.push((c, e));
            if !self.eat_p(",") {
                break;
            }
        }
        Ok(v)
    }

    fn returning(&mut self) -> R<Option<Vec<QItem>>> {
        if self.is_w("RETURNING") {
            if self.d != Dialect::Postgres {
                return Err(self.err("RETURNING is not MySQL syntax"));
            }
            self.i += 1;
            return Ok(Some(self.item_list()?));
        }
        Ok(None)
    }

    fn insert(&mut self, with: Option<QWith>) -> R<QInsert> {
        let replace = if self.eat_w("REPLACE") {
            if self.d != Dialect::Mysql {
                return Err(self.err("REPLACE is MySQL syntax"));
            }
            true
        } else {
            self.exp_w("INSERT")?;
            false
        };
        let mut ignore = false;
        if self.is_w("IGNORE") {
            if self.d != Dialect::Mysql || replace {
                return Err(self.err("INSERT IGNORE is MySQL syntax"));
            }
            self.i += 1;
            ignore = true;
        }
        self.exp_w("INTO")?;
        let table = self.qname()?;
        let mut cols = None;
        if self.is_p("(") && !self.is_w_at(1, "SELECT") && !self.is_w_at(1, "WITH") {
            self.i += 1;
            let mut v = vec![];
            if !self.is_p(")") {
                loop {
                    v.push(self.ident()?);
                    if !self.eat_p(",") {
                        break;
                    }
                }
            } else if self.d == Dialect::Postgres {
                return Err(self.err("an empty column list is not PostgreSQL syntax"));
            }
            self.exp_p(")")?;
            cols = Some(v);
        }
        let source = if self.eat_ws(&["DEFAULT", "VALUES"]) {
            if self.d != Dialect::Postgres {
                return Err(self.err("DEFAULT VALUES is not MySQL syntax"));
            }
            QSource::DefaultValues
        } else if self.eat_w("VALUES") {
            let rows = self.values_rows(false)?;
            if self.d == Dialect::Postgres && rows.iter().any(|r| r.is_empty()) {
                return Err(self.err("an empty VALUES row is not PostgreSQL syntax"));
            }
            QSource::Values(rows)
        } else {
            QSource::Query(Box::new(self.query()?))
        };
        let mut on_conflict = None;
        let mut on_duplicate = None;
        if self.eat_ws(&["ON", "CONFLICT"]) {
            if self.d != Dialect::Postgres {
                return Err(self.err("ON CONFLICT is not MySQL syntax"));
            }
            let mut target = vec![];
            let mut target_where = None;
            if self.is_p("(") {
                target = self.paren_expr_list()?;
                if target.is_empty() {
                    return Err(self.err("empty conflict target"));
                }
                if self.eat_w("WHERE") {
                    target_where = Some(self.expr()?);
                }
            }
            self.exp_w("DO")?;
            let action = if self.eat_w("NOTHING") {
                QConflictAction::Nothing
            } else {
                self.exp_w("UPDATE")?;
                self.exp_w("SET")?;
                if target.is_empty() {
                    return Err(self.err("ON CONFLICT DO UPDATE needs a conflict target"));
                }
                let sets = self.assignments()?.into_iter().map(|(c, e)| (c.join("."), e)).collect();
                let where_ = if self.eat_w("WHERE") { Some(self.expr()?) } else { None };
                QConflictAction::Update { sets, where_ }
            };
            on_conflict = Some(QConflict { target, target_where, action });
        } else if self.eat_ws(&["ON", "DUPLICATE", "KEY", "UPDATE"]) {
            if self.d != Dialect::Mysql {
                return Err(self.err("ON DUPLICATE KEY UPDATE is MySQL syntax"));
            }
            on_duplicate = Some(self.assignments()?.into_iter().map(|(c, e)| (c.join("."), e)).collect());
        }
        let returning = self.returning()?;
        Ok(QInsert { with, replace, ignore, table, cols, source, on_conflict, on_duplicate, returning })
    }

    fn update(&mut self, with: Option<QWith>) -> R<QUpdate> {
        self.exp_w("UPDATE")?;
        let mut u = QUpdate { with, tables: vec![], join_kinds: vec![], join_on: vec![], sets: vec![], from: vec![], where_: None, order: vec![], limit: None, returning: None };
        u.tables.push(self.from_item()?);
        if self.d == Dialect::Mysql {
            loop {
                if self.eat_p(",") {
                    u.tables.push(self.from_item()?);
                    u.join_kinds.push(",".into());
                } else if let Some(k) = self.join_kind() {
                    if k == "FULL" {
                        return Err(self.err("FULL OUTER JOIN is not MySQL syntax"));
                    }
                    u.tables.push(self.from_item()?);
                    if self.eat_w("ON") {
                        u.join_on.push(self.expr()?);
                    } else if k == "LEFT" || k == "RIGHT" {
                        return Err(self.err("outer joins need an ON clause in MySQL"));
                    }
                    u.join_kinds.push(k);
                } else {
                    break;
                }
            }
        }
        self.exp_w("SET")?;
        u.sets = self.assignments()?;
        if self.is_w("FROM") {
            if self.d != Dialect::Postgres {
                return Err(self.err("UPDATE .. FROM is not MySQL syntax"));
            }
            self.i += 1;
            loop {
                u.from.push(self.from_item()?);
                if !self.eat_p(",") {
                    break;
                }
            }
            let j = self.joins()?;
            if !j.is_empty() {
                return Err(self.err("joins in UPDATE .. FROM are outside this reference grammar"));
            }
        }
        if self.eat_w("WHERE") {
            u.where_ = Some(self.expr()?);
        }
        if self.d == Dialect::Mysql {
            if self.is_w("ORDER") || self.is_w("LIMIT") {
                if u.tables.len() > 1 {
                    return Err(self.err("a multi-table UPDATE takes no ORDER BY / LIMIT in MySQL"));
                }
                if self.eat_ws(&["ORDER", "BY"]) {
                    u.order = self.order_list()?;
                }
                if self.eat_w("LIMIT") {
                    u.limit = Some(self.expr()?);
                }
            }
        }
        u.returning = self.returning()?;
        Ok(u)
    }

    fn delete(&mut self, with: Option<QWith>) -> R<QDelete> {
        self.exp_w("DELETE")?;
        self.exp_w("FROM")?;
        let mut q = QDelete { with, table: self.qname()?, where_: None, order: vec![], limit: None, returning: None };
        if self.eat_w("WHERE") {
            q.where_ = Some(self.expr()?);
        }
        if self.d == Dialect::Mysql {
            if self.eat_ws(&["ORDER", "BY"]) {
                q.order = self.order_list()?;
            }
            if self.eat_w("LIMIT") {
                q.limit = Some(self.expr()?);
            }
        }
        q.returning = self.returning()?;
        Ok(q)
    }

    fn statement_inner(&mut self) -> R<QStmt> {
        let save = self.i;
        let with = self.with_clause()?;
        if self.is_w("INSERT") || self.is_w("REPLACE") {
            if with.is_some() && self.d == Dialect::Mysql {
                return Err(self.err("MySQL: WITH cannot precede INSERT (it goes in front of the SELECT)"));
            }
            return Ok(QStmt::Insert(self.insert(with)?));
        }
        if self.is_w("UPDATE") {
            return Ok(QStmt::Update(self.update(with)?));
        }
        if self.is_w("DELETE") {
            return Ok(QStmt::Delete(self.delete(with)?));
        }
        self.i = save;
        Ok(QStmt::Select(self.query()?))
    }
}

pub fn parse_statement(d: Dialect, sql: &str) -> R<QStmt> {
    let toks = lex(d, sql).map_err(|e| format!("lex error at byte {}: {}", e.at, e.msg))?;
    let mut p = P { d, t: &toks, src: sql, i: 0 };
    let s = p.statement_inner()?;
    if !p.end() {
        return Err(p.err("trailing tokens after the statement"));
    }
    Ok(s)
}

// ---------------------------------------------------------------------------------------------
// normal form: what two renderings of the same statement must agree on

fn map_children(e: PExpr, f: &mut dyn FnMut(PExpr) -> R<PExpr>) -> R<PExpr> {
    let b = |x: Box<PExpr>, f: &mut dyn FnMut(PExpr) -> R<PExpr>| -> R<Box<PExpr>> { Ok(Box::new(f(*x)?)) };
    Ok(match e {
        PExpr::Func(n, args) => PExpr::Func(n, args.into_iter().map(|(d, x)| Ok((d, f(x)?))).collect::<R<Vec<_>>>()?),
        PExpr::Cast(x, t) => PExpr::Cast(b(x, f)?, t),
        PExpr::Un(o, x) => PExpr::Un(o, b(x, f)?),
        PExpr::Bin(o, l, r) => {
            let l = b(l, f)?;
            let r = b(r, f)?;
            PExpr::Bin(o, l, r)
        }
        PExpr::Between(n, x, lo, hi) => {
            let x = b(x, f)?;
            let lo = b(lo, f)?;
            let hi = b(hi, f)?;
            PExpr::Between(n, x, lo, hi)
        }
        PExpr::Like(o, x, p, e) => {
            let x = b(x, f)?;
            let p = b(p, f)?;
            let e = match e {
                Some(e) => Some(b(e, f)?),
                None => None,
            };
            PExpr::Like(o, x, p, e)
        }
        PExpr::In(n, x, list) => {
            let x = b(x, f)?;
            PExpr::In(n, x, list.into_iter().map(|x| f(x)).collect::<R<Vec<_>>>()?)
        }
        PExpr::InSub(n, x, s) => PExpr::InSub(n, b(x, f)?, s),
        PExpr::Is(n, x, y) => {
            let x = b(x, f)?;
            let y = b(y, f)?;
            PExpr::Is(n, x, y)
        }
        PExpr::Tuple(v) => PExpr::Tuple(v.into_iter().map(|x| f(x)).collect::<R<Vec<_>>>()?),
        PExpr::Array(v) => PExpr::Array(v.into_iter().map(|x| f(x)).collect::<R<Vec<_>>>()?),
        PExpr::Case(whens, els) => {
            let whens = whens.into_iter().map(|(c, r)| Ok((f(c)?, f(r)?))).collect::<R<Vec<_>>>()?;
            let els = match els {
                Some(e) => Some(b(e, f)?),
                None => None,
            };
            PExpr::Case(whens, els)
        }
        PExpr::Paren(x) => PExpr::Paren(b(x, f)?),
        leaf => leaf,
    })
}

fn canon_sub(d: Dialect, text: &str) -> R<String> {
    let st = parse_statement(d, text).map_err(|e| format!("in subquery {text:?}: {e}"))?;
    Ok(format!("{:?}", normalise(d, st)?))
}

pub fn norm_expr(d: Dialect, e: PExpr) -> R<PExpr> {
    let e = map_children(e, &mut |x| norm_expr(d, x))?;
    Ok(match e {
        PExpr::Paren(x) => *x,
        PExpr::Bin(op, l, r) if op == "AND" || op == "OR" => {
            // AND / OR are associative: an n-ary list in text order
            let mut items = vec![];
            for side in [*l, *r] {
                match side {
                    PExpr::Func(n, args) if n == format!("#{op}") => items.extend(args),
                    other => items.push((false, other)),
                }
            }
            PExpr::Func(format!("#{op}"), items)
        }
        PExpr::Bin(op, l, r) if op == "!=" => PExpr::Bin("<>".into(), l, r),
        // a comparison of two integer literals is a boolean constant
        PExpr::Bin(op, l, r) if op == "=" && matches!((&*l, &*r), (PExpr::Num(_), PExpr::Num(_))) => {
            let (PExpr::Num(x), PExpr::Num(y)) = (&*l, &*r) else { unreachable!() };
            PExpr::Kw(if x == y { "TRUE".into() } else { "FALSE".into() })
        }
        PExpr::Sub(p, text) => PExpr::Sub(p, canon_sub(d, &text)?),
        PExpr::InSub(n, x, text) => PExpr::InSub(n, x, canon_sub(d, &text)?),
        // IFNULL(a, b) and COALESCE(a, b) are the same function in MySQL
        PExpr::Func(n, args) if d == Dialect::Mysql && n == "IFNULL" && args.len() == 2 => PExpr::Func("COALESCE".into(), args),
        other => other,
    })
}

fn norm_opt(d: Dialect, e: Option<PExpr>) -> R<Option<PExpr>> {
    match e {
        Some(e) => Ok(Some(norm_expr(d, e)?)),
        None => Ok(None),
    }
}
/// a search condition: `TRUE` conjuncts say nothing (`WHERE TRUE` is no filter, `x AND TRUE` is `x`)
fn norm_pred(d: Dialect, e: Option<PExpr>) -> R<Option<PExpr>> {
    Ok(drop_true(norm_opt(d, e)?))
}
fn drop_true(e: Option<PExpr>) -> Option<PExpr> {
    let is_true = |e: &PExpr| matches!(e, PExpr::Kw(k) if k == "TRUE");
    match e {
        Some(e) if is_true(&e) => None,
        Some(PExpr::Func(n, args)) if n == "#AND" => {
            let mut kept: Vec<(bool, PExpr)> = args.into_iter().filter(|(_, x)| !is_true(x)).collect();
            match kept.len() {
                0 => None,
                1 => Some(kept.pop().unwrap().1),
                _ => Some(PExpr::Func(n, kept)),
            }
        }
        other => other,
    }
}
fn norm_list(d: Dialect, v: Vec<PExpr>) -> R<Vec<PExpr>> {
    v.into_iter().map(|e| norm_expr(d, e)).collect()
}

fn norm_order(d: Dialect, v: Vec<QOrder>) -> R<Vec<QOrder>> {
    let mut v: Vec<QOrder> = v
        .into_iter()
        .map(|o| Ok(QOrder { expr: norm_opt(d, o.expr)?, desc: Some(o.desc.unwrap_or(false)), nulls_first: o.nulls_first }))
        .collect::<R<Vec<_>>>()?;
    if d == Dialect::Mysql {
        // MySQL's emulation of NULLS FIRST / LAST: `x IS [NOT] NULL {ASC|DESC}, x {ASC|DESC}`; for a FIELD-style
        // ordering (`CASE WHEN x = ..`) the second item is the CASE expression over the same x
        let mut out: Vec<QOrder> = vec![];
        let mut i = 0;
        while i < v.len() {
            if i + 1 < v.len() {
                if let Some(PExpr::Is(neg, x, n)) = &v[i].expr {
                    if matches!(&**n, PExpr::Kw(k) if k == "NULL") && v[i + 1].expr.as_ref() == Some(&**x) {
                        let is_null_desc = v[i].desc == Some(true);
                        let nulls_first = if *neg { !is_null_desc } else { is_null_desc };
                        out.push(QOrder { expr: v[i + 1].expr.clone(), desc: v[i + 1].desc, nulls_first: Some(nulls_first) });
                        i += 2;
                        continue;
                    }
                }
            }
            out.push(v[i].clone());
            i += 1;
        }
        v = out;
    }
    Ok(v)
}

fn norm_window(d: Dialect, w: QWindow) -> R<QWindow> {
    Ok(QWindow { base: w.base, partition: norm_list(d, w.partition)?, order: norm_order(d, w.order)?, frame: w.frame })
}

fn norm_items(d: Dialect, v: Vec<QItem>) -> R<Vec<QItem>> {
    v.into_iter()
        .map(|it| {
            Ok(QItem {
                expr: norm_expr(d, it.expr)?,
                over: match it.over {
                    Some(QOver::Spec(w)) => Some(QOver::Spec(norm_window(d, w)?)),
                    other => other,
                },
                alias: it.alias,
            })
        })
        .collect()
}

fn norm_from(d: Dialect, f: QFrom) -> R<QFrom> {
    Ok(QFrom {
        lateral: f.lateral,
        kind: match f.kind {
            QFromK::Sub(q) => QFromK::Sub(Box::new(norm_select(d, *q)?)),
            QFromK::Func(e) => QFromK::Func(norm_expr(d, e)?),
            t => t,
        },
        alias: f.alias,
        hints: f.hints,
        sample: match f.sample {
            Some((m, args, seed)) => Some((m, norm_list(d, args)?, norm_opt(d, seed)?)),
            None => None,
        },
    })
}

fn norm_with(d: Dialect, w: Option<QWith>) -> R<Option<QWith>> {
    let Some(w) = w else { return Ok(None) };
    let mut ctes = vec![];
    for c in w.ctes {
        ctes.push(QCte { name: c.name, cols: c.cols, materialized: c.materialized, body: Box::new(normalise(d, *c.body)?), search: c.search, cycle: c.cycle });
    }
    Ok(Some(QWith { recursive: w.recursive, ctes }))
}

pub fn norm_select(d: Dialect, q: QSelect) -> R<QSelect> {
    Ok(QSelect {
        with: norm_with(d, q.with)?,
        values: match q.values {
            Some(rows) => Some(rows.into_iter().map(|r| norm_list(d, r)).collect::<R<Vec<_>>>()?),
            None => None,
        },
        distinct: q.distinct,
        distinct_on: norm_list(d, q.distinct_on)?,
        items: norm_items(d, q.items)?,
        from: q.from.into_iter().map(|f| norm_from(d, f)).collect::<R<Vec<_>>>()?,
        joins: q
            .joins
            .into_iter()
            .map(|j| {
                let kind = if j.kind.is_empty() { "INNER".to_string() } else { j.kind };
                let mut on = norm_pred(d, j.on)?;
                // MySQL: `[INNER | CROSS] JOIN t ON TRUE` and the same join without ON say the same
                if on.is_none() && !(d == Dialect::Mysql && (kind == "INNER" || kind == "CROSS")) && kind != "CROSS" {
                    // elsewhere an ON clause is required: keep the constant
                    on = Some(PExpr::Kw("TRUE".into()));
                }
                Ok(QJoin { kind, target: norm_from(d, j.target)?, on })
            })
            .collect::<R<Vec<_>>>()?,
        where_: norm_pred(d, q.where_)?,
        group: norm_list(d, q.group)?,
        having: norm_pred(d, q.having)?,
        windows: q.windows.into_iter().map(|(n, w)| Ok((n, norm_window(d, w)?))).collect::<R<Vec<_>>>()?,
        setops: q.setops.into_iter().map(|(o, s)| Ok((o, norm_select(d, s)?))).collect::<R<Vec<_>>>()?,
        order: norm_order(d, q.order)?,
        limit: norm_opt(d, q.limit)?,
        offset: norm_opt(d, q.offset)?,
        lock: q.lock,
    })
}

fn conj(mut parts: Vec<PExpr>) -> Option<PExpr> {
    match parts.len() {
        0 => None,
        1 => parts.pop(),
        _ => {
            let mut items = vec![];
            for p in parts {
                match p {
                    PExpr::Func(n, args) if n == "#AND" => items.extend(args),
                    other => items.push((false, other)),
                }
            }
            Some(PExpr::Func("#AND".into(), items))
        }
    }
}

pub fn normalise(d: Dialect, s: QStmt) -> R<QStmt> {
    let sets = |v: Vec<(String, PExpr)>| v.into_iter().map(|(c, e)| Ok((c, norm_expr(d, e)?))).collect::<R<Vec<_>>>();
    Ok(match s {
        QStmt::Select(q) => QStmt::Select(norm_select(d, q)?),
        QStmt::Insert(i) => {
            let no_cols = i.cols.as_ref().map_or(true, |c| c.is_empty());
            QStmt::Insert(QInsert {
            with: norm_with(d, i.with)?,
            replace: i.replace,
            ignore: i.ignore,
            table: i.table,
            cols: i.cols,
            source: match i.source {
                QSource::DefaultValues => QSource::DefaultValues,
                // one all-default row: `VALUES ()` (MySQL), `VALUES (DEFAULT)` (PostgreSQL: missing columns take their defaults)
                QSource::Values(rows) if no_cols && rows.len() == 1 && (rows[0].is_empty() || rows[0] == vec![PExpr::Kw("DEFAULT".into())]) => QSource::DefaultValues,
                QSource::Values(rows) => QSource::Values(rows.into_iter().map(|r| norm_list(d, r)).collect::<R<Vec<_>>>()?),
                QSource::Query(q) => QSource::Query(Box::new(norm_select(d, *q)?)),
            },
            on_conflict: match i.on_conflict {
                Some(c) => Some(QConflict {
                    target: norm_list(d, c.target)?,
                    target_where: norm_opt(d, c.target_where)?,
                    action: match c.action {
                        QConflictAction::Nothing => QConflictAction::Nothing,
                        QConflictAction::Update { sets: s, where_ } => QConflictAction::Update { sets: sets(s)?, where_: norm_opt(d, where_)? },
                    },
                }),
                None => None,
            },
            on_duplicate: match i.on_duplicate {
                Some(s) => Some(sets(s)?),
                None => None,
            },
            returning: match i.returning {
                Some(r) => Some(norm_items(d, r)?),
                None => None,
            },
        })
        }
        QStmt::Update(u) => {
            let mut where_ = norm_pred(d, u.where_)?;
            let mut join_on = norm_list(d, u.join_on)?;
            let mut join_kinds = u.join_kinds;
            // MySQL multi-table UPDATE: inner joins with ON conditions and the comma form with WHERE say the same
            if d == Dialect::Mysql && join_kinds.iter().all(|k| ["", ",", "INNER", "CROSS"].contains(&k.as_str())) {
                let mut parts = std::mem::take(&mut join_on);
                if let Some(w) = where_.take() {
                    parts.push(w);
                }
                where_ = drop_true(conj(parts));
                join_kinds = join_kinds.iter().map(|_| ",".to_string()).collect();
            }
            QStmt::Update(QUpdate {
                with: norm_with(d, u.with)?,
                tables: u.tables.into_iter().map(|f| norm_from(d, f)).collect::<R<Vec<_>>>()?,
                join_kinds,
                join_on,
                sets: u.sets.into_iter().map(|(c, e)| Ok((c, norm_expr(d, e)?))).collect::<R<Vec<_>>>()?,
                from: u.from.into_iter().map(|f| norm_from(d, f)).collect::<R<Vec<_>>>()?,
                where_,
                order: norm_order(d, u.order)?,
                limit: norm_opt(d, u.limit)?,
                returning: match u.returning {
                    Some(r) => Some(norm_items(d, r)?),
                    None => None,
                },
            })
        }
        QStmt::Delete(q) => QStmt::Delete(QDelete {
            with: norm_with(d, q.with)?,
            table: q.table,
            where_: norm_pred(d, q.where_)?,
            order: norm_order(d, q.order)?,
            limit: norm_opt(d, q.limit)?,
            returning: match q.returning {
                Some(r) => Some(norm_items(d, r)?),
                None => None,
            },
        }),
    })
}

/// names of the clauses in which two normalised statements differ
pub fn diff_clauses(a: &QStmt, b: &QStmt) -> Vec<&'static str> {
    let mut out = vec![];
    macro_rules! cmp {
        ($x:expr, $y:expr, $( $f:ident => $n:expr ),* ) => { $( if $x.$f != $y.$f { out.push($n); } )* };
    }
    match (a, b) {
        (QStmt::Select(x), QStmt::Select(y)) => {
            cmp!(x, y, with => "with", values => "values", distinct => "distinct", distinct_on => "distinct-on", items => "select-list", from => "from", joins => "joins", where_ => "where", group => "group-by", having => "having", windows => "window", setops => "set-operations", order => "order-by", limit => "limit", offset => "offset", lock => "locking");
        }
        (QStmt::Insert(x), QStmt::Insert(y)) => {
            cmp!(x, y, with => "with", replace => "replace", ignore => "ignore", table => "table", cols => "columns", source => "source", on_conflict => "on-conflict", on_duplicate => "on-duplicate-key", returning => "returning");
        }
        (QStmt::Update(x), QStmt::Update(y)) => {
            cmp!(x, y, with => "with", tables => "tables", join_kinds => "tables", join_on => "join-on", sets => "set", from => "from", where_ => "where", order => "order-by", limit => "limit", returning => "returning");
        }
        (QStmt::Delete(x), QStmt::Delete(y)) => {
            cmp!(x, y, with => "with", table => "table", where_ => "where", order => "order-by", limit => "limit", returning => "returning");
        }
        _ => out.push("statement-kind"),
    }
    out.dedup();
    out
}
