//! INSERT / UPDATE / DELETE state machines over QModel, with the explicit SQLite reference renderer.

use crate::explore::{explore, replay_ops, Fail, Model, Stats};
use crate::lex::Dialect;
use crate::qmodel::*;
use crate::report::Report;
use crate::smodel::{bind_value, nested_pool, row_multiset, with_db};
use crate::sqlite::Rows;
use crate::util::{catch, fp_str};
use sea_query::*;

fn a(s: &str) -> Alias {
    Alias::new(s)
}
fn bx<T>(x: T) -> Box<T> {
    Box::new(x)
}

#[derive(Clone, Debug, PartialEq)]
pub enum OcSpec {
    /// OnConflict::new().do_nothing()
    BareDoNothing,
    /// OnConflict::column(t).do_nothing()
    DoNothing(&'static str),
    /// OnConflict::column(t).update_columns(cols)
    UpdateCols(&'static str, Vec<&'static str>),
    /// OnConflict::column(t).value(col, expr)
    UpdateVal(&'static str, &'static str, XS),
    /// OnConflict::column(t).update_columns(cols).<api>(cond), api in action_and_where / action_and_where_option / action_cond_where
    UpdateColsWhere(&'static str, Vec<&'static str>, XS, &'static str),
    /// OnConflict::column(t).<api>(cond).update_columns(cols), api in target_and_where / target_and_where_option / target_cond_where
    TargetWhere(&'static str, Vec<&'static str>, XS, &'static str),
}

#[derive(Clone, Debug, PartialEq)]
pub enum RetSpec {
    All,
    Cols(Vec<&'static str>),
    Exprs(Vec<XS>),
}

#[derive(Clone, Debug, PartialEq, Default)]
pub struct DSpec {
    // insert
    pub replace: bool,
    pub cols: Vec<&'static str>,
    pub rows: Vec<Vec<XS>>,
    pub select: Option<SelSpec>,
    pub default_values: bool,
    pub on_conflict: Option<OcSpec>,
    // update
    pub sets: Vec<(&'static str, XS)>,
    pub from: Vec<&'static str>,
    // update / delete
    pub wheres: Vec<CondS>,
    pub orders: Vec<(XS, OrderK)>,
    pub limit: Option<u64>,
    pub returning: Option<RetSpec>,
}

#[derive(Clone, Copy, Debug, PartialEq)]
pub enum Kind {
    Insert,
    Update,
    Delete,
}

#[derive(Clone, Debug, PartialEq)]
pub enum DOp {
    Replace,
    Columns(Vec<&'static str>),
    Values(Vec<XS>),
    SelectFrom(Box<SelSpec>),
    OrDefaultValues,
    OnConflict(OcSpec),
    Set(&'static str, XS),
    From(&'static str),
    Where(CondS),
    Order(XS, OrderK),
    Limit(u64),
    Returning(RetSpec),
}

pub fn dop_class(op: &DOp) -> &'static str {
    match op {
        DOp::Replace => "replace",
        DOp::Columns(_) => "columns",
        DOp::Values(_) => "values",
        DOp::SelectFrom(_) => "select_from",
        DOp::OrDefaultValues => "or_default_values",
        DOp::OnConflict(OcSpec::BareDoNothing) => "on_conflict-bare-do_nothing",
        DOp::OnConflict(OcSpec::DoNothing(_)) => "on_conflict-do_nothing",
        DOp::OnConflict(OcSpec::UpdateCols(..)) => "on_conflict-update_columns",
        DOp::OnConflict(OcSpec::UpdateVal(..)) => "on_conflict-value",
        DOp::OnConflict(OcSpec::UpdateColsWhere(_, _, _, "action_and_where")) => "on_conflict-action_and_where",
        DOp::OnConflict(OcSpec::UpdateColsWhere(_, _, _, "action_and_where_option")) => "on_conflict-action_and_where_option",
        DOp::OnConflict(OcSpec::UpdateColsWhere(..)) => "on_conflict-action_cond_where",
        DOp::OnConflict(OcSpec::TargetWhere(_, _, _, "target_and_where")) => "on_conflict-target_and_where",
        DOp::OnConflict(OcSpec::TargetWhere(_, _, _, "target_and_where_option")) => "on_conflict-target_and_where_option",
        DOp::OnConflict(OcSpec::TargetWhere(..)) => "on_conflict-target_cond_where",
        DOp::Set(..) => "set-value",
        DOp::From(_) => "update-from",
        DOp::Where(CondS::One(_)) => "and_where",
        DOp::Where(CondS::Any(v)) | DOp::Where(CondS::All(v)) if v.is_empty() => "cond_where-empty-group",
        DOp::Where(CondS::Any(_)) | DOp::Where(CondS::All(_)) => "cond_where",
        DOp::Order(_, OrderK::Plain(_)) => "order_by",
        DOp::Order(_, OrderK::Nulls(..)) => "order_by_nulls",
        DOp::Order(_, OrderK::Field(_)) => "order_by_field",
        DOp::Limit(_) => "limit",
        DOp::Returning(RetSpec::All) => "returning_all",
        DOp::Returning(RetSpec::Cols(_)) => "returning_columns",
        DOp::Returning(RetSpec::Exprs(_)) => "returning_exprs",
    }
}

#[derive(Clone, Debug)]
pub enum DStmt {
    Ins(InsertStatement),
    Upd(UpdateStatement),
    Del(DeleteStatement),
}
impl DStmt {
    pub fn to_string_d(&self, d: Dialect) -> String {
        macro_rules! r {
            ($s:expr) => {
                match d {
                    Dialect::Mysql => $s.to_string(MysqlQueryBuilder),
                    Dialect::Postgres => $s.to_string(PostgresQueryBuilder),
                    Dialect::Sqlite => $s.to_string(SqliteQueryBuilder),
                }
            };
        }
        match self {
            DStmt::Ins(s) => r!(s),
            DStmt::Upd(s) => r!(s),
            DStmt::Del(s) => r!(s),
        }
    }
    pub fn build_d(&self, d: Dialect) -> (String, Values) {
        macro_rules! r {
            ($s:expr) => {
                match d {
                    Dialect::Mysql => $s.build(MysqlQueryBuilder),
                    Dialect::Postgres => $s.build(PostgresQueryBuilder),
                    Dialect::Sqlite => $s.build(SqliteQueryBuilder),
                }
            };
        }
        match self {
            DStmt::Ins(s) => r!(s),
            DStmt::Upd(s) => r!(s),
            DStmt::Del(s) => r!(s),
        }
    }
}

#[derive(Clone, Debug)]
pub struct DSys {
    pub q: DStmt,
    pub pg: DStmt,
}
impl DSys {
    pub fn stmt(&self, d: Dialect) -> &DStmt {
        if d == Dialect::Postgres {
            &self.pg
        } else {
            &self.q
        }
    }
}

fn order_of(k: &OrderK) -> (Order, Option<NullOrdering>) {
    match k {
        OrderK::Plain(desc) => (if *desc { Order::Desc } else { Order::Asc }, None),
        OrderK::Nulls(desc, first) => (if *desc { Order::Desc } else { Order::Asc }, Some(if *first { NullOrdering::First } else { NullOrdering::Last })),
        OrderK::Field(vs) => (Order::Field(Values(vs.iter().map(|v| v.value()).collect())), None),
    }
}

fn oc_build(o: &OcSpec, d: Dialect) -> OnConflict {
    match o {
        OcSpec::BareDoNothing => OnConflict::new().do_nothing().to_owned(),
        OcSpec::DoNothing(t) => OnConflict::column(a(t)).do_nothing().to_owned(),
        OcSpec::UpdateCols(t, cols) => OnConflict::column(a(t)).update_columns(cols.iter().map(|c| a(c))).to_owned(),
        OcSpec::UpdateVal(t, c, x) => OnConflict::column(a(t)).value(a(c), x.build(d)).to_owned(),
        OcSpec::UpdateColsWhere(t, cols, x, api) => {
            let mut o = OnConflict::column(a(t));
            o.update_columns(cols.iter().map(|c| a(c)));
            match *api {
                "action_and_where" => o.action_and_where(x.build(d)),
                "action_and_where_option" => o.action_and_where_option(Some(x.build(d))),
                _ => o.action_cond_where(Cond::all().add(x.build(d))),
            };
            o
        }
        OcSpec::TargetWhere(t, cols, x, api) => {
            let mut o = OnConflict::column(a(t));
            match *api {
                "target_and_where" => o.target_and_where(x.build(d)),
                "target_and_where_option" => o.target_and_where_option(Some(x.build(d))),
                _ => o.target_cond_where(Cond::all().add(x.build(d))),
            };
            o.update_columns(cols.iter().map(|c| a(c)));
            o
        }
    }
}
fn ret_build(r: &RetSpec, d: Dialect) -> ReturningClause {
    match r {
        RetSpec::All => Query::returning().all(),
        RetSpec::Cols(c) => Query::returning().columns(c.iter().map(|c| a(c))),
        RetSpec::Exprs(x) => Query::returning().exprs(x.iter().map(|x| x.build(d))),
    }
}
/// the real builder call; Err = the call returned an error (never expected in this alphabet)
pub fn apply_real(s: &mut DStmt, op: &DOp, d: Dialect) -> Result<(), String> {
    match (s, op) {
        (DStmt::Ins(s), DOp::Replace) => {
            s.replace();
        }
        (DStmt::Ins(s), DOp::Columns(c)) => {
            s.columns(c.iter().map(|c| a(c)));
        }
        (DStmt::Ins(s), DOp::Values(row)) => {
            s.values(row.iter().map(|x| x.build(d))).map_err(|e| format!("{e}"))?;
        }
        (DStmt::Ins(s), DOp::SelectFrom(q)) => {
            s.select_from(q.build(d)).map_err(|e| format!("{e}"))?;
        }
        (DStmt::Ins(s), DOp::OrDefaultValues) => {
            s.or_default_values();
        }
        (DStmt::Ins(s), DOp::OnConflict(o)) => {
            s.on_conflict(oc_build(o, d));
        }
        (DStmt::Ins(s), DOp::Returning(r)) => {
            s.returning(ret_build(r, d));
        }
        (DStmt::Upd(s), DOp::Set(c, x)) => {
            s.value(a(c), x.build(d));
        }
        (DStmt::Upd(s), DOp::From(t)) => {
            s.from(a(t));
        }
        (DStmt::Upd(s), DOp::Where(CondS::One(x))) => {
            s.and_where(x.build(d));
        }
        (DStmt::Upd(s), DOp::Where(c)) => {
            s.cond_where(cond_build(c, d));
        }
        (DStmt::Upd(s), DOp::Order(x, k)) => {
            let (o, n) = order_of(k);
            match n {
                Some(n) => s.order_by_expr_with_nulls(x.build(d), o, n),
                None => s.order_by_expr(x.build(d), o),
            };
        }
        (DStmt::Upd(s), DOp::Limit(n)) => {
            s.limit(*n);
        }
        (DStmt::Upd(s), DOp::Returning(r)) => {
            s.returning(ret_build(r, d));
        }
        (DStmt::Del(s), DOp::Where(CondS::One(x))) => {
            s.and_where(x.build(d));
        }
        (DStmt::Del(s), DOp::Where(c)) => {
            s.cond_where(cond_build(c, d));
        }
        (DStmt::Del(s), DOp::Order(x, k)) => {
            let (o, n) = order_of(k);
            match n {
                Some(n) => s.order_by_expr_with_nulls(x.build(d), o, n),
                None => s.order_by_expr(x.build(d), o),
            };
        }
        (DStmt::Del(s), DOp::Limit(n)) => {
            s.limit(*n);
        }
        (DStmt::Del(s), DOp::Returning(r)) => {
            s.returning(ret_build(r, d));
        }
        (_, op) => return Err(format!("op {:?} does not apply to this statement kind", op)),
    }
    Ok(())
}

pub fn apply_dspec(r: &mut DSpec, op: &DOp) {
    match op {
        DOp::Replace => r.replace = true,
        DOp::Columns(c) => r.cols = c.clone(),
        DOp::Values(row) => {
            r.select = None;
            r.rows.push(row.clone())
        }
        DOp::SelectFrom(q) => {
            r.rows.clear();
            r.select = Some((**q).clone())
        }
        DOp::OrDefaultValues => r.default_values = true,
        DOp::OnConflict(o) => r.on_conflict = Some(o.clone()),
        DOp::Set(c, x) => r.sets.push((c, x.clone())),
        DOp::From(t) => r.from.push(t),
        DOp::Where(c) => r.wheres.push(c.clone()),
        DOp::Order(x, k) => r.orders.push((x.clone(), k.clone())),
        DOp::Limit(n) => r.limit = Some(*n),
        DOp::Returning(x) => r.returning = Some(x.clone()),
    }
}

fn conds_sql(cs: &[CondS]) -> String {
    if cs.is_empty() {
        return String::new();
    }
    format!(
        " WHERE {}",
        cs.iter()
            .map(|c| format!("({})", c.ref_sql()))
            .collect::<Vec<_>>()
            .join(" AND ")
    )
}
fn order_sql(orders: &[(XS, OrderK)]) -> String {
    if orders.is_empty() {
        return String::new();
    }
    let one = |x: &XS, k: &OrderK| match k {
        OrderK::Plain(desc) => format!("{} {}", x.ref_sql(), if *desc { "DESC" } else { "ASC" }),
        OrderK::Nulls(desc, first) => format!("{} {} NULLS {}", x.ref_sql(), if *desc { "DESC" } else { "ASC" }, if *first { "FIRST" } else { "LAST" }),
        OrderK::Field(vs) => {
            let mut s = String::from("CASE");
            for (i, v) in vs.iter().enumerate() {
                s.push_str(&format!(" WHEN {} = {} THEN {}", x.ref_sql(), v.sql(), i));
            }
            s.push_str(&format!(" ELSE {} END", vs.len()));
            s
        }
    };
    format!(" ORDER BY {}", orders.iter().map(|(x, k)| one(x, k)).collect::<Vec<_>>().join(", "))
}
fn ret_sql(r: &Option<RetSpec>) -> String {
    match r {
        None => String::new(),
        Some(RetSpec::All) => " RETURNING *".into(),
        Some(RetSpec::Cols(c)) => format!(" RETURNING {}", c.iter().map(|c| format!("\"{c}\"")).collect::<Vec<_>>().join(", ")),
        Some(RetSpec::Exprs(x)) => format!(" RETURNING {}", x.iter().map(|x| x.ref_sql()).collect::<Vec<_>>().join(", ")),
    }
}

impl DSpec {
    /// independent, explicit SQLite rendering (clause order from SQLite's syntax diagrams:
    /// RETURNING comes before ORDER BY / LIMIT in UPDATE and DELETE)
    pub fn ref_sql(&self, kind: Kind) -> String {
        match kind {
            Kind::Insert => {
                let mut s = format!("{} INTO \"t1\"", if self.replace { "REPLACE" } else { "INSERT" });
                let default_form = self.default_values && self.cols.is_empty() && self.rows.is_empty() && self.select.is_none();
                if default_form {
                    s.push_str(" DEFAULT VALUES");
                } else {
                    s.push_str(&format!(" ({})", self.cols.iter().map(|c| format!("\"{c}\"")).collect::<Vec<_>>().join(", ")));
                    if !self.rows.is_empty() {
                        s.push_str(" VALUES ");
                        s.push_str(&self.rows.iter().map(|r| format!("({})", r.iter().map(|x| x.ref_sql()).collect::<Vec<_>>().join(", "))).collect::<Vec<_>>().join(", "));
                    } else if let Some(q) = &self.select {
                        s.push(' ');
                        s.push_str(&q.ref_sql());
                        if self.on_conflict.is_some() && q.wheres.is_empty() {
                            // SQLite's parsing ambiguity: INSERT ... SELECT ... ON CONFLICT needs a WHERE clause on the SELECT
                        }
                    }
                }
                match &self.on_conflict {
                    None => {}
                    Some(OcSpec::BareDoNothing) => s.push_str(" ON CONFLICT DO NOTHING"),
                    Some(OcSpec::DoNothing(t)) => s.push_str(&format!(" ON CONFLICT (\"{t}\") DO NOTHING")),
                    Some(OcSpec::UpdateCols(t, cols)) => s.push_str(&format!(" ON CONFLICT (\"{t}\") DO UPDATE SET {}", cols.iter().map(|c| format!("\"{c}\" = \"excluded\".\"{c}\"")).collect::<Vec<_>>().join(", "))),
                    Some(OcSpec::UpdateVal(t, c, x)) => s.push_str(&format!(" ON CONFLICT (\"{t}\") DO UPDATE SET \"{c}\" = {}", x.ref_sql())),
                    Some(OcSpec::UpdateColsWhere(t, cols, x, _)) => s.push_str(&format!(" ON CONFLICT (\"{t}\") DO UPDATE SET {} WHERE {}", cols.iter().map(|c| format!("\"{c}\" = \"excluded\".\"{c}\"")).collect::<Vec<_>>().join(", "), x.ref_sql())),
                    Some(OcSpec::TargetWhere(t, cols, x, _)) => s.push_str(&format!(" ON CONFLICT (\"{t}\") WHERE {} DO UPDATE SET {}", x.ref_sql(), cols.iter().map(|c| format!("\"{c}\" = \"excluded\".\"{c}\"")).collect::<Vec<_>>().join(", "))),
                }
                s.push_str(&ret_sql(&self.returning));
                s
            }
            Kind::Update => {
                let mut s = format!("UPDATE \"t1\" SET {}", self.sets.iter().map(|(c, x)| format!("\"{c}\" = {}", x.ref_sql())).collect::<Vec<_>>().join(", "));
                if !self.from.is_empty() {
                    s.push_str(&format!(" FROM {}", self.from.iter().map(|t| format!("\"{t}\"")).collect::<Vec<_>>().join(", ")));
                }
                s.push_str(&conds_sql(&self.wheres));
                s.push_str(&ret_sql(&self.returning));
                s.push_str(&order_sql(&self.orders));
                if let Some(l) = self.limit {
                    s.push_str(&format!(" LIMIT {l}"));
                }
                s
            }
            Kind::Delete => {
                let mut s = String::from("DELETE FROM \"t1\"");
                s.push_str(&conds_sql(&self.wheres));
                s.push_str(&ret_sql(&self.returning));
                s.push_str(&order_sql(&self.orders));
                if let Some(l) = self.limit {
                    s.push_str(&format!(" LIMIT {l}"));
                }
                s
            }
        }
    }

    /// values in the order the dialect's text reads them
    pub fn tags(&self, kind: Kind, d: Dialect, out: &mut Vec<V>) {
        let conds = |out: &mut Vec<V>| {
            for c in &self.wheres {
                c.tags(d, out);
            }
        };
        let orders = |out: &mut Vec<V>| {
            for (x, k) in &self.orders {
                match k {
                    OrderK::Field(_) => {}
                    OrderK::Nulls(..) if d == Dialect::Mysql => {
                        x.tags(d, out);
                        x.tags(d, out);
                    }
                    _ => x.tags(d, out),
                }
            }
        };
        let ret = |out: &mut Vec<V>| {
            if d != Dialect::Mysql {
                if let Some(RetSpec::Exprs(xs)) = &self.returning {
                    xs.iter().for_each(|x| x.tags(d, out));
                }
            }
        };
        match kind {
            Kind::Insert => {
                for r in &self.rows {
                    r.iter().for_each(|x| x.tags(d, out));
                }
                if self.rows.is_empty() {
                    if let Some(q) = &self.select {
                        q.tags(d, out);
                    }
                }
                match &self.on_conflict {
                    Some(OcSpec::UpdateVal(_, _, x)) => x.tags(d, out),
                    Some(OcSpec::UpdateColsWhere(_, _, x, _)) | Some(OcSpec::TargetWhere(_, _, x, _)) if d != Dialect::Mysql => x.tags(d, out),
                    _ => {}
                }
                ret(out);
            }
            Kind::Update => {
                if d == Dialect::Mysql && !self.from.is_empty() {
                    // UPDATE t JOIN f ON <where> SET ...
                    conds(out);
                    self.sets.iter().for_each(|(_, x)| x.tags(d, out));
                } else {
                    self.sets.iter().for_each(|(_, x)| x.tags(d, out));
                    conds(out);
                }
                // RETURNING precedes ORDER BY / LIMIT (SQLite's grammar, the only engine having both)
                ret(out);
                orders(out);
                if let Some(l) = self.limit {
                    out.push(V::Int(l as i64));
                }
            }
            Kind::Delete => {
                conds(out);
                ret(out);
                orders(out);
                if let Some(l) = self.limit {
                    out.push(V::Int(l as i64));
                }
            }
        }
    }
}

pub type DCheck = Box<dyn Fn(Kind, &DSys, &DSpec) -> Vec<Fail> + Sync + Send>;

pub struct DmlModel {
    pub kind: Kind,
    pub menu: Vec<DOp>,
    pub checks: Vec<DCheck>,
}

fn iv(n: i64) -> XS {
    XS::Val(V::Int(n))
}

pub fn dml_menu(kind: Kind, thorough: bool) -> Vec<DOp> {
    let pb = pool_bool();
    let r = nested_pool();
    let mut m = vec![];
    let wheres = |m: &mut Vec<DOp>| {
        let n = if thorough { pb.len() } else { 7 };
        for x in pb.iter().take(n) {
            m.push(DOp::Where(CondS::One(x.clone())));
        }
        m.push(DOp::Where(CondS::Any(vec![retag(&pb[0], 50), retag(&pb[5], 50)])));
        m.push(DOp::Where(CondS::Any(vec![])));
        m.push(DOp::Where(CondS::All(vec![])));
        m.push(DOp::Where(CondS::One(XS::InSub(bx(XS::Col("b")), bx(r[0].clone())))));
        m.push(DOp::Where(CondS::One(XS::InSub(bx(XS::Col("id")), bx(r[4].clone())))));
    };
    let returning = |m: &mut Vec<DOp>| {
        m.push(DOp::Returning(RetSpec::All));
        m.push(DOp::Returning(RetSpec::Cols(vec!["id", "a"])));
        m.push(DOp::Returning(RetSpec::Exprs(vec![XS::Bin(BOp::Add, bx(XS::Col("a")), bx(iv(8101))), XS::Col("id")])));
    };
    let orders = |m: &mut Vec<DOp>| {
        m.push(DOp::Order(XS::Col("id"), OrderK::Plain(true)));
        m.push(DOp::Order(XS::Col("a"), OrderK::Nulls(false, false)));
        m.push(DOp::Order(XS::Col("b"), OrderK::Nulls(true, true)));
        m.push(DOp::Order(XS::Bin(BOp::Add, bx(XS::Col("b")), bx(iv(6001))), OrderK::Nulls(false, false)));
        m.push(DOp::Order(XS::Col("s"), OrderK::Field(vec![V::Str("y".into()), V::Str("x".into())])));
        m.push(DOp::Limit(2));
        m.push(DOp::Limit(0));
    };
    match kind {
        Kind::Insert => {
            m.push(DOp::Replace);
            m.push(DOp::Columns(vec!["a", "b"]));
            m.push(DOp::Columns(vec!["id", "a", "s"]));
            m.push(DOp::Values(vec![iv(4101), iv(4102)]));
            m.push(DOp::Values(vec![iv(4111), XS::Bin(BOp::Add, bx(iv(4112)), bx(iv(4113)))]));
            m.push(DOp::Values(vec![iv(1), iv(4201), XS::Val(V::Str("n".into()))]));
            m.push(DOp::Values(vec![iv(9), iv(4211), XS::Val(V::Str("it's".into()))]));
            m.push(DOp::SelectFrom(bx(SelSpec {
                items: vec![Item::Expr(XS::Col("c"), None), Item::Expr(iv(4301), None)],
                from: vec![FromItem::Table("t2")],
                wheres: vec![CondS::One(XS::Bin(BOp::Gt, bx(XS::Col("c")), bx(iv(1001))))],
                ..Default::default()
            })));
            m.push(DOp::SelectFrom(bx(SelSpec {
                items: vec![Item::Expr(XS::Col("t1_id"), None), Item::Expr(XS::Col("c"), None), Item::Expr(XS::Col("s"), None)],
                from: vec![FromItem::Table("t2")],
                wheres: vec![CondS::One(XS::IsNull(bx(XS::Col("c")), true))],
                ..Default::default()
            })));
            m.push(DOp::OrDefaultValues);
            m.push(DOp::OnConflict(OcSpec::BareDoNothing));
            m.push(DOp::OnConflict(OcSpec::DoNothing("id")));
            m.push(DOp::OnConflict(OcSpec::UpdateCols("id", vec!["a"])));
            m.push(DOp::OnConflict(OcSpec::UpdateCols("id", vec!["a", "s"])));
            m.push(DOp::OnConflict(OcSpec::UpdateVal("id", "a", XS::Bin(BOp::Add, bx(XS::TCol("t1", "a")), bx(iv(8201))))));
            for api in ["action_and_where", "action_and_where_option", "action_cond_where"] {
                m.push(DOp::OnConflict(OcSpec::UpdateColsWhere("id", vec!["a"], XS::Bin(BOp::Gt, bx(XS::TCol("t1", "a")), bx(iv(8301))), api)));
            }
            for api in ["target_and_where", "target_and_where_option", "target_cond_where"] {
                m.push(DOp::OnConflict(OcSpec::TargetWhere("id", vec!["a"], XS::Bin(BOp::Gt, bx(XS::Col("a")), bx(iv(8401))), api)));
            }
            returning(&mut m);
        }
        Kind::Update => {
            m.push(DOp::Set("a", iv(3001)));
            m.push(DOp::Set("b", XS::Bin(BOp::Add, bx(XS::Col("a")), bx(iv(3011)))));
            m.push(DOp::Set("s", XS::Val(V::Str("u'p".into()))));
            m.push(DOp::Set("b", XS::TCol("t2", "c")));
            m.push(DOp::Set("a", iv(3002)));
            m.push(DOp::From("t2"));
            m.push(DOp::From("t3"));
            m.push(DOp::Where(CondS::One(XS::Bin(BOp::Eq, bx(XS::TCol("t2", "t1_id")), bx(XS::TCol("t1", "id"))))));
            wheres(&mut m);
            orders(&mut m);
            returning(&mut m);
        }
        Kind::Delete => {
            wheres(&mut m);
            orders(&mut m);
            returning(&mut m);
        }
    }
    m
}

impl Model for DmlModel {
    type Sys = DSys;
    type Ref = DSpec;
    type Op = DOp;
    fn name(&self) -> &'static str {
        match self.kind {
            Kind::Insert => "insert",
            Kind::Update => "update",
            Kind::Delete => "delete",
        }
    }
    fn init(&self) -> (DSys, DSpec) {
        let mk = || match self.kind {
            Kind::Insert => DStmt::Ins(Query::insert().into_table(a("t1")).to_owned()),
            Kind::Update => DStmt::Upd(Query::update().table(a("t1")).to_owned()),
            Kind::Delete => DStmt::Del(Query::delete().from_table(a("t1")).to_owned()),
        };
        (DSys { q: mk(), pg: mk() }, DSpec::default())
    }
    fn enabled(&self, r: &DSpec, _depth: usize) -> Vec<DOp> {
        self.menu
            .iter()
            .filter(|op| match op {
                DOp::Replace => !r.replace,
                DOp::Columns(_) => r.cols.is_empty() && r.rows.is_empty() && r.select.is_none(),
                DOp::Values(row) => row.len() == r.cols.len() && r.rows.len() < 2 && r.select.is_none(),
                DOp::SelectFrom(q) => q.items.len() == r.cols.len() && r.rows.is_empty() && r.select.is_none(),
                DOp::OrDefaultValues => !r.default_values,
                DOp::OnConflict(_) => r.on_conflict.is_none(),
                // a column may be assigned twice (with different expressions): every `value` call appends an assignment
                DOp::Set(c, e) => r.sets.len() < 2 && !r.sets.iter().any(|(x, y)| x == c && format!("{:?}", y) == format!("{:?}", e)),
                DOp::From(_) => r.from.len() < 2,
                DOp::Where(_) => r.wheres.len() < 2,
                DOp::Order(..) => r.orders.len() < 2,
                DOp::Limit(_) => r.limit.is_none(),
                DOp::Returning(_) => r.returning.is_none(),
            })
            .cloned()
            .collect()
    }
    fn step(&self, s: &mut DSys, r: &mut DSpec, op: &DOp) -> Result<(), Fail> {
        match catch(|| {
            let mut q = s.q.clone();
            let mut pg = s.pg.clone();
            let e1 = apply_real(&mut q, op, Dialect::Sqlite);
            let e2 = apply_real(&mut pg, op, Dialect::Postgres);
            (q, pg, e1.and(e2))
        }) {
            Ok((q, pg, Ok(()))) => {
                s.q = q;
                s.pg = pg;
            }
            Ok((_, _, Err(e))) => return Err(Fail::new("builder-error", format!("builder call {:?} failed: {e}", op))),
            Err(p) => return Err(Fail::new("builder-panic", format!("builder call {:?} panicked: {p}", op))),
        }
        apply_dspec(r, op);
        Ok(())
    }
    fn canon(&self, s: &DSys, r: &DSpec) -> u128 {
        // the reference state is hashed in too: a builder call that wrongly leaves the real statement unchanged must not
        // be merged into the state it started from (over-fine is safe)
        fp_str(&format!("{:?}#{:?}", s.q, r))
    }
    fn outcome(&self, s: &DSys, _r: &DSpec) -> u64 {
        fp_str(&catch(|| s.q.to_string_d(Dialect::Sqlite)).unwrap_or_default()) as u64
    }
    fn check(&self, s: &DSys, r: &DSpec) -> Vec<Fail> {
        let mut out = vec![];
        for c in &self.checks {
            out.extend(c(self.kind, s, r));
        }
        let mut seen = std::collections::HashSet::new();
        out.retain(|f| seen.insert((f.sig.clone(), f.fixed_key.clone())));
        out
    }
    fn op_class(&self, op: &DOp) -> String {
        dop_class(op).to_string()
    }
    fn history_key(&self, hist: &[Self::Op]) -> String {
        // the call order across different clauses does not matter for these statements
        let mut c: Vec<String> = hist.iter().map(|o| self.op_class(o)).collect();
        c.sort();
        c.join(";")
    }
    fn op_label(&self, op: &DOp) -> String {
        dop_class(op).to_string()
    }
}

// ---------------------------------------------------------------------------------------------
// C07 for DML: execute inside a transaction that is rolled back; observe RETURNING rows, changes(), table contents

#[derive(Debug, PartialEq)]
pub struct Effect {
    returning: Vec<String>,
    changes: i64,
    t1: Vec<String>,
}

pub fn run_dml(sql: &str, binds: &[crate::sqlite::SqlVal]) -> Result<Effect, String> {
    with_db(|db| {
        db.exec("BEGIN")?;
        let r = (|| -> Result<Effect, String> {
            let rows: Rows = db.query(sql, binds)?;
            let changes = db.changes();
            let t1 = db.query("SELECT id, a, b, s FROM t1 ORDER BY id", &[])?;
            Ok(Effect { returning: row_multiset(&rows), changes, t1: crate::smodel::row_list(&t1) })
        })();
        db.exec("ROLLBACK")?;
        r
    })
}

pub fn check_c07(kind: Kind, sys: &DSys, spec: &DSpec) -> Vec<Fail> {
    use crate::props::c07::{note_live, note_skip, EXECUTED};
    let reference = spec.ref_sql(kind);
    let want = match run_dml(&reference, &[]) {
        Ok(e) => e,
        Err(e) => {
            note_skip(&e);
            return vec![];
        }
    };
    EXECUTED.inc();
    let mut hist: Vec<&'static str> = vec![];
    let mut replay = DSpec::default();
    let _ = &mut replay;
    // op classes present in this state (reconstructed from the specification)
    if spec.replace {
        hist.push("replace");
    }
    if !spec.cols.is_empty() {
        hist.push("columns");
    }
    if !spec.rows.is_empty() {
        hist.push("values");
    }
    if spec.select.is_some() {
        hist.push("select_from");
    }
    if spec.default_values {
        hist.push("or_default_values");
    }
    if let Some(o) = &spec.on_conflict {
        hist.push(dop_class(&DOp::OnConflict(o.clone())));
    }
    if !spec.sets.is_empty() {
        hist.push("set-value");
    }
    if !spec.from.is_empty() {
        hist.push("update-from");
    }
    for w in &spec.wheres {
        hist.push(dop_class(&DOp::Where(w.clone())));
    }
    for (x, k) in &spec.orders {
        hist.push(dop_class(&DOp::Order(x.clone(), k.clone())));
    }
    if spec.limit.is_some() {
        hist.push("limit");
    }
    if let Some(r) = &spec.returning {
        hist.push(dop_class(&DOp::Returning(r.clone())));
    }
    note_live(hist.into_iter());
    let mut fails = vec![];
    match catch(|| sys.q.to_string_d(Dialect::Sqlite)) {
        Err(p) => fails.push(Fail::new("render-panic", format!("to_string panicked: {p}"))),
        Ok(sql) => match run_dml(&sql, &[]) {
            Err(e) => fails.push(Fail::new("engine-rejects-inline", format!("sqlite3 rejects {sql:?}: {e}; the reference {reference:?} is accepted"))),
            Ok(e) => {
                if e != want {
                    fails.push(Fail::new("effect-differs-inline", format!("{sql:?} has effect {:?}; the reference {reference:?} has {:?}", e, want)));
                }
            }
        },
    }
    match catch(|| sys.q.build_d(Dialect::Sqlite)) {
        Err(p) => fails.push(Fail::new("render-panic", format!("build panicked: {p}"))),
        Ok((sql, vals)) => {
            if let Some(b) = vals.0.iter().map(bind_value).collect::<Option<Vec<_>>>() {
                match run_dml(&sql, &b) {
                    Err(e) => fails.push(Fail::new("engine-rejects-build", format!("sqlite3 rejects {sql:?} with {} values: {e}; the reference {reference:?} is accepted", b.len()))),
                    Ok(e) => {
                        if e != want {
                            fails.push(Fail::new("effect-differs-build", format!("{sql:?} with {:?} has effect {:?}; the reference {reference:?} has {:?}", vals.0, e, want)));
                        }
                    }
                }
            }
        }
    }
    fails
}

pub struct DmlStats {
    pub states: u64,
    pub transitions: u64,
    pub max_depth: usize,
    pub outcomes: u64,
    pub exhaustive: bool,
    pub missing_classes: Vec<String>,
}

pub fn run_c07(rep: &Report) -> DmlStats {
    let depth = if rep.thorough() { 5 } else { 4 };
    let mut agg = DmlStats { states: 0, transitions: 0, max_depth: 0, outcomes: 0, exhaustive: true, missing_classes: vec![] };
    for kind in [Kind::Insert, Kind::Update, Kind::Delete] {
        let m = DmlModel { kind, menu: dml_menu(kind, rep.thorough()), checks: vec![Box::new(check_c07)] };
        let st: Stats = explore(&m, depth, u64::MAX, rep);
        agg.states += st.states;
        agg.transitions += st.transitions;
        agg.max_depth = agg.max_depth.max(st.max_depth);
        agg.outcomes += st.outcomes;
        agg.exhaustive &= st.exhaustive;
        let live = crate::props::c07::LIVE_CLASSES.lock().unwrap().clone();
        for op in &m.menu {
            let c = crate::props::c07::vacuity_group(dop_class(op));
            if !live.contains_key(&c) && !agg.missing_classes.contains(&c) {
                agg.missing_classes.push(c);
            }
        }
    }
    agg
}

pub fn replay_c07(model: &str, ops: &[String]) -> Option<String> {
    let kind = match model {
        "insert" => Kind::Insert,
        "update" => Kind::Update,
        "delete" => Kind::Delete,
        _ => return Some(format!("MACHINERY: unknown model {model}")),
    };
    let m = DmlModel { kind, menu: dml_menu(kind, true), checks: vec![Box::new(check_c07)] };
    replay_ops(&m, ops)
}
