//! Exhaustive enumerators for input-shaped spaces.

use crate::util::par_items;

/// Call `f(worker, s)` for every string over `alphabet` with `len(s) <= max_len` (in chars),
/// exactly once each, in parallel. Returns the number of strings and the number of symbol
/// appends performed (the trie's states and transitions).
pub fn for_each_string<F>(alphabet: &[char], max_len: usize, f: F) -> (u64, u64)
where
    F: Fn(usize, &str) + Sync,
{
    let k = alphabet.len() as u64;
    let mut total = 0u64;
    let mut p = 1u64;
    for _ in 0..=max_len {
        total += p;
        p = p.saturating_mul(k);
    }
    let plen = if max_len >= 5 { 3 } else if max_len >= 2 { 2 } else { max_len };
    // all strings shorter than plen: sequentially
    let mut short: Vec<String> = vec![String::new()];
    let mut frontier = vec![String::new()];
    for _ in 0..plen {
        let mut next = Vec::new();
        for s in &frontier {
            for &c in alphabet {
                let mut t = s.clone();
                t.push(c);
                next.push(t);
            }
        }
        short.extend(next.iter().cloned());
        frontier = next;
    }
    // `frontier` = all strings of length plen; `short` = all strings of length <= plen
    let prefixes = frontier;
    for s in short.iter().filter(|s| s.chars().count() < plen) {
        f(0, s);
    }
    par_items(&prefixes, |w, pre| {
        let mut buf = pre.clone();
        dfs(alphabet, max_len, plen, &mut buf, w, &f);
    });
    (total, total - 1)
}

fn dfs<F: Fn(usize, &str)>(alphabet: &[char], max_len: usize, len: usize, buf: &mut String, w: usize, f: &F) {
    f(w, buf);
    if len == max_len {
        return;
    }
    for &c in alphabet {
        buf.push(c);
        dfs(alphabet, max_len, len + 1, buf, w, f);
        buf.pop();
    }
}

/// All strings over the alphabet up to max_len, materialised (small spaces only).
pub fn all_strings(alphabet: &[char], max_len: usize) -> Vec<String> {
    let mut out = vec![String::new()];
    let mut frontier = vec![String::new()];
    for _ in 0..max_len {
        let mut next = Vec::new();
        for s in &frontier {
            for &c in alphabet {
                let mut t = s.clone();
                t.push(c);
                next.push(t);
            }
        }
        out.extend(next.iter().cloned());
        frontier = next;
    }
    out
}

/// All permutations of all subsets of size <= k of 0..n (as index vectors), shortest first.
pub fn perms_of_subsets(n: usize, k: usize) -> Vec<Vec<usize>> {
    let mut out = vec![vec![]];
    let mut frontier: Vec<Vec<usize>> = vec![vec![]];
    for _ in 0..k {
        let mut next = Vec::new();
        for p in &frontier {
            for i in 0..n {
                if !p.contains(&i) {
                    let mut q = p.clone();
                    q.push(i);
                    next.push(q);
                }
            }
        }
        out.extend(next.iter().cloned());
        frontier = next;
    }
    out
}
